"""C10  OutputGate: quiet and verbosity gate every write path.

Drives real Output / SectionOutput / IO objects (every I/O kind found by reflection, every writing entry point found by
reflection) and records what arrives at recording output streams.  No verdict logic here: observations are compared for
equality with behaviours that TLC emitted from specs/OutputGate, everything else is decided by OutputGateTrace."""
import inspect
import json
import os
import re

from harness.engine import tlc as T
from harness.engine.core import chunks

SPEC = os.path.join(T.SPECS, "OutputGate")
NOFLAGS = -1
LEVELS = [0, 1, 2, 4]
FLAGWORDS = [NOFLAGS] + list(range(8))
ENTRY_RE = re.compile(r"^(write|error)")
ENTRY_EXACT = ("overwrite", "clear")
MARK = re.compile(r"m(\d+)\.")
# shapes of the text a writing call is given: built around the marker m<t>. ... or without any marker
MARK_SHAPES = {"plain": "m%d.", "nl": "m%d.\n", "mid": "a\nm%d.", "pad": " m%d. ", "uni": "\u00e9m%d.\u00fc\u0416"}
NOMARK_SHAPES = {"empty": "", "blank": "  ", "onlynl": "\n"}
SHAPE_SETS = [["plain", "nl", "empty"], ["nl", "pad", "onlynl"], ["mid", "blank", "uni"]]
ALL_SHAPES = ["plain", "nl", "mid", "pad", "uni", "empty", "blank", "onlynl"]


# entry points whose documented signature is (string, flags=None, ...): the flag word may be given positionally
KNOWN_FLAG_SECOND = frozenset(["write", "write_line", "write_raw", "write_line_raw", "error", "error_line", "error_raw",
                               "error_line_raw"])


def text_of(shape, t):
    return MARK_SHAPES[shape] % t if shape in MARK_SHAPES else NOMARK_SHAPES[shape]


# ------------------------------------------------------------------ reflection
def _public_classes():
    import clikit.api.io as api_io
    import clikit.io as kinds_io

    seen, out = set(), []
    for mod in (api_io, kinds_io):
        for name in sorted(dir(mod)):
            c = getattr(mod, name)
            if inspect.isclass(c) and c not in seen:
                seen.add(c)
                out.append(c)
    from clikit.api.io.section_output import SectionOutput  # not re-exported by the package

    if SectionOutput not in seen:
        out.append(SectionOutput)
    return out


def io_classes():
    from clikit.api.io import IO

    return [c for c in _public_classes() if issubclass(c, IO)]


def output_classes():
    from clikit.api.io import Output

    return [c for c in _public_classes() if issubclass(c, Output)]


def role_of(cls):
    from clikit.api.io import IO
    from clikit.api.io.section_output import SectionOutput

    if issubclass(cls, IO):
        return "io"
    if issubclass(cls, SectionOutput):
        return "section"
    return "output"


_ENTRIES = {}


def entries(cls):
    """public writing entry points of cls: name matches write*|error*|overwrite|clear, or takes a `flags` parameter"""
    if cls not in _ENTRIES:
        _ENTRIES[cls] = _entries(cls)
    return _ENTRIES[cls]


def _entries(cls):
    out = []
    for name in sorted(dir(cls)):
        if name.startswith("_"):
            continue
        fn = getattr(cls, name)
        if not inspect.isfunction(fn):
            continue
        try:
            params = list(inspect.signature(fn).parameters.values())[1:]
        except (TypeError, ValueError):
            continue
        has_flags = any(p.name == "flags" for p in params)
        if not (ENTRY_RE.match(name) or name in ENTRY_EXACT or has_flags):
            continue
        required = [p.name for p in params
                    if p.default is inspect.Parameter.empty and p.kind in (p.POSITIONAL_ONLY, p.POSITIONAL_OR_KEYWORD)]
        # every other parameter with a default: its legal values besides the default (the gate must not depend on them)
        opts = []
        for q in params:
            if q.name == "flags" or q.default is inspect.Parameter.empty:
                continue
            if isinstance(q.default, bool):
                opts.append((q.name, not q.default))
            elif q.default is None and q.name == "lines":
                opts.append((q.name, 1))
        out.append({"name": name, "hasFlags": has_flags, "ntext": len(required), "opts": opts})
    return out


# ------------------------------------------------------------------ recording stream
def _rec_class():
    from clikit.api.io.output_stream import OutputStream

    class Rec(OutputStream):
        """passes everything on to `inner` and keeps what was written"""

        def __init__(self, inner, ansi=None):
            self.inner = inner
            self.ansi = ansi
            self.data = []

        def write(self, string):
            self.data.append(string if isinstance(string, str) else string.decode("utf-8", "replace"))
            self.inner.write(string)

        def flush(self):
            self.inner.flush()

        def supports_ansi(self):
            return self.inner.supports_ansi() if self.ansi is None else self.ansi

        def supports_utf8(self):
            return self.inner.supports_utf8()

        def close(self):
            self.inner.close()

        def is_closed(self):
            return self.inner.is_closed()

        def text(self):
            return "".join(self.data)

    return Rec


def _inner(kind):
    import io as pyio

    from clikit.io.output_stream import BufferedOutputStream, NullOutputStream, StreamOutputStream

    if kind == "buffered":
        return BufferedOutputStream()
    if kind == "stream":
        return StreamOutputStream(pyio.StringIO())
    return NullOutputStream()


def _fmt(kind):
    from clikit.formatter import AnsiFormatter, PlainFormatter

    return {"plain": lambda: PlainFormatter(), "ansi": lambda: AnsiFormatter(), "forced": lambda: AnsiFormatter(forced=True),
            "null": lambda: None}[kind]()


# ------------------------------------------------------------------ subjects
class Subject(object):
    """one object under test, built from a JSON-able description `real`:
       kind   output | section | io | iosec | sections
       cls    name of the I/O class (io, iosec);   fmt  plain|ansi|forced|null|keep;   inner buffered|stream|null
       ansi   the recording stream claims ANSI support;   via  section: "parent" (Output.section()) | "direct"
       nsecs  number of section outputs (kind sections)"""

    def __init__(self, real):
        from clikit.api.io import Input, Output
        from clikit.api.io.section_output import SectionOutput
        from clikit.io.input_stream import StringInputStream

        Rec = _rec_class()
        self.real = real
        kind = real["kind"]
        ansi = True if real.get("ansi") else None
        self.io = None
        self.t = 0
        if kind in ("io", "iosec"):
            cls = [c for c in io_classes() if c.__name__ == real["cls"]][0]
            try:
                io = _construct(cls)
                for o in (io.output, io.error_output):
                    o.set_stream(Rec(o.stream if real["fmt"] == "keep" else _inner(real["inner"]), ansi))
                if real["fmt"] != "keep":
                    io.set_formatter(_fmt(real["fmt"]))
            except TypeError:
                f = _fmt(real["fmt"] if real["fmt"] != "keep" else "plain")
                io = cls(Input(StringInputStream("")), Output(Rec(_inner(real["inner"]), ansi), f),
                         Output(Rec(_inner(real["inner"]), ansi), f))
            self.parents = []
            if kind == "iosec":
                self.parents = [io]  # the I/O whose outputs the sections were opened from
                if real.get("pq"):
                    io.set_quiet(True)  # silenced before the sections exist
                io = io.section()
            self.io = io
            self.outs = [io.output, io.error_output]
            self.recs = [io.output.stream, io.error_output.stream]
            self.sts = [1, 2]
        else:
            rec = Rec(_inner(real["inner"]), ansi)
            self.parents = []
            if kind == "output":
                self.outs = [Output(rec, _fmt(real["fmt"]))]
            elif kind == "section" and real.get("via") == "direct":
                self.outs = [SectionOutput(rec, [], _fmt(real["fmt"]))]
            elif kind == "section" and real.get("via") == "nested":  # a section of a section
                self.parent = Output(rec, _fmt(real["fmt"]))
                if real.get("pq"):
                    self.parent.set_quiet(True)
                mid = self.parent.section()
                self.parents = [self.parent, mid]
                self.outs = [mid.section()]
            else:
                parent = Output(rec, _fmt(real["fmt"]))
                self.parent = parent
                self.parents = [parent]
                if real.get("pq"):
                    parent.set_quiet(True)
                self.outs = [parent.section() for _ in range(real.get("nsecs", 1))]
            self.recs = [rec]
            self.sts = [1] * len(self.outs)
        o1 = self.outs[0]
        self.dec = bool(o1.supports_ansi() or o1.formatter.force_ansi())
        self.role = role_of(type(self.io)) if self.io is not None else role_of(type(o1))
        self.secs = [role_of(type(o)) == "section" for o in self.outs]
        self.cls = type(self.io if self.io is not None else o1)

    def new_event(self):
        return dict(base_event("new"), kind=self.real["kind"], dec=self.dec, secs=self.secs, sts=self.sts)

    def receiver(self, o):
        return self.io if self.io is not None else self.outs[o - 1]

    def set(self, what, g, val):
        """setter call(s) configuring exactly the outputs g: the I/O-level setter when g is all outputs of an I/O.
        Returns "ok" or the class of the exception (an observation like any other)"""
        meth = "set_quiet" if what == "quiet" else "set_verbosity"
        try:
            if self.io is not None and sorted(g) == [1, 2]:
                getattr(self.io, meth)(val)
            else:
                for x in g:
                    getattr(self.outs[x - 1], meth)(val)
        except Exception as e:  # noqa
            return type(e).__name__
        if what != "quiet":
            # a level that is not one of the four is refused; a refused call leaves the configuration as it was
            self.nset = getattr(self, "nset", 0) + 1
            bad = (3, 5, 7, -1, 6, 8)[self.nset % 6]
            for x in g:
                try:
                    self.outs[x - 1].set_verbosity(bad)
                except Exception:  # noqa
                    pass
        return "ok"

    def can_rewire(self):
        """a stream / formatter of the same kind leaves the decoration as the description fixed it (the setters decide
        like the constructor); sections that share one stream are not re-streamed one by one"""
        return self.real["kind"] != "sections"

    def rewire(self, g, what):
        """Output.set_stream / set_formatter (IO.set_formatter for both outputs) after construction, with a stream /
        formatter of the kind the description names"""
        Rec = _rec_class()
        ansi = True if self.real.get("ansi") else None
        try:
            if what.startswith("parent."):
                # the output / I/O a section was opened from is configured: the section has its own configuration
                meth, val = {"parent.quiet": ("set_quiet", True), "parent.loud": ("set_quiet", False),
                             "parent.v0": ("set_verbosity", 0), "parent.v4": ("set_verbosity", 4)}[what]
                for p in self.parents:
                    getattr(p, meth)(val)
            elif what == "set_stream":
                for x in g:
                    rec = Rec(_inner(self.real.get("inner", "buffered")), ansi)
                    self.outs[x - 1].set_stream(rec)
                    self.recs[self.sts[x - 1] - 1] = rec
            else:
                keep = self.real["fmt"] == "keep"
                if self.io is not None and sorted(g) == [1, 2] and not keep:
                    self.io.set_formatter(_fmt(self.real["fmt"]))
                else:
                    for x in g:
                        o = self.outs[x - 1]
                        o.set_formatter(o.formatter if keep or self.real["fmt"] == "null" else _fmt(self.real["fmt"]))
        except Exception as e:  # noqa
            return type(e).__name__
        return "ok"

    def addressed(self, name, o):
        """the output(s) a call addresses: an output's own method - itself; IO.write* - the standard output, IO.error* -
        the error output (the documented routing); any other I/O entry point - either"""
        if self.io is None:
            return [o]
        if name.startswith("error"):
            return [2]
        if name.startswith("write"):
            return [1]
        return list(range(1, len(self.outs) + 1))

    def write(self, name, o, f, explicit_none=False, sh="plain", positional=False, extra=None):
        self.t += 1
        t = self.t
        recv = self.receiver(o)
        ent = [e for e in entries(type(recv)) if e["name"] == name]
        ev = dict(base_event("write"), role=self.role, name=name, o=o, f=f, t=t, sh=sh,
                  adr=self.addressed(name, o))
        if not ent:
            ev["res"] = "NoSuchEntry"
            return ev
        ent = ent[0]
        ev["hasText"] = ent["ntext"] > 0 and sh in MARK_SHAPES
        args = [text_of(sh, t)] * ent["ntext"]
        kw = {}
        if ent["hasFlags"] and (f != NOFLAGS or explicit_none):
            if positional and ent["ntext"] == 1 and name in KNOWN_FLAG_SECOND:
                # the documented order of every write method: (text, flags, ...) - the flag word right after the text
                args.append(None if f == NOFLAGS else f)
            else:
                kw["flags"] = None if f == NOFLAGS else f
        kw.update(extra or {})
        marks = [len(r.data) for r in self.recs]
        try:
            getattr(recv, name)(*args, **kw)
        except Exception as e:  # noqa: every exception kind is an observation
            ev["res"] = type(e).__name__
        ids, anyb = [[], []], [False, False]
        for k, r in enumerate(self.recs):
            delta = "".join(r.data[marks[k]:])
            ids[k] = [int(x) for x in MARK.findall(delta)]
            anyb[k] = len(delta) > 0
        ev["ids"], ev["any"] = ids, anyb
        return ev


def _construct(cls):
    """cls() with sys.stdout / sys.stderr replaced by in-memory text streams while the constructor runs, so that a
    console I/O binds to those (nothing of a check run may reach the real terminal)"""
    import io as pyio
    import sys

    saved = sys.stdout, sys.stderr
    sys.stdout, sys.stderr = pyio.StringIO(), pyio.StringIO()
    try:
        return cls()
    finally:
        sys.stdout, sys.stderr = saved


def base_event(op):
    return {"op": op, "kind": "", "dec": False, "secs": [], "sts": [], "g": [], "q": False, "v": 0, "role": "", "name": "",
            "o": 1, "adr": [], "f": NOFLAGS, "sh": "plain", "hasText": False, "t": 0, "res": "ok", "ids": [[], []], "any": [False, False]}


def run_case(case):
    """case = {real, ops}; ops: config(q,v) | quiet(g,q) | verbosity(g,v) | write(name,o,f[,explicit_none]) | new
    returns the event list (first event: new)"""
    env_cols = os.environ.get("COLUMNS")
    os.environ["COLUMNS"] = "80"
    try:
        try:
            s = Subject(case["real"])
        except Exception as e:  # noqa: an object that cannot be built is an observation
            return [dict(base_event("new"), kind=case["real"]["kind"], res=type(e).__name__)]
        evs = [s.new_event()]
        for op in case["ops"]:
            k = op["op"]
            if k == "new":  # a fresh object of the same description
                s = Subject(case["real"])
                evs.append(s.new_event())
            elif k == "config":
                allg = list(range(1, len(s.outs) + 1))
                evs.append(dict(base_event("quiet"), g=allg, q=op["q"], res=s.set("quiet", allg, op["q"])))
                evs.append(dict(base_event("verbosity"), g=allg, v=op["v"], res=s.set("verbosity", allg, op["v"])))
            elif k == "quiet":
                evs.append(dict(base_event("quiet"), g=list(op["g"]), q=op["q"], res=s.set("quiet", op["g"], op["q"])))
            elif k == "verbosity":
                evs.append(dict(base_event("verbosity"), g=list(op["g"]), v=op["v"], res=s.set("verbosity", op["g"], op["v"])))
            elif k == "rewire":
                if op["what"].startswith("parent.") or s.can_rewire():
                    evs.append(dict(base_event("rewire"), g=list(op["g"]), name=op["what"], res=s.rewire(op["g"], op["what"])))
            elif k == "write":
                evs.append(s.write(op["name"], op["o"], op["f"], op.get("explicit_none", False), op.get("sh", "plain"),
                                   op.get("positional", False), op.get("extra")))
        return evs
    finally:
        if env_cols is None:
            os.environ.pop("COLUMNS", None)
        else:
            os.environ["COLUMNS"] = env_cols


# ------------------------------------------------------------------ realizations of the abstract kinds
def realizations(kind, full):
    """descriptions of concrete objects for an abstract kind; construction failures are skipped (and reported)"""
    out = []
    fmts = ["plain", "ansi", "forced", "null"]
    inners = ["buffered", "stream", "null"] if full else ["buffered"]
    if kind in ("output", "section", "sections"):
        for fmt in fmts:
            for inner in inners:
                for ansi in (False, True):
                    base = {"kind": kind, "fmt": fmt, "inner": inner, "ansi": ansi}
                    if kind == "section":
                        out.append(dict(base, via="parent"))
                        if fmt in ("plain", "forced") and not ansi:
                            out.append(dict(base, via="nested"))
                            out.append(dict(base, via="parent", pq=True))  # the parent was silenced before section()
                        if full or fmt in ("plain", "forced"):
                            out.append(dict(base, via="direct"))
                    elif kind == "sections":
                        out.append(dict(base, nsecs=2))
                    else:
                        out.append(base)
    else:
        for cls in io_classes():
            for fmt in ["keep", "plain", "ansi", "forced"]:
                for inner in (inners if fmt != "keep" else ["buffered"]):
                    for ansi in (False, True):
                        out.append({"kind": kind, "cls": cls.__name__, "fmt": fmt, "inner": inner, "ansi": ansi})
                        if kind == "iosec" and fmt in ("plain", "forced") and not ansi and inner == "buffered":
                            out.append({"kind": kind, "cls": cls.__name__, "fmt": fmt, "inner": inner, "ansi": ansi, "pq": True})
    return out


def spread(rs, per):
    """at most `per` descriptions per I/O class (quick tier), in the given order"""
    n, out = {}, []
    for r in rs:
        k = r.get("cls", "")
        if n.get(k, 0) < per:
            n[k] = n.get(k, 0) + 1
            out.append(r)
    return out


def usable(reals, skipped):
    """keeps the descriptions that can be built; returns [(real, dec)]"""
    ok = []
    for r in reals:
        try:
            s = Subject(r)
            ok.append((r, s.dec))
        except Exception as e:  # noqa
            skipped.append({"real": r, "cls": type(e).__name__, "error": type(e).__name__ + ": " + str(e)[:80]})
    return ok


def expected_unconstructible(real):
    """the one object of the family the library cannot build (side observation, see the notes): NullIO().section()
    (IO.section calls self.__class__(input, output, error_output), NullIO takes no arguments)"""
    return real.get("cls") == "NullIO" and real["kind"] == "iosec"


def broken_objects(skipped):
    """every other description that cannot be built is an observation: a trace whose 'new' event carries the exception"""
    return [s for s in skipped if not expected_unconstructible(s["real"])]


# ------------------------------------------------------------------ comparing with TLC behaviours
def ops_of(beh):
    """TLC history records -> driver ops (+ the expected observation kept alongside)"""
    ops = []
    for h in beh["ops"]:
        k = h["op"]
        if k == "config":
            ops.append({"op": "config", "q": h["q"], "v": h["v"]})
        elif k == "quiet":
            ops.append({"op": "quiet", "g": sorted(h["g"]), "q": h["q"]})
        elif k == "verbosity":
            ops.append({"op": "verbosity", "g": sorted(h["g"]), "v": h["v"]})
        elif k == "rewire":
            ops.append({"op": "rewire", "g": sorted(h["g"]),
                        "what": ("set_formatter", "set_stream", "parent.quiet", "parent.v0")[(len(ops) + len(beh["ops"])) % 4]})
        elif k == "write":
            ops.append({"op": "write", "name": h["name"], "o": h["o"], "f": h["f"], "sh": h["sh"],
                        "positional": (h["t"] + max(h["f"], 0)) % 2 == 0, "explicit_none": h["t"] % 2 == 0})
    return ops


def agrees(beh, evs):
    """the write events show exactly what the model's behaviour says"""
    if any(e["res"] != "ok" for e in evs):
        return False
    ws = [e for e in evs if e["op"] == "write"]
    hs = [h for h in beh["ops"] if h["op"] == "write"]
    if len(ws) != len(hs):
        return False
    for e, h in zip(ws, hs):
        if e["res"] != "ok" or e["any"] != list(h["any"]):
            return False
        if [sorted(set(x)) for x in e["ids"]] != [sorted(x) for x in h["ids"]]:
            return False
    return True


def nontrivial_ops(ops):
    """the verbosity comparison (not only quiet) decides at least one call, or configuration changes between calls"""
    writes = [o for o in ops if o["op"] == "write"]
    return any(o["f"] > 0 for o in writes) or len(writes) >= 2


# ------------------------------------------------------------------ the check
def run(ctx):
    quick = ctx.tier == "quick"
    ctx.rule = (
        "TLC checks the gate model exhaustively (every configuration x entry x flag word; Monotone on every opening setter "
        "step; section outputs sharing a stream up to 3 calls), emits the complete table [configure; call] and every "
        "operation sequence of length Depth over a reduced menu, plus random longer ones; each behaviour is replayed on "
        "fresh real objects of every realization (I/O kinds x formatter x stream) and compared; independently every entry "
        "point found by reflection is called on a fresh object for every quiet x verbosity x flag word and seeded random "
        "sequences are recorded - all validated by OutputGateTrace.  Non-trivial: a call whose flag word requests a level "
        "(the verbosity comparison decides), or a behaviour with >= 2 calls"
    )
    ctx.assumptions += [
        "flag words 0..7 and None (bits outside the three level bits are not exercised)",
        "outputs are configured through set_quiet / set_verbosity (of the output, or of the I/O for both outputs); a section "
        "output has its own quiet/verbosity (it does not inherit its parent's)",
        "'reaches the stream': the marker text m<n>. occurs in what the recording OutputStream received during the call; "
        "for entries without a text parameter (clear) only the 'nothing when shut' direction is claimed",
        "an I/O entry addresses both outputs of the I/O: 'shown when open' is claimed when both gates are open, "
        "'silent when shut' per output; which of the two streams receives the text is an A-clause",
        "COLUMNS=80 for section outputs",
    ]
    skipped = []
    # ---- the model itself
    ctx.model(SPEC, "MC_OutputGate", "MC_OutputGate_bfs.cfg", name="state-space (one call, all configurations)", workers=8)
    ctx.model(SPEC, "MC_OutputGate", "MC_OutputGate_mono.cfg", name="monotone (setter steps)", workers=8)
    ctx.model(SPEC, "MC_OutputGate", "MC_OutputGate_bfs_sections.cfg", name="sections sharing a stream", workers=8)

    # ---- spec -> code: the table
    reals = {}
    for kind in ("output", "section", "io", "iosec", "sections"):
        for r, dec in usable(realizations(kind, not quick), skipped):
            reals.setdefault((kind, dec), []).append(r)
    broken = broken_objects(skipped)
    for kind in ("output", "section", "io", "iosec", "sections"):
        for dec in (False, True):
            if not reals.get((kind, dec)) and not broken:
                raise T.MachineryError("no realization of kind %s decorated=%s" % (kind, dec))
    ctx.extra["realizations"] = {"%s/%s" % k: len(v) for k, v in sorted(reals.items())}
    ctx.extra["realizations_not_constructible"] = skipped[:20]

    mism_t, mism_c = [], []

    def replay_behaviours(recs, per):
        n = 0
        for nb, beh in enumerate(recs):
            rs = reals.get((beh["kind"], beh["dec"]))
            if not rs:  # nothing of this kind can be built on this tree: reported through `broken`
                continue
            ops = ops_of(beh)
            chosen = rs if per is None else [rs[(nb + j) % len(rs)] for j in range(min(per, len(rs)))]
            for r in chosen:
                if beh["kind"] == "sections":
                    r = dict(r, nsecs=beh["n"])
                case = {"real": r, "ops": ops}
                evs = run_case(case)
                ctx.count()
                n += 1
                if not agrees(beh, evs):
                    mism_t.append(evs)
                    mism_c.append(case)
            if nontrivial_ops(ops):
                ctx.nontriv(json.dumps([beh["kind"], beh["dec"], ops], sort_keys=True))
        return n

    r = ctx.model(SPEC, "MC_OutputGate", "MC_OutputGate_table.cfg", name="gate table", workers=8)
    table = ordered(T.emitted(r))
    if len(table) < 12000:
        raise T.MachineryError("MC_OutputGate table emitted only %d behaviours" % len(table))
    ctx.extra["table_behaviours"] = len(table)
    ctx.extra["table_replays"] = replay_behaviours(table, 2 if quick else None)
    ctx.sample({"tlc_table_row": table[len(table) // 2]})

    # ---- spec -> code: sequences
    r = ctx.model(SPEC, "MC_OutputGate", "MC_OutputGate_seq3.cfg", name="all-sequences (length 3, every kind)", workers=8)
    seqs = ordered(T.emitted(r))
    if len(seqs) < 2000:
        raise T.MachineryError("MC_OutputGate sequences: only %d behaviours" % len(seqs))
    if not quick:
        r = ctx.model(SPEC, "MC_OutputGate", "MC_OutputGate_seq4_sections.cfg", name="all-sequences (length 4, section outputs)",
                      workers=8)
        deep = ordered(T.emitted(r))
        if len(deep) < 100000:
            raise T.MachineryError("MC_OutputGate deep sequences: only %d behaviours" % len(deep))
        seqs += deep
    r = ctx.model(SPEC, "MC_OutputGate", "MC_OutputGate_sim.cfg", name="simulate", simulate="num=%d" % (40 if quick else 1500),
                  depth=13, workers=1, seed=ctx.seed % 100000)
    sims = ordered(T.emitted(r))
    if not sims:
        raise T.MachineryError("MC_OutputGate simulation emitted nothing")
    ctx.extra["sequence_behaviours"] = len(seqs)
    ctx.extra["simulated_behaviours"] = len(sims)
    ctx.extra["sequence_replays"] = replay_behaviours(seqs, 1 if quick else 2) + replay_behaviours(sims, 2)
    ctx.sample({"tlc_sequence": seqs[len(seqs) // 3]})
    ctx.extra["tlc_behaviours_not_reproduced"] = len(mism_t)
    ctx.exhaustive = True

    # ---- code -> spec: every entry found by reflection x quiet x verbosity x flag word, fresh object each time
    traces, cases = list(mism_t), list(mism_c)
    for b in broken:
        traces.append([dict(base_event("new"), kind=b["real"]["kind"], res=b["cls"])])
        cases.append({"real": b["real"], "ops": []})
    found = {}
    for (kind, dec), rs in sorted(reals.items()):
        if kind == "sections":
            continue
        for nr, r in enumerate(rs if not quick else spread(rs, 1 if kind in ("io", "iosec") else 2)):
            s = Subject(r)
            ents = entries(s.cls)
            found.setdefault(s.cls.__name__, sorted(e["name"] for e in ents))
            # the gate must not depend on the text: every configuration meets several text shapes (quick: one of three
            # shape sets per realization, in turn; thorough: all of them)
            shapes = SHAPE_SETS[nr % 3] if quick else ALL_SHAPES
            for ent in ents:
                ops = []
                for q in (False, True):
                    for v in LEVELS:
                        for f in (FLAGWORDS if ent["hasFlags"] else [NOFLAGS]):
                            ops += [{"op": "new"}, {"op": "config", "q": q, "v": v}]
                            for sh in (shapes if ent["ntext"] else ["plain"]):
                                ops.append({"op": "write", "name": ent["name"], "o": 1, "f": f, "sh": sh,
                                            "explicit_none": (q + v) % 2 == 1, "positional": (q + v + len(ops)) % 2 == 0})
                                ctx.count()
                # every other parameter of the entry point at its other legal value (with_indent, new_line, lines)
                for pname, pval in ent.get("opts", ()):
                    for q in (False, True):
                        for v in LEVELS:
                            for f in (FLAGWORDS if ent["hasFlags"] else [NOFLAGS]):
                                ops += [{"op": "new"}, {"op": "config", "q": q, "v": v},
                                        {"op": "write", "name": ent["name"], "o": 1, "f": f, "sh": shapes[(q + v + len(ops)) % 2],
                                         "extra": {pname: pval}}]
                                ctx.count()
                                ctx.nontriv(("opt", kind, dec, ent["name"], pname, q, v, f))
                # a section opened from an output / I/O: the parent's quiet and verbosity must not matter
                if s.parents:
                    for pw, (q, v) in (("parent.quiet", (False, 4)), ("parent.v0", (False, 4)), ("parent.v4", (True, 0)), ("parent.v4", (False, 0))):
                        for f in (FLAGWORDS if ent["hasFlags"] else [NOFLAGS]):
                            ops += [{"op": "new"}, {"op": "config", "q": q, "v": v}, {"op": "rewire", "g": [1], "what": pw},
                                    {"op": "write", "name": ent["name"], "o": 1, "f": f, "sh": shapes[len(ops) % 2]}]
                            ctx.count()
                            ctx.nontriv(("parent", kind, dec, ent["name"], pw, q, v, f))
                # the two outputs of an I/O configured independently (quiet / verbosity on one of them only, both directions)
                if s.io is not None:
                    for one, other in (([1], [2]), ([2], [1])):
                        for q, v in ((True, 0), (False, 4), (True, 4), (False, 1)) if not quick else ((True, 0), (False, 4), (False, 1)):
                            for f in (FLAGWORDS if ent["hasFlags"] else [NOFLAGS]):
                                # the other output keeps what a fresh output has: not quiet, normal verbosity
                                ops += [{"op": "new"}, {"op": "quiet", "g": one, "q": q}, {"op": "verbosity", "g": one, "v": v},
                                        {"op": "write", "name": ent["name"], "o": 1, "f": f, "sh": shapes[(len(ops) // 4) % len(shapes)],
                                         "positional": len(ops) % 8 < 4}]
                                ctx.count()
                                ctx.nontriv(("split", kind, dec, r.get("cls", ""), ent["name"], one[0], q, v, f))
                            if f > 0 and not q:
                                ctx.nontriv(("tab", kind, dec, r.get("cls", ""), ent["name"], v, f))
                case = {"real": r, "ops": ops}
                traces.append(run_case(case))
                cases.append(case)
    ctx.extra["entry_points_found"] = found
    for cls, names in found.items():
        if not names:
            raise T.MachineryError("reflection found no writing entry point on %s" % cls)

    # ---- code -> spec: section pre-filled, then clear / overwrite / write under every configuration
    for (kind, dec), rs in sorted(reals.items()):
        if kind not in ("section", "sections"):
            continue
        for r in rs if not quick else spread(rs, 3):
            for name in ("clear", "overwrite", "write_line"):
                ops = []
                for q in (False, True):
                    for v in LEVELS:
                        ops += [{"op": "new"}, {"op": "config", "q": False, "v": 0},
                                {"op": "write", "name": "write_line", "o": 1, "f": NOFLAGS},
                                {"op": "config", "q": q, "v": v},
                                {"op": "write", "name": name, "o": 1, "f": NOFLAGS}]
                        ctx.count()
                case = {"real": r, "ops": ops}
                traces.append(run_case(case))
                cases.append(case)

    # ---- code -> spec: seeded random sequences
    allr = [(k, r) for k, rs in sorted(reals.items()) for r in rs]
    n = (400 if quick else 6000) if allr else 0
    for i in range(n):
        (kind, dec), r = allr[ctx.rng.randrange(len(allr))]
        if kind == "sections":
            r = dict(r, nsecs=ctx.rng.randint(2, 4))
        ops = random_ops(ctx.rng, r, ctx.rng.randint(4, 30))
        case = {"real": r, "ops": ops}
        traces.append(run_case(case))
        cases.append(case)
        ctx.count()
        ctx.nontriv(("rnd", i))
    ctx.sample({"random_case": {"real": cases[-1]["real"], "ops": cases[-1]["ops"][:8]}})
    ctx.extra["events_recorded"] = sum(len(t) for t in traces)
    validate_all(ctx, traces, cases, "recorded-calls")


def ordered(recs):
    """TLC's workers print in no fixed order: sort, so that the rotation over realizations is the same in every run"""
    return [r for _k, r in sorted(((json.dumps(r, sort_keys=True), r) for r in recs), key=lambda x: x[0])]


def validate_all(ctx, traces, cases, name):
    # batches of roughly 40 k events
    bt, bc, n = [], [], 0
    for t, c in zip(traces, cases):
        bt.append(t)
        bc.append(c)
        n += len(t)
        if n > 45000:
            ctx.validate(SPEC, "OutputGateTrace", "OutputGateTrace.cfg", bt, cases=bc, name=name)
            bt, bc, n = [], [], 0
    if bt:
        ctx.validate(SPEC, "OutputGateTrace", "OutputGateTrace.cfg", bt, cases=bc, name=name)


def random_ops(rng, real, n):
    s = Subject(real)
    nouts = len(s.outs)
    ents = entries(s.cls)
    groups = [[1], [2], [1, 2]] if s.io is not None else [[o] for o in range(1, nouts + 1)]
    ops = []
    for _ in range(n):
        x = rng.random()
        if x < 0.2:
            ops.append({"op": "quiet", "g": rng.choice(groups), "q": rng.random() < 0.5})
        elif x < 0.45:
            ops.append({"op": "verbosity", "g": rng.choice(groups), "v": rng.choice(LEVELS)})
        elif x < 0.53:
            ops.append({"op": "rewire", "g": rng.choice(groups),
                        "what": rng.choice(["set_stream", "set_formatter", "parent.quiet", "parent.loud", "parent.v0", "parent.v4"])})
        else:
            e = rng.choice(ents)
            f = rng.choice(FLAGWORDS) if e["hasFlags"] else NOFLAGS
            ops.append({"op": "write", "name": e["name"], "o": 1 if s.io is not None else rng.randint(1, nouts), "f": f,
                        "sh": rng.choice(ALL_SHAPES), "explicit_none": rng.random() < 0.5, "positional": rng.random() < 0.5})
    return ops


def replay(ctx, path):
    d = json.load(open(path))
    c = d["case"]
    ctx.count()
    ctx.nontriv(1)
    ctx.nontriv(2)
    ctx.sample({"real": c["real"], "ops": c["ops"][:10]})
    ctx.validate(SPEC, "OutputGateTrace", "OutputGateTrace.cfg", [run_case(c)], cases=[c], name="replay")
