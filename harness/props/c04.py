"""C04  ConsoleApplication.run / Command.handle.  Builds small applications (ApplicationConfig + DefaultResolver as in
tests/test_console_aplication.py, and DefaultApplicationConfig) with the commands alpha, beta and beta gamma, recording
handlers and pre-resolve / pre-handle listeners that behave as the environment record says; runs
ConsoleApplication.run(args, StringInputStream(''), BufferedOutputStream(), BufferedOutputStream()) and records the returned
status or escaping exception, the handler invocations and what was printed.  Environments come from TLC (MC_AppRun: whole
products) and from a seeded random generator; AppRunTrace decides.  No verdict logic here."""
import json
import os

from harness.engine import tlc as T
from harness.engine.core import chunks
from harness.props.c20 import MESSAGES, cells

SPEC = os.path.join(T.SPECS, "AppRun")
ACTIONS = ["CreateIO", "PreResolve", "Resolve", "PreHandle", "PreHandleEnd", "InvokeHandler", "Normalise", "Catch", "Report", "Return"]

LINES = {
    "alpha_x": "alpha x", "alpha_x_flag": "alpha x --flag", "beta": "beta", "beta_gamma_y": "beta gamma y",
    "beta_gamma_y_num": "beta gamma y --num 7", "alpha_missing": "alpha", "nosuch": "nosuch", "empty": "",
    "alpha_beta": "alpha beta", "alpha_help": "alpha help", "gamma_alpha": "beta gamma alpha",  # values that spell command names
}
VALUES = {
    "None": None, "False": False, "0": 0, "0.0": 0.0, "empty_str": "", "empty_list": [], "True": True, "-5": -5, "1": 1, "255": 255,
    "300": 300, "s3": "3", "s0": "0", "0.5": 0.5, "abc": "abc", "nan": float("nan"), "inf": float("inf"), "list": [1],
    "b3": b"3", "bempty": b"", "big": 2 ** 70, "negzero": -0.0, "babc": b"abc",
}


class _IntLike(object):
    """what a numeric library hands back: converts with int(), truth value of its own"""

    def __init__(self, n, truth):
        self.n, self.truth = n, truth

    def __int__(self):
        return self.n

    def __bool__(self):
        return self.truth


def value_of(name):
    if name == "dec27":
        from decimal import Decimal

        return Decimal("2.7")
    if name == "dec0":
        from decimal import Decimal

        return Decimal(0)
    if name == "intlike7":
        return _IntLike(7, True)
    if name == "falsy9":
        return _IntLike(9, False)
    return VALUES[name]


VALUE_NAMES = list(VALUES) + ["dec27", "dec0", "intlike7", "falsy9"]
FIXED_MESSAGES = {
    "Foreign": "foreign failure", "Library": "library failure", "WithCode": "failure with a code", "Chained": "the effect",
    "TagOpen": "an <info>open tag", "TagClose": "a closing </info> tag only", "TagUnbalanced": "<b>x</info>",
    "MultiLine": "line one\nline two\n  indented line three", "NonAscii": "h\u00e9llo \u4e2d\u6587", "Backslash": "C:\\dir\\",
    "NoSource": "raised by exec'd code", "LibraryTagged": "bad </info> msg", "LibraryBackslash": "C:\\dir\\",
    "TagCloseOpen": "</info> x <error>", "LibraryCloseOpen": "</info> x <error>",
    "CodeMethod": "code is a method", "CodeNone": "code is None", "CodeString": "code is a string", "CodeFloat": "code is a float",
    "CodeBig": "code is 70000", "TagFile": "raised by code whose file name is a closing tag",
    "NotPython": "raised by code named after a template file", "Undecodable": "raised by code named after a binary file",
    "SolPlain": "brings a solution", "SolNoDesc": "brings a solution without description", "SolNoTitle": "brings a solution without title",
    "LongContext": "the last of 1500 failures", "CircularContext": "context chain is a circle",
    "AngleText": "no type List<int> in <module>, got <object at 0x1>",
    "TypeError": "unsupported operand type(s) in the handler's own code", "TypeErrorOnce": "a TypeError of the handler's body, first call only",
}
FREE_MESSAGE = ("Foreign", "Library", "WithCode", "Chained", "NoSource", "CodeMethod", "CodeNone", "CodeString", "CodeFloat", "CodeBig")
ALL_KINDS = ["Foreign", "Library", "KeyboardInterrupt", "WithCode", "Chained", "TagOpen", "TagClose", "TagUnbalanced", "TagCloseOpen",
             "MultiLine", "NonAscii", "Backslash", "NoSource", "StrFails", "LibraryTagged", "LibraryBackslash", "LibraryCloseOpen",
             "CodeMethod", "CodeNone", "CodeString", "CodeFloat", "CodeBig", "TagFile", "NotPython", "Undecodable",
             "SolPlain", "SolNoDesc", "SolNoTitle", "LongContext", "CircularContext", "TypeError", "TypeErrorOnce", "AngleText"]
SCOPES = ["top", "indent", "increment", "output"]
FACTORIES = ["factory", "factory_fn", "factory_class", "factory_method", "factory_partial", "factory_callable"]


# the code that raises lives in a small generated file of its own: the report highlights the whole source file of the
# raising frame, which would cost ~10 ms per run for a file of this size
RAISER_SRC = '''from clikit.api.exceptions import CliKitException


class GenLibraryError(CliKitException):
    pass


class WithCodeError(Exception):
    code = 77


def _with_code(value):
    class WithCodeError(Exception):  # same name: what carries a code differs in the code only
        code = value

    return WithCodeError


def _code_method(self):
    return 3


CODES = {"CodeMethod": _with_code(_code_method), "CodeNone": _with_code(None), "CodeString": _with_code("E1234"),
         "CodeFloat": _with_code(2.5), "CodeBig": _with_code(70000)}


class StrFailsError(Exception):
    def __str__(self):
        raise RuntimeError("__str__ fails")


_ns = {}
exec("def boom(msg):\\n    raise ValueError(msg)\\n", _ns)
_tf = {}
exec(compile("def boom(msg):\\n    raise ValueError(msg)\\n", "</error>", "exec"), _tf)

# code compiled under the name of an existing file that is no Python (a template) / no text at all
import os as _os

_here = _os.path.dirname(_os.path.abspath(__file__))
_tmpl = _os.path.join(_here, "page.tmpl")
with open(_tmpl, "w") as _f:
    _f.write("<html>\\n  \\"unterminated \'\'\' quote\\n((( {%% block %%}\\nif x:\\n        y\\n    z\\n" + "row\\n" * 40)
_blob = _os.path.join(_here, "blob.bin")
with open(_blob, "wb") as _f:
    _f.write(bytes(range(256)) * 8)
_np, _ub = {}, {}
exec(compile("\\n\\ndef boom(msg):\\n    raise ValueError(msg)\\n", _tmpl, "exec"), _np)
exec(compile("\\n\\ndef boom(msg):\\n    raise ValueError(msg)\\n", _blob, "exec"), _ub)

from crashtest.contracts.base_solution import BaseSolution
from crashtest.contracts.provides_solution import ProvidesSolution


class SolutionError(Exception, ProvidesSolution):
    """an exception that brings its own solution (crashtest): the report of run() renders it"""

    shape = "plain"

    @property
    def solution(self):
        if self.shape == "nodesc":
            return BaseSolution("Do this")          # description: BaseSolution's default None
        if self.shape == "notitle":
            return BaseSolution(None, "Something can be done.")
        sol = BaseSolution("Check the configuration.", "The value is not accepted.\\nSee the manual")
        sol.documentation_links.append("https://example.invalid/doc")
        return sol


def _context_chain(n):
    """n exceptions, each raised (so each has a traceback) while none is being handled, linked through __context__ by
    assignment - built in a loop, no recursion"""
    head = None
    for k in range(n):
        try:
            raise ValueError("link %d" % k)
        except ValueError as e:
            e.__context__ = head
            head = e
    return head


def raise_kind(kind, msg):
    if kind == "KeyboardInterrupt":
        raise KeyboardInterrupt()
    if kind in ("Library", "LibraryTagged", "LibraryBackslash", "LibraryCloseOpen"):
        raise GenLibraryError(msg)
    if kind == "WithCode":
        raise WithCodeError(msg)
    if kind in CODES:
        raise CODES[kind](msg)
    if kind == "StrFails":
        raise StrFailsError("unprintable")
    if kind == "Chained":
        try:
            raise ValueError("the <b>cause</b>")
        except ValueError as cause:
            raise RuntimeError(msg) from cause
    if kind == "NoSource":
        _ns["boom"](msg)
    if kind == "TagFile":
        _tf["boom"](msg)
    if kind == "NotPython":
        _np["boom"](msg)
    if kind == "Undecodable":
        _ub["boom"](msg)
    if kind in ("SolPlain", "SolNoDesc", "SolNoTitle"):
        err = SolutionError(msg)
        err.shape = {"SolPlain": "plain", "SolNoDesc": "nodesc", "SolNoTitle": "notitle"}[kind]
        raise err
    if kind in ("TypeError", "TypeErrorOnce"):
        raise TypeError(msg)
    if kind == "LongContext":  # a retry loop: every failure raised while the one before is on record
        err = RuntimeError(msg)
        err.__context__ = _context_chain(1500)
        raise err
    if kind == "CircularContext":  # two errors naming each other as context (legal; the interpreter's printer copes)
        a, b = _context_chain(1), _context_chain(1)
        a.__context__, b.__context__ = b, a
        b.__cause__ = a
        err = RuntimeError(msg)
        err.__context__ = a
        raise err
    raise RuntimeError(msg)
'''
_RAISER = {}


def raise_kind(kind, msg):
    """raises the exception the kind stands for"""
    if "f" not in _RAISER:
        d = os.path.join(T.WORK, "c04_%d" % os.getpid())
        os.makedirs(d, exist_ok=True)
        path = os.path.join(d, "raiser.py")
        with open(path, "w") as f:
            f.write(RAISER_SRC)
        ns = {"__name__": "c04_raiser", "__file__": path}
        exec(compile(RAISER_SRC, path, "exec"), ns)
        _RAISER["f"] = ns["raise_kind"]
        _RAISER["dir"] = d
    _RAISER["f"](kind, msg)


def cleanup():
    import shutil

    if "dir" in _RAISER:
        shutil.rmtree(_RAISER["dir"], ignore_errors=True)
        _RAISER.clear()


def message_of(kind, override):
    """the text str() gives for the exception of this kind; None when it has none that could be shown"""
    if kind in ("KeyboardInterrupt", "StrFails"):
        return None
    if override is not None and kind in FREE_MESSAGE:
        return override
    return FIXED_MESSAGES[kind]


class Recorder(object):
    """handler of every command: records the invocation, then does what the environment says"""

    def __init__(self, slot):
        self.slot = slot  # what to do is looked up when the handler runs: one handler object can serve several runs

    calls = property(lambda self: self.slot["calls"])
    outcome = property(lambda self: self.slot["env"]["outcome"])
    msg = property(lambda self: self.slot["msgs"].get("handler"))
    scope = property(lambda self: self.slot["env"].get("scope", "top"))


    def handle(self, args, io, command):
        opts = args.options()
        self.calls.append({
            "cmd": command.full_name,
            "args": [[k, str(v)] for k, v in sorted(args.arguments().items())],
            "opts": [[k, str(opts[k])] for k in ("flag", "num") if k in opts],
        })
        if self.scope == "top":
            return self._finish()
        scope = {"indent": io.indent, "increment": io.increment_indent, "output": io.output.indent}[self.scope](2)
        with scope:
            return self._finish()
        return None  # only reached when the scope swallowed what _finish() raised

    def _finish(self):
        if self.outcome["t"] == "raise":
            if self.outcome["k"] == "TypeErrorOnce":  # fails the first time it is invoked in a run, succeeds if asked again
                if len(self.calls) > 1:
                    return None
                raise TypeError(self.msg)
            raise_kind(self.outcome["k"], self.msg)
        return value_of(self.outcome["v"])


def _give(handler):
    return handler


class _Maker(object):
    """a handler factory that is neither a function nor a class: its bound method make, or the object itself (__call__)"""

    def __init__(self, handler):
        self._h = handler

    def make(self):
        return self._h

    def __call__(self):
        return self._h


class _Named(object):
    """stands for the command in a callback (CallbackHandler does not pass it on)"""

    def __init__(self, full_name):
        self.full_name = full_name


class MethodOnly(object):
    """the route "another handler_method": an object that has no handle() at all"""

    def __init__(self, recorder):
        self._r = recorder

    def execute(self, args, io, command):
        return self._r.handle(args, io, command)


def build_app(slot, formatter=None, session=False):
    """slot = {"env", "msgs", "calls"}: the application is configured from slot["env"] (kind, catching, handler route);
    handler and listeners look their behaviour up in the slot when they run.  session: the application is going to serve
    several runs with different environments - every listener position is registered and the I/O factory reads the slot"""
    from clikit import ConsoleApplication
    from clikit.api.args.format import Argument, Option
    from clikit.api.config import ApplicationConfig as Base
    from clikit.api.event import PRE_HANDLE, PRE_RESOLVE
    from clikit.api.io import IO, Input, Output
    from clikit.api.io import flags as F
    from clikit.config import DefaultApplicationConfig
    from clikit.formatter import PlainFormatter
    from clikit.resolver import DefaultResolver

    env = slot["env"]
    if env["app"] == "plain":
        class Cfg(Base):
            @property
            def default_command_resolver(self):
                return DefaultResolver()

        cfg = Cfg()

        def factory(app, args, input_stream, output_stream, error_stream):
            if slot["env"].get("io") == "fail":
                raise_kind("Foreign", slot["msgs"].get("io"))  # the I/O factory itself fails
            if formatter is not None:
                fmt = formatter  # a shared one: see run_trace
            elif slot["env"].get("fmt") == "ansi":
                from clikit.formatter import AnsiFormatter

                fmt = AnsiFormatter()  # on a stream that takes no ANSI codes: the same plain text, through the other formatter
            else:
                fmt = PlainFormatter()
            io = IO(Input(input_stream), Output(output_stream, fmt), Output(error_stream, fmt))
            verb = {0: None, 1: F.VERBOSE, 2: F.VERY_VERBOSE, 3: F.DEBUG}[slot["env"]["verb"]]
            if verb is not None:
                io.set_verbosity(verb)
            return io

        cfg.set_io_factory(factory)
    else:
        cfg = DefaultApplicationConfig("app", "1.0")
    cfg.set_catch_exceptions(env["catch"])
    cfg.set_terminate_after_run(bool(env.get("exit")))
    handler = Recorder(slot)
    route = env.get("hroute", "object")

    def attach(c, full_name=None):
        if route.startswith("callback"):
            # clikit.handler.callback_handler.CallbackHandler around a plain function of 2 / 3 (third one optional) / any number
            # of parameters; the command is not handed to a callback, its name is bound here
            from clikit.handler.callback_handler import CallbackHandler

            stub = _Named(full_name)
            if route == "callback2":
                def cb(args, io):
                    return handler.handle(args, io, stub)
            elif route == "callback3":
                def cb(args, io, command=None):
                    return handler.handle(args, io, stub)
            else:
                def cb(*rest):
                    return handler.handle(rest[0], rest[1], stub)
            c.set_handler(CallbackHandler(cb))
        elif route == "factory":
            c.set_handler(lambda: handler)
        elif route == "factory_fn":
            def make_handler():
                return handler

            c.set_handler(make_handler)
        elif route == "factory_class":
            class HandlerClass(object):  # the class itself is the factory: clikit instantiates it
                def handle(self, args, io, command):
                    return handler.handle(args, io, command)

            c.set_handler(HandlerClass)
        elif route == "factory_method":
            c.set_handler(_Maker(handler).make)  # a bound method
        elif route == "factory_partial":
            import functools

            c.set_handler(functools.partial(_give, handler))
        elif route == "factory_callable":
            c.set_handler(_Maker(handler))  # an object with __call__ (and no handle of its own)
        elif route == "method":
            c.set_handler(MethodOnly(handler))
            c.set_handler_method("execute")
        else:
            c.set_handler(handler)

    with cfg.command("alpha") as c:
        c.add_argument("a", Argument.REQUIRED)
        c.add_option("flag", None, Option.NO_VALUE)
        attach(c, "alpha")
    with cfg.command("beta") as c:
        c.add_option("num", None, Option.REQUIRED_VALUE)
        attach(c, "beta")
        with c.sub_command("gamma") as sub:
            sub.add_argument("c", Argument.REQUIRED)
            attach(sub, "beta gamma")
    if env["app"] == "plain":
        with cfg.command("delta") as c:  # what an empty command line runs
            c.default()
            attach(c, "delta")
    if session or env["pre"] != "none":
        def pre(event, name, dispatcher):
            if slot["env"]["pre"] == "raise":
                raise_kind("Foreign", slot["msgs"].get("pre"))

        cfg.add_event_listener(PRE_RESOLVE, pre, 10)
    def make_listener(k):
        def listener(event, name, dispatcher, _k=k):
            lss = slot["env"]["listeners"]
            if _k >= len(lss):
                return
            ls = lss[_k]
            if ls["b"] == "raise":
                raise_kind(ls["k"], slot["msgs"].get("l%d" % (_k + 1)))
            if ls["b"] == "handle":
                event.handled(True)
                event.set_status_code(value_of(ls["v"]))
            if ls["b"] == "noise":  # a listener that uses the I/O itself: leaves a tag open, raises the verbosity
                event.io.write_line("<b>listener %d" % _k)
                event.io.set_verbosity(F.VERY_VERBOSE)

        return listener

    if session:
        # positions 1 and 3 now; position 2 is registered AFTER the first run, at the priority position 1 already uses
        # (same priority: registration order decides, so it still runs second)
        cfg.add_event_listener(PRE_HANDLE, make_listener(0), -1)
        cfg.add_event_listener(PRE_HANDLE, make_listener(2), -3)
        slot["register_late"] = lambda: cfg.add_event_listener(PRE_HANDLE, make_listener(1), -1)
    else:
        for k in range(len(env["listeners"])):
            cfg.add_event_listener(PRE_HANDLE, make_listener(k), -1 - k)  # in the order of the environment, after the built-in ones
    return ConsoleApplication(cfg)


def case_messages(env, override=None):
    """source -> message text of the exception that source raises (None: it has none to show)"""
    override = override or {}
    msgs = {}
    if env.get("io") == "fail":
        msgs["io"] = message_of("Foreign", override.get("io"))
    if env["pre"] == "raise":
        msgs["pre"] = message_of("Foreign", override.get("pre"))
    for k, ls in enumerate(env["listeners"]):
        if ls["b"] == "raise":
            msgs["l%d" % (k + 1)] = message_of(ls["k"], override.get("l%d" % (k + 1)))
    if env["outcome"]["t"] == "raise":
        msgs["handler"] = message_of(env["outcome"]["k"], override.get("handler"))
    return msgs


def _build_captured(slot, formatter, session):
    """build_app with sys.stdout / sys.stderr replaced while the application is constructed: the preliminary console I/O
    it creates for itself (used for reports before the run's own I/O exists) then writes into slot["console"]"""
    import contextlib
    import io as _io

    console = slot["console"] = (_io.StringIO(), _io.StringIO())
    with contextlib.redirect_stdout(console[0]), contextlib.redirect_stderr(console[1]):
        return build_app(slot, formatter, session)


def run_trace(case):
    """-> the trace of the case: one run; or - case["then"] = a second case - two runs one after the other whose I/Os share
    one formatter object (only the plain application's I/O factory can do that); or - case["session"] = more cases - several
    runs served by ONE application object"""
    if case.get("session"):
        slot = {}
        app = [None]
        return [run_case(c, slot=slot, app=app) for c in [case] + case["session"]]
    if not case.get("then"):
        return [run_case(case)]
    from clikit.formatter import PlainFormatter

    shared = PlainFormatter()
    return [run_case(case, shared), run_case(case["then"], shared)]


def run_case(case, formatter=None, slot=None, app=None):
    """case = {"env": ..., "msgs": optional overrides} -> one event"""
    from clikit.args import StringArgs
    from clikit.io.input_stream import StringInputStream
    from clikit.io.output_stream import BufferedOutputStream

    env = case["env"]
    env.setdefault("scope", "top")
    env.setdefault("hroute", "object")
    env.setdefault("exit", False)
    env.setdefault("io", "ok")
    msgs = case_messages(env, case.get("msgs"))
    if slot is None:
        slot = {}
    slot.update(env=env, msgs=msgs, calls=[])
    calls = slot["calls"]
    out, err = BufferedOutputStream(), BufferedOutputStream()
    status, escaped = -1, ""
    try:
        if app is None:
            application = _build_captured(slot, formatter, False)
        else:
            if app[0] is None:
                app[0] = _build_captured(slot, formatter, True)
            elif "register_late" in slot:
                slot.pop("register_late")()  # a listener registered between two runs of the same application
            application = app[0]
    except (T.MachineryError, KeyboardInterrupt):
        raise
    except BaseException as e:  # noqa: a library that cannot even be configured is an observation, not a harness crash
        application, escaped = None, "build:" + type(e).__name__
    line = LINES[env["line"]]
    if env["app"] == "default" and env["verb"]:
        line += " -" + "v" * env["verb"]
    if application is not None:
        try:
            r = application.run(StringArgs(line), StringInputStream(""), out, err)
            if env["exit"]:
                escaped = "returned although terminate_after_run is set"
            elif isinstance(r, int) and not isinstance(r, bool) and -(2 ** 30) < r < 2 ** 30:
                status = r
            else:
                escaped = "returned:" + type(r).__name__
        except (T.MachineryError, GeneratorExit):
            raise
        except SystemExit as e:
            if env["exit"] and isinstance(e.code, int) and not isinstance(e.code, bool) and -(2 ** 30) < e.code < 2 ** 30:
                status = e.code  # terminate_after_run: the status arrives as sys.exit(status)
            else:
                escaped = "SystemExit"
        except BaseException as e:  # noqa: what escapes run() is the observation
            escaped = type(e).__name__
    shown = {}
    for src in ("io", "pre", "l1", "l2", "l3", "handler"):
        m = msgs.get(src)
        shown[src] = {"known": m is not None, "lines": [cells(x) for x in m.split("\n")] if m is not None else []}
    console = slot.get("console")
    text_out = out.fetch() + (console[0].getvalue() if console else "")
    text_err = err.fetch() + (console[1].getvalue() if console else "")
    if console:  # a session's application keeps its console: start the next run with empty buffers
        for c in console:
            c.seek(0)
            c.truncate()
    o = {"status": status, "escaped": escaped, "calls": list(calls), "chars": len(text_out) + len(text_err),
         "out": [cells(x) for x in text_out.split("\n")], "err": [cells(x) for x in text_err.split("\n")]}
    return {"op": "run", "env": env, "msgs": shown, "o": o}


def same(beh, ev):
    m, o = beh["obs"], ev["o"]
    printed = o["chars"] > 0
    calls = [{"cmd": c["cmd"], "args": [list(p) for p in c["args"]], "opts": [list(p) for p in c["opts"]]} for c in m["calls"]]
    return (o["status"] == m["status"] and o["escaped"] == m["escaped"] and o["calls"] == calls and printed == m["reported"])


def nontrivial(env):
    """something is raised, a listener interferes, or the result needs normalising"""
    return (env["outcome"]["t"] == "raise" or any(ls["b"] != "pass" for ls in env["listeners"]) or env["pre"] == "raise"
            or env["outcome"]["v"] not in ("None", "0", "1"))


def random_env(rng):
    app = rng.choice(["plain", "default"])
    line = rng.choice([k for k in LINES if not (k in ("nosuch", "empty") and app == "default")] + ["alpha_x", "beta_gamma_y_num"])
    kinds = ALL_KINDS
    listeners = []
    for _ in range(rng.choice([0, 0, 0, 1, 1, 2, 3])):
        x = rng.random()
        if x < 0.15:
            listeners.append({"b": "noise", "v": "", "k": ""})
        elif x < 0.5:
            listeners.append({"b": "pass", "v": "", "k": ""})
        elif x < 0.8:
            listeners.append({"b": "handle", "v": rng.choice(VALUE_NAMES), "k": ""})
        else:
            listeners.append({"b": "raise", "v": "", "k": rng.choice(kinds)})
    if rng.random() < 0.5:
        outcome = {"t": "ret", "v": rng.choice(VALUE_NAMES), "k": ""}
    else:
        outcome = {"t": "raise", "v": "", "k": rng.choice(kinds)}
    env = {"app": app, "catch": rng.random() < 0.85, "verb": rng.choice([0, 0, 1, 2, 3]), "line": line,
           "pre": rng.choice(["none", "none", "pass", "raise"]), "listeners": listeners, "outcome": outcome,
           "scope": rng.choice(SCOPES), "hroute": rng.choice(["object", "object", "method", "callback2", "callback3", "callbackv"] + FACTORIES),
           "fmt": rng.choice(["plain", "ansi"]),
           "exit": rng.random() < 0.15, "io": "fail" if app == "plain" and rng.random() < 0.06 else "ok"}
    msgs = {src: rng.choice(MESSAGES) for src in ("io", "pre", "l1", "l2", "l3", "handler") if rng.random() < 0.8}
    return {"env": env, "msgs": msgs}


LEAVES_OPEN = ["<b>bold", "an <info>open tag", "</info> x <error>", "<error>", "<fg=red>r"]
CLOSES_UNOPENED = ["bad </info> msg", "</info> x <error>", "a closing </b> tag", "</error>", "x</fg=blue>"]


def random_pair(rng):
    """two runs on I/Os sharing one formatter: the first report tends to leave a style tag open, the second one to close a
    tag that it did not open"""
    a, b = random_env(rng), random_env(rng)
    for c, pool in ((a, LEAVES_OPEN), (b, CLOSES_UNOPENED)):
        c["env"]["app"] = "plain"
        c["env"]["catch"] = True
        if c["env"]["line"] == "nosuch" and rng.random() < 0.5:
            c["env"]["line"] = "alpha_x"
        c["env"]["outcome"] = {"t": "raise", "v": "", "k": rng.choice(["Foreign", "Library", "Chained", "NoSource", "WithCode"])}
        if rng.random() < 0.8:
            c["msgs"]["handler"] = rng.choice(pool)
    if rng.random() < 0.5:  # the second message closes exactly the tag the first one leaves open
        tag = rng.choice(["info", "b", "error", "comment", "fg=red"])
        a["msgs"]["handler"], b["msgs"]["handler"] = "an <%s>open tag" % tag, "bad </%s> msg" % tag
        a["env"]["outcome"]["k"], b["env"]["outcome"]["k"] = "Foreign", rng.choice(["Library", "Foreign"])
    a["then"] = b
    return a


def random_session(rng):
    """3-4 runs served by one application object: same application kind / catching / handler route / exit setting, everything
    else drawn anew for every run - failing and succeeding runs in any order"""
    first = random_env(rng)
    first["env"]["catch"] = True
    first["env"]["listeners"] = first["env"]["listeners"][:1]  # the second listener position is registered after the first run
    rest = []
    for _ in range(rng.choice([2, 2, 3])):
        c = random_env(rng)
        for k in ("app", "catch", "hroute", "exit"):
            c["env"][k] = first["env"][k]
        if c["env"]["app"] != "plain":
            c["env"]["io"] = "ok"  # only the plain application's I/O factory is ours to break
        if c["env"]["line"] in ("nosuch", "empty") and c["env"]["app"] == "default":
            c["env"]["line"] = "alpha_x"
        if len(c["env"]["listeners"]) < 2 and rng.random() < 0.6:  # make the late listener matter: it handles or raises
            while len(c["env"]["listeners"]) < 2:
                c["env"]["listeners"].append({"b": "pass", "v": "", "k": ""})
            c["env"]["listeners"][1] = rng.choice([{"b": "handle", "v": "s3", "k": ""}, {"b": "raise", "v": "", "k": "Foreign"}])
        rest.append(c)
    first["session"] = rest
    return first


def run(ctx):
    try:
        _run(ctx)
    finally:
        cleanup()


def _run(ctx):
    quick = ctx.tier == "quick"
    ctx.rule = (
        "TLC runs the pipeline model (CreateIO, PreResolve, Resolve, PreHandle per listener, InvokeHandler, Normalise, Catch, "
        "Report, Return) for every environment of the product {plain, default application} x catching on/off x 4 verbosities x "
        "7 command lines (two commands, a sub-command, options, a missing argument, an unknown command) x pre-resolve listener "
        "{none, passes, raises} x up to 1/2 pre-handle listeners {pass, handle with 0 / '3' / 300, raise Foreign / tagged "
        "library error / KeyboardInterrupt} x {at the top of the handler, inside io.indent / io.increment_indent / io.output.indent scopes} x handler configured as object / factory (lambda, function, class, bound method, functools.partial, callable object) / other method name / CallbackHandler around a callback of 2, 3 or any number of parameters x terminate_after_run off / on (status via sys.exit) x 27 handler results (incl. Decimal, bytes, 2**70, objects with __int__ / __bool__) + 32 exception kinds (a TypeError of the handler's own body among them, also one that would succeed if the handler were invoked a second time) (incl. code named after a non-Python / binary file, exceptions bringing crashtest solutions without description / title, __context__ chains of 1500 links and circular ones) (6 of them carrying a `code` that is an int / a method / None / a string / a float / 70000), checking Contained, ZeroIff, Clamped, "
        "Reported, Interrupt, CallsOK on every final state and termination under fairness; three sub-products (all outcomes x "
        "verbosities; all listener pairs; all lines x pre-resolve) are emitted and replayed on real applications (status, "
        "escaping exception, handler invocations with command name / arguments / options, whether anything was printed); "
        "seeded random environments (up to 3 listeners, every value / kind anywhere, 33 adversarial messages; every fifth trace = "
        "two runs whose I/Os share one formatter, the first report leaving a style tag open, the second closing one it did not "
        "open; every fifth = a session of 3-4 runs served by ONE application object with different outcomes, lines, listeners) "
        "are recorded and "
        "decided by AppRunTrace (the printed text must show the message of the effective exception, style markup aside).  "
        "Non-trivial: something raises, a listener handles, or the result needs normalising"
    )
    ctx.assumptions += [
        "'every exception' = every Exception subclass; KeyboardInterrupt must give status 1, a report is not required (the "
        "repository's test expects none); SystemExit / GeneratorExit are process-control signals and outside the quantifier",
        "results that int() rejects ('abc', nan, inf, a list) count as failures of the handler: non-zero status and a report",
        "all pre-handle listeners run in priority order (none stops the propagation); the status of the last one that handled "
        "counts; one that raises ends the run like a raising handler",
        "status clauses are claimed for catching enabled (the statement's scope); the invocation clause always",
        "'printed report' = stdout or stderr non-empty and, where the exception has a printable message, consecutive lines show "
        "it (tag-shaped pieces and escape backslashes may be left out, indentation aside); an exception whose __str__ raises has "
        "no message: only a non-empty report is required",
        "arguments parsed for the command = args.arguments() and the command's own options (flag, num); global switches are C09",
        "quiet mode (which silences the report by design) is not part of the product",
    ]
    for cfg in (["MC_AppRun_product_quick.cfg"] if quick else ["MC_AppRun_product_thorough.cfg"]):
        r = ctx.model(SPEC, "MC_AppRun", cfg, name="whole product " + cfg, workers=8)
    ctx.exhaustive = True
    traces, cases = [], []
    seen = set()
    bad = 0
    for k, cfg in enumerate(["MC_AppRun_%s_%s.cfg" % (x, ctx.tier) for x in ("outcomes", "routes", "listeners", "lines")]):
        r = ctx.model(SPEC, "MC_AppRun", cfg, name="emitted sub-product " + cfg, workers=8, coverage=(k == 2))
        if k == 2:
            idle = [a for a in ACTIONS if r.coverage.get(a, (0, 0))[1] == 0]
            if idle:
                raise T.MachineryError("actions never taken in the model run: %s" % idle)
        for line in r.lines:
            beh = T.parse_emit(line)
            if beh is None:
                continue
            key = json.dumps(beh["env"], sort_keys=True)
            if key in seen:
                continue
            seen.add(key)
            case = {"env": beh["env"]}
            if len(seen) % 2:  # every second environment of the model: the plain application's I/O uses the other formatter
                case["env"] = dict(beh["env"], fmt="ansi")
            ev = run_case(case)
            ctx.count()
            if nontrivial(beh["env"]):
                ctx.nontriv(key)
            if not same(beh, ev):
                bad += 1
            # every replayed run is also decided by TLC: the report clause needs the printed text
            traces.append([ev])
            cases.append(case)
            if len(seen) == 700:
                ctx.sample({"tlc_environment": beh["env"], "observed": {k2: ev["o"][k2] for k2 in ("status", "escaped", "calls")}})
        r.lines = []
    if len(seen) < 1500:
        raise T.MachineryError("too few environments emitted (%d)" % len(seen))
    ctx.extra["tlc_environments_replayed"] = len(seen)
    ctx.extra["tlc_environments_not_reproduced"] = bad
    for t in range(800 if quick else 20000):
        case = random_pair(ctx.rng) if t % 5 == 0 else random_session(ctx.rng) if t % 5 == 1 else random_env(ctx.rng)
        traces.append(run_trace(case))
        cases.append(case)
        ctx.count()
        if nontrivial(case["env"]):
            ctx.nontriv(("r", t))
    ctx.sample({"random_case": cases[-1]})
    for pt, pc in zip(chunks(traces, 1500), chunks(cases, 1500)):
        ctx.validate(SPEC, "AppRunTrace", "AppRunTrace.cfg", pt, cases=pc, name="recorded runs", chunk=1500)


def replay(ctx, path):
    d = json.load(open(path))
    c = d["case"]
    ctx.count()
    ctx.nontriv(1)
    ctx.nontriv(2)
    ctx.sample(c)
    try:
        ctx.validate(SPEC, "AppRunTrace", "AppRunTrace.cfg", [run_trace(c)], cases=[c], name="replay")
    finally:
        cleanup()
