"""C04  ConsoleApplication.run / Command.handle.  Builds small applications (ApplicationConfig + DefaultResolver as in
tests/test_console_aplication.py, and DefaultApplicationConfig) with the commands alpha, beta and beta gamma, recording
handlers and pre-resolve / pre-handle listeners that behave as the environment record says; runs
ConsoleApplication.run(args, StringInputStream(''), BufferedOutputStream(), BufferedOutputStream()) and records the returned
status or escaping exception, the handler invocations and what was printed.  Environments come from TLC (MC_AppRun: whole
products) and from a seeded random generator; AppRunTrace decides.  No verdict logic here."""
import json
import os

from harness.engine import tlc as T
from harness.engine.core import chunks
from harness.props.c20 import MESSAGES, cells

SPEC = os.path.join(T.SPECS, "AppRun")
ACTIONS = ["CreateIO", "PreResolve", "Resolve", "PreHandle", "PreHandleEnd", "InvokeHandler", "Normalise", "Catch", "Report", "Return"]

LINES = {
    "alpha_x": "alpha x", "alpha_x_flag": "alpha x --flag", "beta": "beta", "beta_gamma_y": "beta gamma y",
    "beta_gamma_y_num": "beta gamma y --num 7", "alpha_missing": "alpha", "nosuch": "nosuch",
}
VALUES = {
    "None": None, "False": False, "0": 0, "0.0": 0.0, "empty_str": "", "empty_list": [], "True": True, "-5": -5, "1": 1, "255": 255,
    "300": 300, "s3": "3", "s0": "0", "0.5": 0.5, "abc": "abc", "nan": float("nan"), "inf": float("inf"), "list": [1],
}
FIXED_MESSAGES = {
    "Foreign": "foreign failure", "Library": "library failure", "WithCode": "failure with a code", "Chained": "the effect",
    "TagOpen": "an <info>open tag", "TagClose": "a closing </info> tag only", "TagUnbalanced": "<b>x</info>",
    "MultiLine": "line one\nline two\n  indented line three", "NonAscii": "h\u00e9llo \u4e2d\u6587", "Backslash": "C:\\dir\\",
    "NoSource": "raised by exec'd code", "LibraryTagged": "bad </info> msg", "LibraryBackslash": "C:\\dir\\",
    "TagCloseOpen": "</info> x <error>", "LibraryCloseOpen": "</info> x <error>",
    "CodeMethod": "code is a method", "CodeNone": "code is None", "CodeString": "code is a string", "CodeFloat": "code is a float",
    "CodeBig": "code is 70000", "TagFile": "raised by code whose file name is a closing tag",
}
FREE_MESSAGE = ("Foreign", "Library", "WithCode", "Chained", "NoSource", "CodeMethod", "CodeNone", "CodeString", "CodeFloat", "CodeBig")
ALL_KINDS = ["Foreign", "Library", "KeyboardInterrupt", "WithCode", "Chained", "TagOpen", "TagClose", "TagUnbalanced", "TagCloseOpen",
             "MultiLine", "NonAscii", "Backslash", "NoSource", "StrFails", "LibraryTagged", "LibraryBackslash", "LibraryCloseOpen",
             "CodeMethod", "CodeNone", "CodeString", "CodeFloat", "CodeBig", "TagFile"]
SCOPES = ["top", "indent", "increment", "output"]


# the code that raises lives in a small generated file of its own: the report highlights the whole source file of the
# raising frame, which would cost ~10 ms per run for a file of this size
RAISER_SRC = '''from clikit.api.exceptions import CliKitException


class GenLibraryError(CliKitException):
    pass


class WithCodeError(Exception):
    code = 77


def _with_code(value):
    class WithCodeError(Exception):  # same name: what carries a code differs in the code only
        code = value

    return WithCodeError


def _code_method(self):
    return 3


CODES = {"CodeMethod": _with_code(_code_method), "CodeNone": _with_code(None), "CodeString": _with_code("E1234"),
         "CodeFloat": _with_code(2.5), "CodeBig": _with_code(70000)}


class StrFailsError(Exception):
    def __str__(self):
        raise RuntimeError("__str__ fails")


_ns = {}
exec("def boom(msg):\\n    raise ValueError(msg)\\n", _ns)
_tf = {}
exec(compile("def boom(msg):\\n    raise ValueError(msg)\\n", "</error>", "exec"), _tf)


def raise_kind(kind, msg):
    if kind == "KeyboardInterrupt":
        raise KeyboardInterrupt()
    if kind in ("Library", "LibraryTagged", "LibraryBackslash", "LibraryCloseOpen"):
        raise GenLibraryError(msg)
    if kind == "WithCode":
        raise WithCodeError(msg)
    if kind in CODES:
        raise CODES[kind](msg)
    if kind == "StrFails":
        raise StrFailsError("unprintable")
    if kind == "Chained":
        try:
            raise ValueError("the <b>cause</b>")
        except ValueError as cause:
            raise RuntimeError(msg) from cause
    if kind == "NoSource":
        _ns["boom"](msg)
    if kind == "TagFile":
        _tf["boom"](msg)
    raise RuntimeError(msg)
'''
_RAISER = {}


def raise_kind(kind, msg):
    """raises the exception the kind stands for"""
    if "f" not in _RAISER:
        d = os.path.join(T.WORK, "c04_%d" % os.getpid())
        os.makedirs(d, exist_ok=True)
        path = os.path.join(d, "raiser.py")
        with open(path, "w") as f:
            f.write(RAISER_SRC)
        ns = {"__name__": "c04_raiser", "__file__": path}
        exec(compile(RAISER_SRC, path, "exec"), ns)
        _RAISER["f"] = ns["raise_kind"]
        _RAISER["dir"] = d
    _RAISER["f"](kind, msg)


def cleanup():
    import shutil

    if "dir" in _RAISER:
        shutil.rmtree(_RAISER["dir"], ignore_errors=True)
        _RAISER.clear()


def message_of(kind, override):
    """the text str() gives for the exception of this kind; None when it has none that could be shown"""
    if kind in ("KeyboardInterrupt", "StrFails"):
        return None
    if override is not None and kind in FREE_MESSAGE:
        return override
    return FIXED_MESSAGES[kind]


class Recorder(object):
    """handler of every command: records the invocation, then does what the environment says"""

    def __init__(self, calls, outcome, msg, scope="top"):
        self.calls, self.outcome, self.msg, self.scope = calls, outcome, msg, scope

    def handle(self, args, io, command):
        opts = args.options()
        self.calls.append({
            "cmd": command.full_name,
            "args": [[k, str(v)] for k, v in sorted(args.arguments().items())],
            "opts": [[k, str(opts[k])] for k in ("flag", "num") if k in opts],
        })
        if self.scope == "top":
            return self._finish()
        scope = {"indent": io.indent, "increment": io.increment_indent, "output": io.output.indent}[self.scope](2)
        with scope:
            return self._finish()
        return None  # only reached when the scope swallowed what _finish() raised

    def _finish(self):
        if self.outcome["t"] == "raise":
            raise_kind(self.outcome["k"], self.msg)
        return VALUES[self.outcome["v"]]


def build_app(env, msgs, calls, formatter=None):
    from clikit import ConsoleApplication
    from clikit.api.args.format import Argument, Option
    from clikit.api.config import ApplicationConfig as Base
    from clikit.api.event import PRE_HANDLE, PRE_RESOLVE
    from clikit.api.io import IO, Input, Output
    from clikit.api.io import flags as F
    from clikit.config import DefaultApplicationConfig
    from clikit.formatter import PlainFormatter
    from clikit.resolver import DefaultResolver

    if env["app"] == "plain":
        class Cfg(Base):
            @property
            def default_command_resolver(self):
                return DefaultResolver()

        cfg = Cfg()
        verb = {0: None, 1: F.VERBOSE, 2: F.VERY_VERBOSE, 3: F.DEBUG}[env["verb"]]

        def factory(app, args, input_stream, output_stream, error_stream):
            fmt = formatter if formatter is not None else PlainFormatter()  # a shared one: see run_trace
            io = IO(Input(input_stream), Output(output_stream, fmt), Output(error_stream, fmt))
            if verb is not None:
                io.set_verbosity(verb)
            return io

        cfg.set_io_factory(factory)
    else:
        cfg = DefaultApplicationConfig("app", "1.0")
    cfg.set_catch_exceptions(env["catch"])
    cfg.set_terminate_after_run(False)
    handler = Recorder(calls, env["outcome"], msgs.get("handler"), env.get("scope", "top"))
    with cfg.command("alpha") as c:
        c.add_argument("a", Argument.REQUIRED)
        c.add_option("flag", None, Option.NO_VALUE)
        c.set_handler(handler)
    with cfg.command("beta") as c:
        c.add_option("num", None, Option.REQUIRED_VALUE)
        c.set_handler(handler)
        with c.sub_command("gamma") as s:
            s.add_argument("c", Argument.REQUIRED)
            s.set_handler(handler)
    if env["pre"] != "none":
        def pre(event, name, dispatcher, _raise=env["pre"] == "raise"):
            if _raise:
                raise_kind("Foreign", msgs.get("pre"))

        cfg.add_event_listener(PRE_RESOLVE, pre, 10)
    for k, ls in enumerate(env["listeners"]):
        def listener(event, name, dispatcher, _ls=ls, _msg=msgs.get("l%d" % (k + 1))):
            if _ls["b"] == "raise":
                raise_kind(_ls["k"], _msg)
            if _ls["b"] == "handle":
                event.handled(True)
                event.set_status_code(VALUES[_ls["v"]])

        cfg.add_event_listener(PRE_HANDLE, listener, -1 - k)  # in the order of the environment, after the built-in ones
    return ConsoleApplication(cfg)


def case_messages(env, override=None):
    """source -> message text of the exception that source raises (None: it has none to show)"""
    override = override or {}
    msgs = {}
    if env["pre"] == "raise":
        msgs["pre"] = message_of("Foreign", override.get("pre"))
    for k, ls in enumerate(env["listeners"]):
        if ls["b"] == "raise":
            msgs["l%d" % (k + 1)] = message_of(ls["k"], override.get("l%d" % (k + 1)))
    if env["outcome"]["t"] == "raise":
        msgs["handler"] = message_of(env["outcome"]["k"], override.get("handler"))
    return msgs


def run_trace(case):
    """-> the trace of the case: one run, or - case["then"] = a second case - two runs one after the other whose I/Os share
    one formatter object (only the plain application's I/O factory can do that)"""
    if not case.get("then"):
        return [run_case(case)]
    from clikit.formatter import PlainFormatter

    shared = PlainFormatter()
    return [run_case(case, shared), run_case(case["then"], shared)]


def run_case(case, formatter=None):
    """case = {"env": ..., "msgs": optional overrides} -> one event"""
    from clikit.args import StringArgs
    from clikit.io.input_stream import StringInputStream
    from clikit.io.output_stream import BufferedOutputStream

    env = case["env"]
    env.setdefault("scope", "top")
    msgs = case_messages(env, case.get("msgs"))
    calls = []
    app = build_app(env, msgs, calls, formatter)
    line = LINES[env["line"]]
    if env["app"] == "default" and env["verb"]:
        line += " -" + "v" * env["verb"]
    out, err = BufferedOutputStream(), BufferedOutputStream()
    status, escaped = -1, ""
    try:
        r = app.run(StringArgs(line), StringInputStream(""), out, err)
        if isinstance(r, int) and not isinstance(r, bool) and -(2 ** 30) < r < 2 ** 30:
            status = r
        else:
            escaped = "returned:" + type(r).__name__
    except (T.MachineryError, SystemExit, GeneratorExit):
        raise
    except BaseException as e:  # noqa: what escapes run() is the observation
        escaped = type(e).__name__
    shown = {}
    for src in ("pre", "l1", "l2", "l3", "handler"):
        m = msgs.get(src)
        shown[src] = {"known": m is not None, "lines": [cells(x) for x in m.split("\n")] if m is not None else []}
    o = {"status": status, "escaped": escaped, "calls": calls, "chars": len(out.fetch()) + len(err.fetch()),
         "out": [cells(x) for x in out.fetch().split("\n")], "err": [cells(x) for x in err.fetch().split("\n")]}
    return {"op": "run", "env": env, "msgs": shown, "o": o}


def same(beh, ev):
    m, o = beh["obs"], ev["o"]
    printed = o["chars"] > 0
    calls = [{"cmd": c["cmd"], "args": [list(p) for p in c["args"]], "opts": [list(p) for p in c["opts"]]} for c in m["calls"]]
    return (o["status"] == m["status"] and o["escaped"] == m["escaped"] and o["calls"] == calls and printed == m["reported"])


def nontrivial(env):
    """something is raised, a listener interferes, or the result needs normalising"""
    return (env["outcome"]["t"] == "raise" or any(ls["b"] != "pass" for ls in env["listeners"]) or env["pre"] == "raise"
            or env["outcome"]["v"] not in ("None", "0", "1"))


def random_env(rng):
    app = rng.choice(["plain", "default"])
    line = rng.choice([k for k in LINES if not (k == "nosuch" and app == "default")] + ["alpha_x", "beta_gamma_y_num"])
    kinds = ALL_KINDS
    listeners = []
    for _ in range(rng.choice([0, 0, 0, 1, 1, 2, 3])):
        x = rng.random()
        if x < 0.5:
            listeners.append({"b": "pass", "v": "", "k": ""})
        elif x < 0.8:
            listeners.append({"b": "handle", "v": rng.choice(list(VALUES)), "k": ""})
        else:
            listeners.append({"b": "raise", "v": "", "k": rng.choice(kinds)})
    if rng.random() < 0.5:
        outcome = {"t": "ret", "v": rng.choice(list(VALUES)), "k": ""}
    else:
        outcome = {"t": "raise", "v": "", "k": rng.choice(kinds)}
    env = {"app": app, "catch": rng.random() < 0.85, "verb": rng.choice([0, 0, 1, 2, 3]), "line": line,
           "pre": rng.choice(["none", "none", "pass", "raise"]), "listeners": listeners, "outcome": outcome,
           "scope": rng.choice(SCOPES)}
    msgs = {src: rng.choice(MESSAGES) for src in ("pre", "l1", "l2", "l3", "handler") if rng.random() < 0.8}
    return {"env": env, "msgs": msgs}


LEAVES_OPEN = ["<b>bold", "an <info>open tag", "</info> x <error>", "<error>", "<fg=red>r"]
CLOSES_UNOPENED = ["bad </info> msg", "</info> x <error>", "a closing </b> tag", "</error>", "x</fg=blue>"]


def random_pair(rng):
    """two runs on I/Os sharing one formatter: the first report tends to leave a style tag open, the second one to close a
    tag that it did not open"""
    a, b = random_env(rng), random_env(rng)
    for c, pool in ((a, LEAVES_OPEN), (b, CLOSES_UNOPENED)):
        c["env"]["app"] = "plain"
        c["env"]["catch"] = True
        if c["env"]["line"] == "nosuch" and rng.random() < 0.5:
            c["env"]["line"] = "alpha_x"
        c["env"]["outcome"] = {"t": "raise", "v": "", "k": rng.choice(["Foreign", "Library", "Chained", "NoSource", "WithCode"])}
        if rng.random() < 0.8:
            c["msgs"]["handler"] = rng.choice(pool)
    if rng.random() < 0.5:  # the second message closes exactly the tag the first one leaves open
        tag = rng.choice(["info", "b", "error", "comment", "fg=red"])
        a["msgs"]["handler"], b["msgs"]["handler"] = "an <%s>open tag" % tag, "bad </%s> msg" % tag
        a["env"]["outcome"]["k"], b["env"]["outcome"]["k"] = "Foreign", rng.choice(["Library", "Foreign"])
    a["then"] = b
    return a


def run(ctx):
    try:
        _run(ctx)
    finally:
        cleanup()


def _run(ctx):
    quick = ctx.tier == "quick"
    ctx.rule = (
        "TLC runs the pipeline model (CreateIO, PreResolve, Resolve, PreHandle per listener, InvokeHandler, Normalise, Catch, "
        "Report, Return) for every environment of the product {plain, default application} x catching on/off x 4 verbosities x "
        "7 command lines (two commands, a sub-command, options, a missing argument, an unknown command) x pre-resolve listener "
        "{none, passes, raises} x up to 1/2 pre-handle listeners {pass, handle with 0 / '3' / 300, raise Foreign / tagged "
        "library error / KeyboardInterrupt} x {at the top of the handler, inside io.indent / io.increment_indent / io.output.indent scopes} x 18 handler results + 23 exception kinds (6 of them carrying a `code` that is an int / a method / None / a string / a float / 70000), checking Contained, ZeroIff, Clamped, "
        "Reported, Interrupt, CallsOK on every final state and termination under fairness; three sub-products (all outcomes x "
        "verbosities; all listener pairs; all lines x pre-resolve) are emitted and replayed on real applications (status, "
        "escaping exception, handler invocations with command name / arguments / options, whether anything was printed); "
        "seeded random environments (up to 3 listeners, every value / kind anywhere, 33 adversarial messages; every fifth trace = "
        "two runs whose I/Os share one formatter, the first report leaving a style tag open, the second closing one it did not "
        "open) are recorded and "
        "decided by AppRunTrace (the printed text must show the message of the effective exception, style markup aside).  "
        "Non-trivial: something raises, a listener handles, or the result needs normalising"
    )
    ctx.assumptions += [
        "'every exception' = every Exception subclass; KeyboardInterrupt must give status 1, a report is not required (the "
        "repository's test expects none); SystemExit / GeneratorExit are process-control signals and outside the quantifier",
        "results that int() rejects ('abc', nan, inf, a list) count as failures of the handler: non-zero status and a report",
        "all pre-handle listeners run in priority order (none stops the propagation); the status of the last one that handled "
        "counts; one that raises ends the run like a raising handler",
        "status clauses are claimed for catching enabled (the statement's scope); the invocation clause always",
        "'printed report' = stdout or stderr non-empty and, where the exception has a printable message, consecutive lines show "
        "it (tag-shaped pieces and escape backslashes may be left out, indentation aside); an exception whose __str__ raises has "
        "no message: only a non-empty report is required",
        "arguments parsed for the command = args.arguments() and the command's own options (flag, num); global switches are C09",
        "quiet mode (which silences the report by design) is not part of the product",
    ]
    for cfg in (["MC_AppRun_product_quick.cfg"] if quick else ["MC_AppRun_product_thorough.cfg"]):
        r = ctx.model(SPEC, "MC_AppRun", cfg, name="whole product " + cfg, workers=8)
    ctx.exhaustive = True
    traces, cases = [], []
    seen = set()
    bad = 0
    for k, cfg in enumerate(["MC_AppRun_%s_%s.cfg" % (x, ctx.tier) for x in ("outcomes", "listeners", "lines")]):
        r = ctx.model(SPEC, "MC_AppRun", cfg, name="emitted sub-product " + cfg, workers=8, coverage=(k == 1))
        if k == 1:
            idle = [a for a in ACTIONS if r.coverage.get(a, (0, 0))[1] == 0]
            if idle:
                raise T.MachineryError("actions never taken in the model run: %s" % idle)
        for line in r.lines:
            beh = T.parse_emit(line)
            if beh is None:
                continue
            key = json.dumps(beh["env"], sort_keys=True)
            if key in seen:
                continue
            seen.add(key)
            case = {"env": beh["env"]}
            ev = run_case(case)
            ctx.count()
            if nontrivial(beh["env"]):
                ctx.nontriv(key)
            if not same(beh, ev):
                bad += 1
            # every replayed run is also decided by TLC: the report clause needs the printed text
            traces.append([ev])
            cases.append(case)
            if len(seen) == 700:
                ctx.sample({"tlc_environment": beh["env"], "observed": {k2: ev["o"][k2] for k2 in ("status", "escaped", "calls")}})
        r.lines = []
    if len(seen) < 2000:
        raise T.MachineryError("too few environments emitted (%d)" % len(seen))
    ctx.extra["tlc_environments_replayed"] = len(seen)
    ctx.extra["tlc_environments_not_reproduced"] = bad
    for t in range(1000 if quick else 20000):
        case = random_env(ctx.rng) if t % 5 else random_pair(ctx.rng)
        traces.append(run_trace(case))
        cases.append(case)
        ctx.count()
        if nontrivial(case["env"]):
            ctx.nontriv(("r", t))
    ctx.sample({"random_case": cases[-1]})
    for pt, pc in zip(chunks(traces, 1500), chunks(cases, 1500)):
        ctx.validate(SPEC, "AppRunTrace", "AppRunTrace.cfg", pt, cases=pc, name="recorded runs", chunk=1500)


def replay(ctx, path):
    d = json.load(open(path))
    c = d["case"]
    ctx.count()
    ctx.nontriv(1)
    ctx.nontriv(2)
    ctx.sample(c)
    try:
        ctx.validate(SPEC, "AppRunTrace", "AppRunTrace.cfg", [run_trace(c)], cases=[c], name="replay")
    finally:
        cleanup()
