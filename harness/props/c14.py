"""C14  Table / CellWrapper / BorderUtil.  Drives the real Table.render; no verdict logic here: rendered text is
compared for equality with behaviours emitted by TLC, everything else is decided by TableLayoutTrace.

Characters are exchanged with the specification as numbers (see TableLayout.tla): 0 blank, 1 horizontal rule,
2 vertical rule, 3 corner/crossing, 4 '=', 9 anything else, c*100+s the s-th symbol (1..K) of cell number c."""
import json
import os
import re
import unicodedata
import zlib

from harness.engine import tlc as T
from harness.engine.core import chunks

SPEC = os.path.join(T.SPECS, "TableLayout")
K = 6
MAXCELLS = 42  # 6 x 6 + header


def _pool():
    out = []
    ranges = [(0x30, 0x3A), (0x41, 0x5B), (0x61, 0x7B), (0xC0, 0x180), (0x391, 0x3CA), (0x410, 0x450)]
    for a, b in ranges:
        for cp in range(a, b):
            ch = chr(cp)
            if ch == "b":  # the tag name used by the tagged variant
                continue
            if not ch.isalnum() or ch.isspace() or unicodedata.combining(ch) or len(ch.strip()) != 1:
                continue
            if unicodedata.east_asian_width(ch) in ("W", "F"):
                continue
            out.append(ch)
    return out


POOL = _pool()
assert len(POOL) >= K * MAXCELLS, len(POOL)
REV = {" ": 0, "\n": 0, "-": 1, "─": 1, "|": 2, "│": 2, "+": 3, "=": 4}
for _g in "┌┐└┘┼├┤┬┴":
    REV[_g] = 3
for _i, _ch in enumerate(POOL[: K * MAXCELLS]):
    REV[_ch] = (_i // K + 1) * 100 + _i % K + 1
_SGR = re.compile("\x1b\\[[0-9;]*m")


def to_text(codes):
    """codes of one cell -> the real string"""
    return "".join(" " if c == 0 else POOL[(c // 100 - 1) * K + c % 100 - 1] for c in codes)


def to_codes(s):
    return [REV.get(ch, 9) for ch in s]


def tag_first_word(s):
    m = re.match(r"(\s*)(\S+)(.*)$", s, re.S)
    if not m:
        return s
    return m.group(1) + "<b>" + m.group(2) + "</b>" + m.group(3)


def calls_of(case):
    """the set_column_alignment(col, a) calls of a case, in order (older replay files carry the effective alignments)"""
    if "calls" in case:
        return [list(c) for c in case["calls"]]
    return [[k, a] for k, a in enumerate(case.get("al", [])) if a != 0 or k % 2 == 0]


def make_style(name, calls):
    from clikit.ui.style import TableStyle

    st = getattr(TableStyle, name)()
    for col, a in calls:
        st.set_column_alignment(col, a)
    return st


LF = 5  # driver-side code of a line feed inside a cell; the specification sees it as a blank


def cell_text(codes):
    return "".join("\n" if c == LF else to_text([c]) for c in codes)


def blanks(codes):
    return [0 if c == LF else c for c in codes]


def caller_state(passed):
    """projection of the row / header objects the caller handed over"""
    return [[to_codes(c) for c in r] for r in passed]


def read_lines(io):
    raw = io.fetch_output()
    io.clear_output()
    lines = raw.split("\n")
    if lines and lines[-1] == "":
        lines.pop()
    return [to_codes(_SGR.sub("", ln)) for ln in lines]


def render_case(case):
    """builds the table described by case, renders it once, returns the event for TableLayoutTrace.
    Routes are varied by case["route"] (bits): rows as tuples, Table() with the default style, indentation by keyword,
    add_row one by one instead of add_rows"""
    from clikit.formatter import AnsiFormatter
    from clikit.io import BufferedIO
    from clikit.ui.components import Table
    from clikit.ui.rectangle import Rectangle

    n = case["n"]
    route = case.get("route", 0)
    tagged = set(case.get("tagged") or [])
    texts = []
    for r, row in enumerate(case["rows"]):
        trow = []
        for k, codes in enumerate(row):
            s = cell_text(codes)
            if r * n + k + 1 in tagged:
                s = tag_first_word(s)
            trow.append(s)
        texts.append(tuple(trow) if route & 1 else trow)
    obs = None
    table = None
    before = after = []
    try:  # every step is an observation: building the table as well
        io = BufferedIO(formatter=AnsiFormatter(forced=True) if case.get("ansi") else None)
        io.set_terminal_dimensions(Rectangle(case["T"], 50))
        calls = calls_of(case)
        table = Table() if (route & 2 and case["style"] == "ascii" and not calls) else Table(make_style(case["style"], calls))
        body = texts[1:] if case["hdr"] else texts
        if case["hdr"]:
            table.set_header_row(texts[0])
        if route & 4:
            for row in body:
                table.add_row(row)
        else:
            table.add_rows(body)
        before = table_state(table)
        cb = caller_state(texts)
        if route & 8:
            table.render(io, indentation=case["ind"])
        else:
            table.render(io, case["ind"])
        obs = {"kind": "ok", "cls": "", "lines": read_lines(io)}
    except Exception as e:  # noqa: every exception kind is an observation
        obs = {"kind": "exc", "cls": type(e).__name__, "lines": []}
        cb = caller_state(texts)
        if not before and table is not None:
            before = table_state(table)
    after = table_state(table) if table is not None else []
    return {
        "n": n,
        "hdr": bool(case["hdr"]),
        "rows": [[blanks(c) for c in row] for row in case["rows"]],
        "style": case["style"],
        "T": case["T"],
        "ind": case["ind"],
        "calls": calls_of(case),
        "tagged": sorted(tagged),
        "before": before,
        "after": after,
        "cb": cb,
        "ca": caller_state(texts),
        "obs": obs,
        "runA": bool(case.get("runA", False)),
        "op": "render",
        "fromObj": False,
        "row": [],
        "rws": [],
        "idx": 0,
        "a": 0,
    }


# ------------------------------------------------------------------------------------------- one Table object, many calls
def table_state(table):
    hdr = getattr(table, "_header_row", None) or []
    rows = ([list(hdr)] if hdr else []) + [list(r) for r in (getattr(table, "_rows", None) or [])]
    return [[to_codes(c) if isinstance(c, str) else [9] for c in r] for r in rows]


def run_object(case):
    """case: {"kind": "object", "style", "ind", "ansi", "ops": [{op,row,rws,idx,a,w}]}: performs the calls on ONE real
    Table (with ONE style object, ONE plain and ONE ANSI I/O re-used by all renders) and returns one event per call
    (the rows/header the table should have are the trace module's business).  Successive renders alternate between a
    narrow and a wide terminal, indentations and formatters (case["vary"]); rows are handed over as lists or tuples;
    optionally a second table shares the style object and is rendered before every render (case["decoy"])."""
    from clikit.formatter import AnsiFormatter
    from clikit.io import BufferedIO
    from clikit.ui.components import Table
    from clikit.ui.rectangle import Rectangle
    from clikit.ui.style import TableStyle

    vary = case.get("vary", 0)
    style = getattr(TableStyle, case["style"])()
    table = Table(style)
    ios = {}
    passed = []  # the caller's own row / header objects
    evs = []
    nrender = 0

    def mine(codes_row):
        row = [to_text(c) for c in codes_row]
        row = tuple(row) if (vary + len(passed)) % 3 == 0 else row
        passed.append(row)
        return row

    for op in case["ops"]:
        ev = {"n": 0, "hdr": False, "rows": [], "style": case["style"], "T": 0, "ind": case["ind"], "calls": [], "tagged": [],
              "runA": False, "op": op["op"], "fromObj": True, "row": op.get("row", []), "rws": op.get("rws", []),
              "idx": op.get("idx", 0), "a": op.get("a", 0)}
        ev["before"] = table_state(table)
        ev["cb"] = caller_state(passed)
        lines = []
        try:
            if op["op"] == "set_header":
                table.set_header_row(mine(op["row"]))
            elif op["op"] == "add_row":
                table.add_row(mine(op["row"]))
            elif op["op"] == "add_rows":
                table.add_rows([mine(r) for r in op["rws"]])
            elif op["op"] == "set_row":
                table.set_row(op["idx"], mine(op["row"]))
            elif op["op"] == "set_rows":
                table.set_rows([mine(r) for r in op["rws"]])
            elif op["op"] == "align":
                style.set_column_alignment(op["idx"], op["a"])
            else:
                n = table._nb_columns or 1
                k = nrender + vary
                nrender += 1
                alternate = case.get("alternate", True) or not op.get("w")
                wide = (k % 2 == 1) if alternate else op["w"] == "wide"
                ev["ind"] = [case["ind"], 0, 4][k % 3] if alternate else case["ind"]
                ansi = bool(case.get("ansi")) ^ (alternate and (k // 2) % 2 == 1)
                ev["T"] = 80 if wide else ev["ind"] + geometry(case["style"], n) + n + case.get("slack", 6)
                ev["runA"] = True
                if case.get("decoy") and table._rows:  # another, wider table built on the same style object
                    d = Table(style)
                    d.add_row(["x"] * (max(n, len(style.column_alignments)) + 1))
                    dio = BufferedIO()
                    dio.set_terminal_dimensions(Rectangle(120, 50))
                    d.render(dio)
                if ansi not in ios:
                    ios[ansi] = BufferedIO(formatter=AnsiFormatter(forced=True) if ansi else None)
                io = ios[ansi]
                io.set_terminal_dimensions(Rectangle(ev["T"], 50))
                io.clear_output()
                table.render(io, ev["ind"])
                lines = read_lines(io)
            ev["obs"] = {"kind": "ok", "cls": "", "lines": lines}
        except Exception as e:  # noqa: every exception kind is an observation
            ev["obs"] = {"kind": "exc", "cls": type(e).__name__, "lines": []}
        ev["after"] = table_state(table)
        ev["ca"] = caller_state(passed)
        evs.append(ev)
    return evs


def random_object_case(rng):
    n = rng.randint(1, 3)
    style = rng.choice(["ascii", "solid", "borderless", "compact"])
    items = []
    for it in range(6):  # palette of rows; a few of the wrong length, now and then an empty one
        m = n if rng.random() < 0.85 else rng.choice([x for x in (0, 1, 2, 3, 4) if x != n])
        items.append([random_cell(rng, it * 4 + k + 1, rng.choice(["short", "short", "medium", "word", "empty"])) for k in range(m)])
    ops = []
    for _ in range(rng.randint(3, 12)):
        r = rng.random()
        if r < 0.3:
            ops.append({"op": "render"})
        elif r < 0.45:
            ops.append({"op": "set_header", "row": rng.choice(items)})
        elif r < 0.65:
            ops.append({"op": "add_row", "row": rng.choice(items)})
        elif r < 0.72:
            ops.append({"op": "add_rows", "rws": [rng.choice(items) for _ in range(rng.randint(0, 3))]})
        elif r < 0.82:
            ops.append({"op": "set_row", "idx": rng.choice([0, 0, 1, 2, -1, 7]), "row": rng.choice(items)})
        elif r < 0.92:
            ops.append({"op": "align", "idx": rng.randrange(n), "a": rng.choice([0, 1, 2])})
        else:
            ops.append({"op": "set_rows", "rws": [rng.choice(items) for _ in range(rng.randint(0, 3))]})
    ops.append({"op": "render"})
    return {"kind": "object", "style": style, "ind": rng.choice([0, 0, 2, 5]), "ansi": rng.random() < 0.5, "slack": rng.randint(0, 12),
            "vary": rng.randrange(6), "decoy": rng.random() < 0.4, "ops": ops}


def case_of(rec, ansi=False, tagged=(), runA=True):
    return {"n": rec["n"], "hdr": rec["hdr"], "rows": rec["rows"], "style": rec["style"], "T": rec["T"], "ind": rec["ind"],
            "calls": rec["calls"], "ansi": ansi, "tagged": list(tagged), "runA": runA, "route": 0}


def geometry(style, n):
    """columns used by rules and padding (documented geometry of the predefined styles) - generation only"""
    if style in ("ascii", "solid"):
        return n + 1 + 2 * n
    return n - 1


# ------------------------------------------------------------------------------------------- random tables
def random_cell(rng, cell, profile):
    """codes of a random cell: words of cell's symbols separated by single (sometimes double) blanks"""
    if profile == "empty":
        return []
    if profile == "short":
        total = rng.randint(1, 12)
    elif profile == "medium":
        total = rng.randint(10, 80)
    elif profile == "long":
        total = rng.randint(100, 1500)
    else:  # "word": one long word
        total = rng.randint(8, 120)
    out = []
    pos = 0
    while len(out) < total:
        wl = total if profile == "word" else rng.choice([1, 2, 3, 4, 5, 6, 7, 9, 12, 20, 33])
        wl = max(1, min(wl, total - len(out)))
        if out:
            out.append(0)
            if rng.random() < 0.05:
                out.append(0)
        for _ in range(wl):
            out.append(cell * 100 + pos % K + 1)
            pos += 1
    return out[:1500]


def random_case(rng, big):
    n = rng.randint(1, 6)
    R = rng.randint(1, 6)
    hdr = rng.random() < 0.6
    style = rng.choice(["ascii", "solid", "borderless", "compact"])
    ind = rng.choice([0, 0, 1, 2, 4, 8, rng.randint(0, 8)])
    T_ = rng.choice([rng.randint(20, 200), rng.randint(20, 60), 80])
    if T_ - ind - geometry(style, n) < n and rng.random() < 0.9:
        T_ = ind + geometry(style, n) + n + rng.randint(0, 30)
    profiles = ["short"] * 6 + ["medium"] * 3 + ["empty", "word"] + (["long"] if big else [])
    colprof = [rng.choice(profiles) for _ in range(n)]
    rows = []
    for r in range(R + (1 if hdr else 0)):
        row = []
        for k in range(n):
            p = "short" if (hdr and r == 0 and rng.random() < 0.8) else (colprof[k] if rng.random() < 0.7 else rng.choice(profiles))
            row.append(random_cell(rng, r * n + k + 1, p))
        rows.append(row)
    # alignments are set through set_column_alignment in any order: ascending, descending, shuffled, a column twice
    calls = [[k, rng.choice([0, 1, 2])] for k in range(n) if rng.random() < 0.7]
    order = rng.random()
    if order < 0.3:
        calls.reverse()
    elif order < 0.6:
        rng.shuffle(calls)
    if calls and rng.random() < 0.3:
        calls.insert(rng.randrange(len(calls) + 1), [rng.randrange(n), rng.choice([0, 1, 2])])
    tagged = []
    dup = rng.random() < 0.3
    if dup:  # values repeated in other rows / columns (identical text, hence the same class of characters)
        for _ in range(rng.randint(1, 4)):
            r1, k1, r2, k2 = rng.randrange(len(rows)), rng.randrange(n), rng.randrange(len(rows)), rng.randrange(n)
            if any(rows[r1][k1]):
                rows[r2][k2] = list(rows[r1][k1])
    lf = False
    if rng.random() < 0.15:  # edge values: cells of blanks only, line feeds inside / at the end of a cell
        for _ in range(rng.randint(1, 3)):
            r1, k1 = rng.randrange(len(rows)), rng.randrange(n)
            kind = rng.random()
            if kind < 0.3:
                rows[r1][k1] = [0] * rng.randint(1, 4)
            elif rows[r1][k1]:
                lf = True
                rows[r1][k1] = [LF if (c == 0 and rng.random() < 0.5) else c for c in rows[r1][k1]] + ([LF] if kind > 0.8 else [])
    if rng.random() < 0.12:
        cand = [r * n + k + 1 for r in range(len(rows)) for k in range(n) if any(rows[r][k])]
        if cand:
            tagged = sorted(set(rng.choice(cand) for _ in range(rng.randint(1, 3))))
    total = sum(len(c) for row in rows for c in row)
    pre = T_ - ind - geometry(style, n) >= n
    return {"n": n, "hdr": hdr, "rows": rows, "style": style, "T": T_, "ind": ind, "calls": calls, "ansi": rng.random() < 0.5,
            "tagged": tagged, "runA": pre and not tagged and not lf and total <= 2500, "route": rng.randrange(16)}


def wrapped(ev):
    """more row lines than rows: some cell was wrapped (used for the non-trivial count only)"""
    body = [ln for ln in ev["obs"]["lines"] if any(c >= 100 or c == 2 for c in ln)]
    return len(body) > len(ev["before"]) > 0


FAMILIES = {
    "quick": [("fit", "MC_TableLayout_quick_fit.cfg"), ("draw", "MC_TableLayout_quick_draw.cfg"),
              ("dup", "MC_TableLayout_quick_dup.cfg"), ("align", "MC_TableLayout_quick_align.cfg")],
    "thorough": [("fit", "MC_TableLayout_thorough_fit.cfg"), ("draw", "MC_TableLayout_thorough_draw.cfg"),
                 ("three", "MC_TableLayout_thorough_three.cfg"), ("dup", "MC_TableLayout_thorough_dup.cfg"),
                 ("align", "MC_TableLayout_thorough_align.cfg")],
}


def run(ctx):
    quick = ctx.tier == "quick"
    ctx.rule = (
        "TLC renders every table of bounded families (1-3 columns, 1-2 rows, optional header, cells of 0-4 words, all "
        "four styles, alignments, every available width from one character per column upwards) with the A-layer of "
        "Table.render, checks the P-invariants on the drawn text and emits each behaviour; every behaviour is replayed "
        "on the real Table.render (plain and ANSI, ascii boxes also as solid) and the written text compared; seeded random "
        "tables up to 6x6 / 1500 characters per cell / widths 20-200 / indentation 0-8 / tagged words are validated by "
        "TableLayoutTrace; a family and 30% of the random tables repeat values across rows and columns (identical text); every "
        "sequence of 4 calls (add_row / set_row / set_rows / set_header_row / render, incl. rejected ones) on ONE Table object "
        "(TableObject model) and random sequences up to 13 calls are replayed on a real Table and every render is judged against "
        "the rows and header the model has at that moment.  Non-trivial: at least one cell had to be wrapped, or a history "
        "with two renders"
    )
    ctx.assumptions += [
        "precondition: terminal width - indentation - rules - padding >= number of columns (at least one character per column)",
        "cells are words of width-1 letters/digits separated by blanks: no hyphens, tabs or embedded newlines",
        "style tags: only <b>..</b> around the first word of a cell; a tagged cell that has to be wrapped is the known "
        "finding C14-tagged-cell-wrapped (tag-unaware textwrap)",
        "styles without right-hand rule (borderless, compact): lines may omit trailing blanks",
        "column alignments are set through TableStyle.set_column_alignment(col, a) in any order (ascending, descending, a column "
        "twice) with col < number of columns; an alignment for a column the table does not have is a caller error "
        "(get_column_alignments raises IndexError) and is not generated",
        "round() on an exact .5 may go either way in the code (float arithmetic); the A-layer allows both",
    ]
    mism, samples = [], []
    pending = {}  # input key -> [case, [alternatives]] for inputs with exact ties
    counts = {"replayed": 0, "emitted": 0}

    def compare(rec, case):
        ev = render_case(case)
        same = (ev["obs"]["kind"] == "exc") if rec["fail"] else (ev["obs"]["kind"] == "ok" and ev["obs"]["lines"] == rec["lines"])
        return ev, same and ev["after"] == ev["before"]

    def handle(rec, fam):
        counts["emitted"] += 1
        # variants are chosen by the content of the behaviour (TLC's workers print in no fixed order)
        h = zlib.crc32(json.dumps([rec["rows"], rec["style"], rec["T"], rec["ind"], rec["calls"]]).encode())
        case = case_of(rec, ansi=(h % 2 == 0))
        case["route"] = (h // 4096) % 16  # tuples / default style / add_row one by one / indentation by keyword
        if fam == "draw" and (h // 2) % (64 if quick else 256) == 0 and any(rec["rows"][0][0]):
            case["tagged"] = [1]
            case["runA"] = False
        if rec["style"] == "ascii" and (h // 128) % 3 == 0:
            case["style"] = "solid"
        nb = h // 1024
        if rec["ties"] > 0:
            key = json.dumps([rec["n"], rec["hdr"], rec["rows"], rec["style"], rec["T"], rec["ind"], rec["calls"]])
            pending.setdefault(key, [case, []])[1].append(rec)
            return
        ev, same = compare(rec, case)
        counts["replayed"] += 1
        ctx.count()
        if wrapped(ev):
            ctx.nontrivial_n += 1
        if not same:
            mism.append((ev, case))
        elif len(samples) < 300 and nb % 97 == 0:
            samples.append((ev, case))

    for fam, cfg in FAMILIES[ctx.tier]:
        def sink(line, _fam=fam):
            rec = T.parse_emit(line)
            if rec is None:
                return False
            handle(rec, _fam)
            return True

        before = counts["emitted"]
        ctx.model(SPEC, "MC_TableLayout", cfg, name="family-" + fam, workers=8, line_sink=sink)
        if counts["emitted"] - before < 500:
            raise T.MachineryError("family %s emitted only %d behaviours" % (fam, counts["emitted"] - before))
    for key, (case, alts) in pending.items():
        evs = [compare(r, case) for r in alts]
        counts["replayed"] += 1
        ctx.count()
        if not any(s for _e, s in evs):
            mism.append((evs[0][0], case))
    ctx.extra["tlc_behaviours_emitted"] = counts["emitted"]
    ctx.extra["tlc_behaviours_replayed"] = counts["replayed"]
    ctx.extra["inputs_with_round_ties"] = len(pending)
    ctx.extra["tlc_behaviours_not_reproduced"] = len(mism)
    ctx.exhaustive = True

    # ---- code -> spec: seeded random tables, larger than TLC enumerates
    traces, cases = [], []
    nrand = 250 if quick else 3000
    for j in range(nrand):
        case = random_case(ctx.rng, big=(j % (8 if quick else 4) == 0))
        ev = render_case(case)
        traces.append([ev])
        cases.append(case)
        ctx.count()
        if wrapped(ev):
            ctx.nontrivial_n += 1
    for ev, case in mism + samples:
        traces.append([ev])
        cases.append(case)
    # ---- histories on one Table object: every operation sequence of the TableObject model, then random ones
    r = ctx.model(SPEC, "MC_TableObject", "MC_TableObject_%s.cfg" % ctx.tier, name="object-all-sequences", workers=8)
    seqs = T.emitted(r)
    if len(seqs) < 1000:
        raise T.MachineryError("MC_TableObject emitted only %d sequences" % len(seqs))
    if not quick:
        r = ctx.model(SPEC, "MC_TableObject", "MC_TableObject_sim.cfg", name="object-simulate", simulate="num=60", depth=10,
                      workers=1, seed=ctx.seed % 100000)
        seqs += T.emitted(r)
    styles = ["ascii", "borderless", "solid", "compact"]
    nobj = 0
    for b in seqs:
        h = zlib.crc32(json.dumps(b).encode())
        if quick and (h // 7 + ctx.seed) % 2:  # the quick tier replays every second sequence (which half: by the seed)
            continue
        ocase = {"kind": "object", "style": styles[h % 4], "ind": [0, 3][(h // 4) % 2], "ansi": (h // 8) % 2 == 0, "slack": 6,
                 "vary": (h // 16) % 6, "decoy": (h // 128) % 3 == 0, "alternate": quick or (h // 512) % 2 == 0,
                 "ops": [{"op": o["op"], "row": o["row"], "rws": o["rws"], "idx": o["idx"], "a": 1, "w": o["w"]} for o in b]}
        traces.append(run_object(ocase))
        cases.append(ocase)
        nobj += 1
    for _ in range(150 if quick else 2000):
        ocase = random_object_case(ctx.rng)
        traces.append(run_object(ocase))
        cases.append(ocase)
        nobj += 1
    for tr in traces[-nobj:]:
        ctx.count()
        if sum(1 for e in tr if e["op"] == "render") >= 2 or any(wrapped(e) for e in tr):
            ctx.nontrivial_n += 1
    ctx.extra["object_histories_replayed"] = nobj
    ctx.sample({"object_history": [{"op": o["op"], "idx": o.get("idx", 0), "w": o.get("w", "")} for o in cases[-1]["ops"]]})
    ctx.sample({"random_table": {k: cases[0][k] for k in ("n", "hdr", "style", "T", "ind", "calls")},
                "lines": ["".join(" -|+=????#"[c] if c < 10 else "x" for c in ln) for ln in traces[0][0]["obs"]["lines"][:8]]})
    for part_t, part_c in zip(chunks(traces, 3000), chunks(cases, 3000)):
        ctx.validate(SPEC, "TableLayoutTrace", "TableLayoutTrace.cfg", part_t, cases=part_c, name="recorded-calls")


def replay(ctx, path):
    d = json.load(open(path))
    case = d.get("case") or {}
    if case.get("kind") == "object":
        ctx.count()
        ctx.nontriv("replay")
        ctx.nontriv("replay2")
        ctx.sample({"style": case["style"], "ops": [o["op"] for o in case["ops"]]})
        ctx.validate(SPEC, "TableLayoutTrace", "TableLayoutTrace.cfg", [run_object(case)], cases=[case], name="replay")
        return
    ev = render_case(case)
    ctx.count()
    ctx.nontriv("replay")
    ctx.nontriv("replay2")
    ctx.sample({k: case.get(k) for k in ("n", "hdr", "style", "T", "ind", "calls", "tagged", "ansi")})
    ctx.validate(SPEC, "TableLayoutTrace", "TableLayoutTrace.cfg", [[ev]], cases=[case], name="replay")
