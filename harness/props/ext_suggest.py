"""Extension (no listed property): the "Did you mean ...?" suggestions of the resolver's undefined-command error.

run_ext(ctx) replays every instance enumerated by TLC (specs/Suggest/MC_Suggest: name sets x typed words) on
clikit.utils.command.find_similar_command_names with a real CommandCollection (names given as command names or as aliases)
and has random instances - also through ConsoleApplication.run, read off the printed error - judged by SuggestTrace.
Every clause of that module is an A-clause (Note): a difference between model and code shows up as DRIFT."""
import os
import re

from harness.engine import tlc as T

SPEC = os.path.join(T.SPECS, "Suggest")
LETTERS = "abcdehlps-_019"


def collection(names, split):
    """a CommandCollection whose commands carry `names`: every split-th name is an alias of the command before it"""
    from clikit.api.command import Command, CommandCollection
    from clikit.api.config.command_config import CommandConfig

    cfgs = []
    for k, n in enumerate(names):
        if cfgs and split and k % split == split - 1:
            cfgs[-1].add_alias(n)
        else:
            cfgs.append(CommandConfig(n))
    return CommandCollection([Command(c) for c in cfgs])


def observe_function(names, word, split):
    from clikit.api.resolver.exceptions import CannotResolveCommandException
    from clikit.utils.command import find_similar_command_names

    try:
        coll = collection(names, split)
        sugg = find_similar_command_names(word, coll)
        msg = str(CannotResolveCommandException.name_not_found(word, coll))
        return {"sugg": [list(s) for s in sugg], "header": header_of(msg, word)[0]}
    except Exception as e:  # noqa
        return {"sugg": [["!"] + list(type(e).__name__)], "header": "exc"}


def header_of(msg, word):
    """(header kind, listed names) of an undefined-command message"""
    head = 'The command "%s" is not defined.' % word
    if not msg.startswith(head):
        return "other", []
    rest = msg[len(head):]
    if not rest.strip():
        return "none", []
    m = re.match(r"\s*Did you mean (this|one of these)\?\n((?:\s+\S+\n?)*)\s*$", rest)
    if not m:
        return "other", []
    return ("this" if m.group(1) == "this" else "these"), m.group(2).split()


def observe_run(names, word, split):
    """the same question asked through a run of a real application: the error report names the suggestions"""
    from clikit import ConsoleApplication
    from clikit.args import StringArgs
    from clikit.config import DefaultApplicationConfig
    from clikit.io.input_stream import StringInputStream
    from clikit.io.output_stream import BufferedOutputStream

    try:
        c = DefaultApplicationConfig("app", "1.0")
        c.set_catch_exceptions(True)
        c.set_terminate_after_run(False)
        last = None
        for k, n in enumerate(names):
            if last is not None and split and k % split == split - 1:
                last.add_alias(n)
            else:
                last = c.create_command(n)
                last.set_handler(lambda *a: 0)
        out, err = BufferedOutputStream(), BufferedOutputStream()
        status = ConsoleApplication(c).run(StringArgs(word), StringInputStream(""), out, err)
        text = (err.fetch() + out.fetch()).strip("\n")   # (the report is written to the standard output)
        kind, listed = header_of(text, word)
        if status == 0:
            kind = "ran"
        return {"sugg": [list(s) for s in listed], "header": kind}
    except Exception as e:  # noqa
        return {"sugg": [["!"] + list(type(e).__name__)], "header": "exc"}


def event(names, word, obs):
    return {"names": [list(n) for n in names], "word": list(word), "obs": obs}


def run_ext(ctx):
    quick = ctx.tier == "quick"
    mism, samples = [], []
    stats = {"n": 0}

    def sink(line):
        rec = T.parse_emit(line)
        if rec is None:
            return False
        stats["n"] += 1
        names = ["".join(n) for n in rec["names"]]
        word = "".join(rec["word"])
        split = (0, 2, 3)[stats["n"] % 3]
        obs = observe_function(names, word, split)
        ev = event(names, word, obs)
        if obs["sugg"] != rec["sugg"] or obs["header"] != rec["header"]:
            mism.append([ev])
        elif len(samples) < 60 and stats["n"] % 211 == 0:
            samples.append([ev])
        return True

    ctx.model(SPEC, "MC_Suggest", "MC_Suggest_%s.cfg" % ctx.tier, name="suggest-instances", line_sink=sink, workers=8)
    if stats["n"] < 10000:
        raise T.MachineryError("MC_Suggest emitted only %d instances" % stats["n"])
    ctx.count(stats["n"])
    ctx.extra["suggest_instances_replayed"] = stats["n"]
    ctx.extra["suggest_instances_not_reproduced"] = len(mism)

    rng = ctx.rng
    traces = list(mism) + samples
    for k in range(300 if quick else 6000):
        pool = set()
        base = "".join(rng.choice("abcdehlps") for _ in range(rng.randint(2, 7)))
        for _ in range(rng.randint(1, 6)):
            w = list(base) if rng.random() < 0.6 else [rng.choice("abcdehlps") for _ in range(rng.randint(1, 7))]
            for _ in range(rng.randint(0, 2)):   # a few slips away from the base word
                how, pos = rng.choice("ids"), rng.randrange(len(w) + 1)
                if how == "i":
                    w.insert(pos, rng.choice(LETTERS))
                elif how == "d" and len(w) > 1:
                    del w[min(pos, len(w) - 1)]
                elif w:
                    w[min(pos, len(w) - 1)] = rng.choice(LETTERS)
            while w and w[0] in "-_":
                w = w[1:]
            if w:
                pool.add("".join(w))
        names = sorted(pool)
        word = base if rng.random() < 0.5 else base[:rng.randint(0, len(base))] + rng.choice(["", "x", "a"])
        split = rng.choice((0, 2, 3))
        if k % 3 == 2 and word and word[0] not in "-_" and word not in names + ["help"] and re.match(r"^[a-z0-9][a-z0-9_-]*$", word) and \
                all(re.match(r"^[a-z0-9][a-z0-9-]*$", n) for n in names):
            traces.append([event(names + ["help"], word, observe_run(names, word, split))])
        else:
            traces.append([event(names, word, observe_function(names, word, split))])
        ctx.count()
    ctx.validate(SPEC, "SuggestTrace", "SuggestTrace.cfg", traces, name="suggest-observed", chunk=400)
