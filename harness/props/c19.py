"""C19  ProgressIndicator: the automatic mode under every interleaving, the manual mode under a virtual clock.

Automatic mode: the real ProgressIndicator.auto() runs on real threads under the baton scheduler
(harness/engine/baton.py: shims for `threading` and `time` substituted into clikit.ui.components.progress_indicator,
a stream whose writes are yield points).  A schedule - a sequence of thread ids and clock advances - is enforced step
by step; every step is recorded (thread, operation, what it wrote as terminal ops) and TLC decides (SpinnerTrace).
Schedules come from TLC (every interleaving of the Spinner model for small bodies, pre-emption-bounded and simulated
ones for larger bodies) and from a seeded random scheduler.  No wall-clock time is involved in any verdict.
Manual mode: call sequences with clock advances, as for C16 (SpinnerManual / SpinnerManualTrace).
No verdict logic here."""
import json
import os
import re

from harness.engine import termbytes
from harness.engine import tlc as T
from harness.engine.core import chunks

SPEC = os.path.join(T.SPECS, "Spinner")
SYM = {"\\": "%"}  # the backslash of the default indicator values travels as "%"
BUDGET = 300  # steps of the fair completion phase (a run of the largest body needs < 120)
M_ACTIONS = ["MLock", "MErase", "MFrame", "MThreadStart", "MWork", "MXLf", "MXSet", "MXJoin", "MFSet", "MFJoin", "MFLf"]
S_ACTIONS = ["SIsSet", "SLock", "SErase", "SFrame", "SWake"]


class BodyError(Exception):
    """what a raising with-body raises"""


# ------------------------------------------------------------------------------------------------ automatic mode
def _event(th, op, text="", dt=0):
    return {"th": th, "op": op, "ops": termbytes.ops(text, SYM) if text else [], "dt": dt}


def run_auto(case):
    """case = {"cfg": {w, interval, start, end, body: [{k, m}]}, "schedule": ["M", "S", ["T", 100], ...]}
    -> trace: [new-event, one event per step ..., end-event]"""
    import clikit.ui.components.progress_indicator as pim
    from clikit.api.io import Output
    from clikit.formatter import AnsiFormatter
    from harness.engine.baton import Baton, BatonStuck

    cfg = case["cfg"]
    cfg.setdefault("mode", "ansi")
    cfg.setdefault("next", [])
    cfg.setdefault("prev", [])
    cfg.setdefault("values", ["-", "%", "|", "/"])
    b = Baton()
    old = (pim.threading, pim.time)
    old_cols = os.environ.get("COLUMNS")
    os.environ["COLUMNS"] = str(cfg["w"])
    pim.threading, pim.time = b.threading, b.time
    trace = []
    try:
        if cfg["mode"] == "plain":  # a not decorated output
            from clikit.formatter import PlainFormatter

            out = Output(b.stream(ansi=False), PlainFormatter())
        else:
            out = Output(b.stream(ansi=True), AnsiFormatter(forced=True))
        if cfg["mode"] == "quiet":
            out.set_quiet(True)
        try:
            target = _via_io(out, cfg)
            if cfg["values"] == ["-", "%", "|", "/"]:
                ind = pim.ProgressIndicator(target, interval=cfg["interval"])  # ONE indicator object for every run of the case
            else:  # the constructor route for the indicator values
                ind = pim.ProgressIndicator(target, interval=cfg["interval"], values=[{"%": "\\"}.get(v, v) for v in cfg["values"]])
        except Exception as e:  # noqa: an indicator that cannot be built is an observation: the run did not leave normally
            return [dict(_event("", "new"), cfg=cfg),
                    dict(_event("", "end"), outcome="raised", exc=type(e).__name__, salive=False, sexc="", skipped=0)]
        sched = list(case["schedule"])
        runs = [cfg] + [dict(c, next=[]) for c in cfg["next"]]
        for k, c in enumerate(runs):
            trace.append(dict(_event("", "new"), cfg=c))
            try:
                sched, end_event = _one_run(b, ind, c, sched, trace)
            except BatonStuck as e:
                raise T.MachineryError("baton scheduler: %s" % e)
            trace.append(end_event)
            if end_event["outcome"] != "normal" or end_event["salive"]:
                break  # a second auto() follows a normal exit only (after a failure the indicator refuses to start again)
            b.retire()
    finally:
        b.shutdown()
        pim.threading, pim.time = old
        if old_cols is None:
            os.environ.pop("COLUMNS", None)
        else:
            os.environ["COLUMNS"] = old_cols
    for ev in trace:
        bad = termbytes.unknown(ev["ops"])
        if bad:
            raise T.MachineryError("the stream contains terminal codes the Terminal model does not know: %s" % bad[:5])
    return trace


def _one_run(b, ind, cfg, sched, trace):
    """one `with ind.auto(start, end): body` under the schedule; -> (what is left of the schedule, the end event)"""
    start, end = "".join(cfg["start"]), "".join(cfg["end"])
    left = {}

    def main():
        try:
            with ind.auto(start, end) as p:
                for it in cfg["body"]:
                    if it["k"] == "set":
                        p.set_message("".join(it["m"]))
                    elif it["k"] == "work":
                        b.work()
                    elif it["k"] == "interrupt":
                        raise KeyboardInterrupt()
                    else:
                        raise BodyError("the body fails")
        finally:
            left["alive"] = [n for n in b.alive() if n != "M"]

    b.spawn("M", main)
    skipped = 0
    pos = 0
    while pos < len(sched) and not b.done("M"):
        el = sched[pos]
        pos += 1
        if isinstance(el, list):
            b.tick(el[1])
            trace.append(_event("T", "tick", dt=el[1]))
        elif b.is_enabled(el):
            e = b.step(el)
            trace.append(_event(e["th"], e["op"], e["text"]))
        else:
            skipped += 1  # the code is not where the schedule's author expected it: go on with the rest
    # fair completion: round-robin over the enabled threads, the clock advances when nobody can move
    n = 0
    while not b.done("M") and n < BUDGET:
        moved = False
        for th in ("M", "S"):
            if not b.done("M") and b.is_enabled(th):
                e = b.step(th)
                trace.append(_event(e["th"], e["op"], e["text"]))
                moved = True
                n += 1
        if not moved:
            if not b.alive():
                break
            b.tick(100)
            trace.append(_event("T", "tick", dt=100))
            n += 1
    exc = b.exception("M")
    if not b.done("M"):
        outcome = "stuck"
    elif exc is None:
        outcome = "normal"
    else:
        outcome = "raised"
    sexc = b.exception("S") if "S" in b.threads else None
    return sched[pos:], dict(_event("", "end"), outcome=outcome, exc=type(exc).__name__ if exc is not None else "",
                             salive=bool(left.get("alive", [n for n in b.alive() if n != "M"])),
                             sexc=type(sexc).__name__ if sexc is not None else "", skipped=skipped)


def case_of_behaviour(beh):
    sched = [["T", s["dt"]] if s["th"] == "T" else s["th"] for s in beh["steps"] if s["th"]]
    return {"cfg": beh["cfg"], "schedule": sched}


def same_auto(beh, trace):
    steps = [e for e in trace if e["th"]]
    ends = [e for e in trace if e["op"] == "end"]
    want = [s for s in beh["steps"] if s["th"]]
    outcomes = [s["at"] for s in beh["steps"] if not s["th"]] + [beh["outcome"]]   # a restart step carries the outcome before it
    if len(steps) != len(want) or len(ends) != len(outcomes):
        return False
    if any(e["skipped"] or e["salive"] or e["sexc"] for e in ends) or [e["outcome"] for e in ends] != outcomes:
        return False
    for s, o in zip(want, steps):
        if s["th"] != o["th"] or s["op"] != o["op"] or s["dt"] != o["dt"]:
            return False
        if [dict(k=x["k"], n=x["n"], s=list(x["s"])) for x in s["ops"]] != o["ops"]:
            return False
    return True


def nontrivial_auto(trace):
    """both threads write while the other one is inside the with-block: at least one switch between M and S among
    the writing steps after the spinner's first frame; on a plain / quiet output (where the spinner never writes): the
    spinner takes at least one step between two steps of M"""
    if trace[0]["cfg"].get("mode", "ansi") != "ansi":
        th = [e["th"] for e in trace[1:-1] if e["th"] in ("M", "S")]
        return any(a == "M" and b == "S" for a, b in zip(th, th[1:])) and th.count("S") >= 2
    w = [e["th"] for e in trace if e["op"] == "write"]
    return "S" in w and any(a != b for a, b in zip(w, w[1:]))


MSGS = ["BB", "C", "DDDD", "xyz", "Installing", "Resolving"]
WIDTH_AUTO, WIDTH_MANUAL = 40, 60
# messages whose decorated frame (blank, value, blank, message) is one or two cells short of the row, and fills it exactly
FULL_ROW = ["L" * (WIDTH_AUTO - 3), "K" * (WIDTH_AUTO - 4)]
FULL_ROW_MANUAL = ["M" * (WIDTH_MANUAL - 3), "N" * (WIDTH_MANUAL - 4), "O" * (WIDTH_MANUAL - 5)]
BEYOND_ROW = ["P" * (WIDTH_MANUAL + 20), "Q" * 150]  # legal on a not decorated output, where nothing has to fit a row


def random_case(rng):
    body = []
    for _ in range(rng.choice([0, 1, 1, 2, 2, 3, 4, 6])):
        x = rng.random()
        if x < 0.6:
            body.append({"k": "set", "m": list(rng.choice(MSGS + [""] + FULL_ROW))})
        elif x < 0.9:
            body.append({"k": "work", "m": []})
        else:
            body.append({"k": rng.choice(["raise", "raise", "interrupt"]), "m": []})
            break
    cfg = {"mode": rng.choice(["ansi", "ansi", "ansi", "plain", "quiet"]),
           "values": rng.choice([["-", "%", "|", "/"]] * 3 + [["1", "2"], ["1", "2", "3"], ["-", "%", "|", "/", "+", "*", "~"]]), "w": 40, "interval": rng.choice([100, 100, 100, 50, 200, 0]),
           "start": list(rng.choice(["AAAA", "AAAA", "AAAA", ""])), "end": list(rng.choice(["END", "END", "END", "END", ""] + FULL_ROW)), "body": body, "next": [], "prev": [],
           "via": rng.choice(["output", "output", "io"]), "other": rng.choice(["plain", "ansi", "verbose", "quiet"])}
    sched = []
    # a random walk over thread ids and clock advances; elements that are not enabled when their turn comes are
    # skipped by run_auto, so any sequence is a schedule.  Bursts make long runs of one thread likely as well.
    for _ in range(rng.randint(5, 90)):
        x = rng.random()
        th = "M" if x < 0.4 else "S" if x < 0.8 else None
        if th is None:
            sched.append(["T", rng.choice([100, 100, 50, 30, 250])])
        else:
            sched += [th] * rng.choice([1, 1, 1, 2, 3, 5])
    if rng.random() < 0.3 and not any(it["k"] in ("raise", "interrupt") for it in body):  # the same object used for a second auto()
        second = dict(cfg, start=list(cfg["end"]) if rng.random() < 0.6 else list("AAAA"),
                      end=list(cfg["end"]) if rng.random() < 0.6 else list("FIN"),
                      body=[{"k": "set", "m": list(rng.choice(MSGS))}] if rng.random() < 0.3 else [],
                      prev=[list(x) for x in MSGS + FULL_ROW] + [list("AAAA"), list("END"), list("FIN"), []])
        cfg["next"] = [second]
    return {"cfg": cfg, "schedule": sched}


# ------------------------------------------------------------------------------------------------ manual mode
class Clock(object):
    """stands in for the `time` module inside clikit.ui.components.progress_indicator: integer milliseconds"""

    def __init__(self):
        self.ms = 0

    def time(self):
        return self.ms / 1000.0

    def sleep(self, s):
        self.ms += int(round(s * 1000))


_ERASE = "\r\x1b[2K"


def _via_io(err_out, cfg):
    """the route "an IO is handed to the indicator" (cfg["via"] == "io"): the indicator draws on the IO's error output -
    err_out - and must take format and decoration from THAT output; the standard output of the IO is configured differently
    (cfg["other"]: "plain" | "ansi" | "verbose" | "quiet"), as for `prog > file` on a terminal"""
    if cfg.get("via", "output") != "io":
        return err_out
    from clikit.api.io import IO, Input, Output
    from clikit.api.io import flags as F
    from clikit.formatter import AnsiFormatter, PlainFormatter
    from clikit.io.input_stream import StringInputStream
    from clikit.io.output_stream import BufferedOutputStream

    other = cfg.get("other", "plain")
    std = Output(BufferedOutputStream(), AnsiFormatter(forced=True) if other in ("ansi", "verbose") else PlainFormatter())
    if other == "verbose":
        std.set_verbosity(F.VERY_VERBOSE)
    if other == "quiet":
        std.set_quiet(True)
    return IO(Input(StringInputStream("")), std, err_out)


def run_manual(case):
    """case = {"cfg": {mode, fmt, interval, w}, "ops": [{op, dt, m}]} -> trace"""
    import clikit.ui.components.progress_indicator as pim
    from clikit.api.io import Output
    from clikit.api.io import flags as F
    from clikit.formatter import AnsiFormatter, PlainFormatter
    from harness.props.c16 import _recording_stream

    cfg = case["cfg"]
    old_time = pim.time
    old_cols = os.environ.get("COLUMNS")
    os.environ["COLUMNS"] = str(cfg["w"])
    clock = Clock()
    pim.time = clock
    try:
        stream = _recording_stream()
        out = Output(stream, PlainFormatter() if cfg["mode"] == "plain" else AnsiFormatter(forced=True))
        if cfg["fmt"] == "verbose":
            out.set_verbosity(F.VERBOSE)
        if cfg["mode"] == "quiet":
            out.set_quiet(True)
        target = _via_io(out, cfg)
        if cfg["interval"] == 100 and case.get("default_interval"):
            ind = pim.ProgressIndicator(target)
        else:
            ind = pim.ProgressIndicator(target, interval=cfg["interval"])
        trace = [{"op": "new", "dt": 0, "m": [], "reset": False, "frames": [], "ops": [], "exc": "", "cfg": cfg}]
        for op in case["ops"]:
            k, m = op["op"], "".join(op["m"])
            clock.ms += op["dt"]
            mark, nchunks = len(stream.fetch()), len(stream.chunks)
            ev = {"op": k, "dt": op["dt"], "m": list(op["m"]), "reset": bool(op.get("reset", False)), "frames": [], "ops": [], "exc": ""}
            try:
                if k == "start":
                    ind.start(m)
                elif k == "advance":
                    ind.advance()
                elif k == "set":
                    ind.set_message(m)
                elif k == "finish":
                    ind.finish(m, reset_indicator=ev["reset"])
                else:
                    raise T.MachineryError("unknown op %r" % (k,))
            except T.MachineryError:
                raise
            except Exception as e:  # noqa: every exception kind is an observation
                ev["exc"] = type(e).__name__
            ev["ops"] = termbytes.ops(stream.fetch()[mark:], SYM)
            for chunk in stream.chunks[nchunks:]:
                text = chunk.replace(_ERASE, "").rstrip("\n")
                if text:  # a write that carries characters is a frame
                    ev["frames"].append([SYM.get(c, c) for c in text])
            trace.append(ev)
        return trace
    finally:
        pim.time = old_time
        if old_cols is None:
            os.environ.pop("COLUMNS", None)
        else:
            os.environ["COLUMNS"] = old_cols


def manual_case_of_behaviour(b):
    return {"cfg": b["cfg"], "ops": [{"op": e["op"], "dt": e["dt"], "m": list(e["m"]), "reset": e["reset"]} for e in b["events"]]}


def same_manual(b, trace):
    if len(trace) != len(b["events"]) + 1:
        return False
    for e, o in zip(b["events"], trace[1:]):
        if e["exc"] != o["exc"] or [list(f) for f in e["frames"]] != o["frames"]:
            return False
        if [dict(k=x["k"], n=x["n"], s=list(x["s"])) for x in e["ops"]] != o["ops"]:
            return False
    return True


def nontrivial_manual(case):
    """at least two advance() calls after a start(), one of them too early and one late enough to redraw"""
    adv = [op["dt"] for op in case["ops"] if op["op"] == "advance"]
    return len(adv) >= 2 and any(op["op"] == "start" for op in case["ops"])


def random_manual_case(rng):
    mode = rng.choice(["ansi", "ansi", "ansi", "plain", "quiet"])
    cfg = {"mode": mode, "fmt": rng.choice(["normal", "normal", "verbose"]), "interval": rng.choice([100, 100, 100, 0, 30, 250, 1000]), "w": 60,
           "via": rng.choice(["output", "io"]), "other": rng.choice(["plain", "ansi", "verbose", "quiet"])}
    ops = []
    # (the verbose format appends the elapsed time: a message that fills the row would make the frame wrap)
    pool = MSGS + (FULL_ROW_MANUAL if cfg["fmt"] == "normal" else []) + (BEYOND_ROW if mode == "plain" else [])
    for _ in range(rng.randint(2, 50)):
        x = rng.random()
        dt = rng.choice([0, 0, 1, 10, 50, 99, 100, 101, 250, 1000, 61000])
        if x < 0.12:
            ops.append({"op": "start", "dt": dt, "m": list(rng.choice(pool))})
        elif x < 0.75:
            ops.append({"op": "advance", "dt": dt, "m": []})
        elif x < 0.9:
            ops.append({"op": "set", "dt": dt, "m": list(rng.choice(pool + [""]))})
        else:
            # often with the message of the last start(): the next start() of the same object then repeats a frame
            last = [o["m"] for o in ops if o["op"] == "start"]
            m = last[-1] if last and rng.random() < 0.5 else list(rng.choice(pool + [""]))
            ops.append({"op": "finish", "dt": dt, "m": list(m), "reset": rng.random() < 0.5})
            if rng.random() < 0.6:
                ops.append({"op": "start", "dt": rng.choice([0, 10, 100]), "m": list(m)})
    if rng.random() < 0.8:
        ops.insert(0, {"op": "start", "dt": 0, "m": list("AAAA")})
    return {"cfg": cfg, "ops": ops, "default_interval": rng.random() < 0.5}


# ------------------------------------------------------------------------------------------------ the check
M_LABELS = {"lock", "erase", "frame", "tstart", "work", "x_lf", "x_set", "x_setret", "x_join", "f_set", "f_setret", "f_join", "f_lf"}
S_LABELS = {"isset", "lock", "erase", "frame", "sleep"}


def _replay_auto(ctx, r, traces, cases, labels, state):
    """every behaviour TLC emitted in run r is enforced on the real code; those the code does not reproduce are
    queued for SpinnerTrace"""
    n = 0
    for line in r.lines:
        beh = T.parse_emit(line)
        if beh is None:
            continue
        key = hash(line)
        if key in state["seen"]:
            continue
        state["seen"].add(key)
        n += 1
        for s in beh["steps"]:
            labels.add((s["th"], s["at"]))
        case = case_of_behaviour(beh)
        tr = run_auto(case)
        ctx.count()
        if nontrivial_auto(tr):
            ctx.nontriv(key)
        if not same_auto(beh, tr):
            state["not_reproduced"] += 1
            traces.append(tr)
            cases.append(dict(case, kind="auto"))
        if n == 1000:
            state["sample"] = case
    r.lines = []
    return n


def run(ctx):
    quick = ctx.tier == "quick"
    ctx.rule = (
        "TLC explores every interleaving of the caller's thread, the spinner thread and the virtual clock in the Spinner "
        "model (A-layer of ProgressIndicator.auto()/_spin/_display with the display lock, on the cell-level Terminal "
        "model; steps = the yield points of the baton scheduler: every stream write, sleep, Thread.start/join, Event.set/"
        "is_set, Lock.acquire) for every with-body of the configured family, checking NoMix, Joined, EndFrame on every "
        "state and Terminates under weak fairness, on a decorated (ansi), a not decorated (plain) and a quiet output; it must find NoMix violated when the lock is taken out of the model. "
        "Every schedule of the small bodies with at most 4 pre-emptions (thorough: all their interleavings), pre-emption-bounded schedules of larger bodies "
        "and simulated long ones are enforced step by step on the real ProgressIndicator.auto() running on real threads "
        "under the baton scheduler and compared per step (thread, operation, bytes as terminal ops) and in the outcome; "
        "seeded random schedules (bodies up to 6 items, intervals 0..200 ms, clock steps 30..250 ms, all three kinds of output) are recorded and "
        "decided by SpinnerTrace (P-clauses on the observed writes).  Manual mode: every reachable state of the "
        "SpinnerManual model up to the depth bound with one call sequence each, replayed under a virtual clock; random "
        "call sequences (<= 50 calls) decided by SpinnerManualTrace.  Non-trivial (automatic): both threads write and "
        "their writes alternate at least once; (manual): >= 2 advance() calls after a start()"
    )
    ctx.assumptions += [
        "granularity of interleaving = the statement's: individual stream writes and sleeps, plus Thread.start/join, "
        "Event.set/is_set and Lock.acquire; what a thread does between two such points is atomic (no bytecode-level races)",
        "virtual clock in integer ms; reading the clock is not a scheduling point; sleep(s) returns once the clock has advanced by s",
        "messages contain no blanks and no indicator value; a decorated frame fits into the row (it may fill it exactly: messages up to "
        "width - 3 cells); on a not decorated output messages of any length (there nothing has to fit a row; the row-wise clauses then "
        "claim nothing, the frame text still must be the message); "
        "every character is one cell wide; terminal of unbounded height",
        "NoMix: every terminal row is blank or exactly one frame ' v m' (v an indicator value, m one of the messages of the "
        "run); a frame with a message that has meanwhile been replaced is not a mixture",
        "EndFrame: when the body does not raise, auto() returns normally and the last non-blank row shows a frame with the end "
        "message (any indicator value; ' m' on a not decorated output; an empty end message is an end message: ' v ') with nothing drawn behind it; on a quiet output nothing is "
        "shown and only the normal return is required.  Joined / Terminates are claimed on every kind of output",
        "Joined: at the moment the with-statement is left (normally or by the body's exception) no thread created by the "
        "indicator is alive; the completion phase of every schedule is fair (round-robin), so not leaving within the budget "
        "means the caller is blocked for ever",
        "the indicator is handed an Output, or an IO whose standard output differs from its error output in decoration / verbosity "
        "/ quietness: frames are judged on the error output, whose properties alone decide format and redrawing",
        "manual mode: throttle = distance between two redraws caused by advance(); plain output: frames are ' m' (the "
        "documented format without indicator) and advance() does not draw",
    ]
    # ---- the model
    r = ctx.model(SPEC, "MC_Spinner", "MC_Spinner_bfs_%s.cfg" % ctx.tier, name="all interleavings (safety + liveness)", workers=8)
    ctx.exhaustive = True
    r = ctx.model(SPEC, "MC_Spinner", "MC_Spinner_defect.cfg", name="lock removed from the model: NoMix must fail",
                  workers=8, expect_ok=False)
    if "NoMix" not in r.violated:
        raise T.MachineryError("TLC does not find the mixed frame in the model without the display lock: the NoMix invariant is vacuous")
    ctx.extra["model_without_lock"] = "NoMix violated after %d states (expected: this is the defect of the pinned code)" % r.distinct

    # ---- spec -> code: schedules
    traces, cases, labels = [], [], set()
    state = {"seen": set(), "not_reproduced": 0, "sample": None}
    n_all = 0
    # quick: every schedule of the small bodies with <= 4 pre-emptions; thorough: all their interleavings + larger bodies
    ctx.model(SPEC, "MC_Spinner", "MC_Spinner_bfs_twice.cfg", name="two runs on one indicator object (safety + liveness)", workers=8)
    for cfg in (["MC_Spinner_sched_quick.cfg", "MC_Spinner_sched_twice.cfg"] if quick
                else ["MC_Spinner_sched_all.cfg", "MC_Spinner_sched_twice.cfg", "MC_Spinner_sched_thorough.cfg"]):
        r = ctx.model(SPEC, "MC_Spinner", cfg, name="schedules " + cfg, workers=8)
        n_all += _replay_auto(ctx, r, traces, cases, labels, state)
    r = ctx.model(SPEC, "MC_Spinner", "MC_Spinner_sim.cfg", name="simulated schedules", simulate="num=%d" % (100 if quick else 8000),
                  depth=200, workers=1, seed=ctx.seed % 100000)
    n_sim = _replay_auto(ctx, r, traces, cases, labels, state)
    if n_all < 1000 or n_sim < 50:
        raise T.MachineryError("too few schedules emitted (%d enumerated, %d simulated)" % (n_all, n_sim))
    missing = ({("M", x) for x in M_LABELS} | {("S", x) for x in S_LABELS}) - labels
    if missing:
        raise T.MachineryError("model actions never taken in the emitted schedules: %s" % sorted(missing))
    ctx.extra["tlc_schedules_enforced"] = n_all + n_sim
    ctx.extra["tlc_schedules_not_reproduced"] = state["not_reproduced"]
    ctx.sample({"tlc_schedule": state["sample"]})

    # ---- code -> spec: random schedules
    for t in range(400 if quick else 15000):
        case = random_case(ctx.rng)
        tr = run_auto(case)
        traces.append(tr)
        cases.append(dict(case, kind="auto"))
        ctx.count()
        if nontrivial_auto(tr):
            ctx.nontriv(("r", t))
    ctx.sample({"random_schedule": cases[-1]})
    for pt, pc in zip(chunks(traces, 2500), chunks(cases, 2500)):
        ctx.validate(SPEC, "SpinnerTrace", "SpinnerTrace.cfg", pt, cases=pc, name="recorded schedules")

    # ---- manual mode
    traces, cases = [], []
    r = ctx.model(SPEC, "MC_SpinnerManual", "MC_SpinnerManual_%s.cfg" % ctx.tier, name="manual mode: state cover", workers=8)
    nman = 0
    seen = set()
    for line in r.lines:
        beh = T.parse_emit(line)
        if beh is None or hash(line) in seen:
            continue
        seen.add(hash(line))
        nman += 1
        case = manual_case_of_behaviour(beh)
        if nman % 2:  # every second model behaviour goes through an IO whose standard output is the opposite kind
            case["cfg"] = dict(case["cfg"], via="io", other="plain" if case["cfg"]["mode"] == "ansi" else "ansi")
        tr = run_manual(case)
        ctx.count()
        if nontrivial_manual(case):
            ctx.nontriv(("m", hash(line)))
        if not same_manual(beh, tr):
            traces.append(tr)
            cases.append(dict(case, kind="manual"))
    r.lines = []
    if nman < 500:
        raise T.MachineryError("too few manual-mode behaviours emitted (%d)" % nman)
    ctx.extra["tlc_manual_behaviours_replayed"] = nman
    ctx.extra["tlc_manual_behaviours_not_reproduced"] = len(traces)
    for t in range(400 if quick else 10000):
        case = random_manual_case(ctx.rng)
        traces.append(run_manual(case))
        cases.append(dict(case, kind="manual"))
        ctx.count()
        if nontrivial_manual(case):
            ctx.nontriv(("rm", t))
    ctx.sample({"random_manual": {k: (v[:8] if k == "ops" else v) for k, v in cases[-1].items()}})
    for pt, pc in zip(chunks(traces, 2500), chunks(cases, 2500)):
        ctx.validate(SPEC, "SpinnerManualTrace", "SpinnerManualTrace.cfg", pt, cases=pc, name="recorded manual sequences")


def replay(ctx, path):
    d = json.load(open(path))
    c = d["case"]
    ctx.count()
    ctx.nontriv(1)
    ctx.nontriv(2)
    ctx.sample(c)
    if c.get("kind") == "manual":
        ctx.validate(SPEC, "SpinnerManualTrace", "SpinnerManualTrace.cfg", [run_manual(c)], cases=[c], name="replay")
    else:
        ctx.validate(SPEC, "SpinnerTrace", "SpinnerTrace.cfg", [run_auto(c)], cases=[c], name="replay")
