"""C17  what is rendered does not depend on what was processed before.
Part (a) run histories on one ConsoleApplication (this file, specs/RunHistory);
part (b) style objects and repeated renders (c17_styles.py, specs/Styles)."""
import json
import os

from harness.engine import tlc as T
from harness.props import c17_styles

SPEC = os.path.join(T.SPECS, "RunHistory")


def build_app(explicit_parser=False):
    """explicit_parser: the configuration is given one DefaultArgsParser object (Config.set_args_parser), which then serves
    every command and every run of the application"""
    from clikit import ConsoleApplication
    from clikit.api.args.format import Argument, Option
    from clikit.config import DefaultApplicationConfig

    calls = []

    class Handler(object):
        def handle(self, args, io, command):
            calls.append([command.full_name, sorted(args.arguments().items()), sorted((k, str(v)) for k, v in args.options().items())])
            # a handler may customise the formatter of ITS run (the tag <hl> is unknown otherwise and printed as it stands)
            if command.name == "baz" and args.is_argument_set("y") and args.argument("y") == "w":
                from clikit.api.formatter import Style

                io.formatter.add_style(Style("hl").fg("red").bold())
                io.error_output.formatter.add_style(Style("hl").fg("red").bold())
            io.write_line("ran <info>%s</info> <hl>mark</hl>" % command.name)
            io.error_line("log %s" % command.name, 2)  # VERBOSE only
            return 0

    c = DefaultApplicationConfig("app", "1.0")
    c.set_catch_exceptions(True)
    c.set_terminate_after_run(False)
    shared = None
    if explicit_parser:
        from clikit.args import DefaultArgsParser

        shared = DefaultArgsParser()
        c.set_args_parser(shared)
    h = Handler()
    with c.command("foo") as foo:
        foo.set_description("the foo command")
        foo.set_handler(h)
        with foo.sub_command("bar") as bar:
            bar.default()
            bar.set_description("the bar sub-command")
            bar.add_argument("x", Argument.REQUIRED, "the x")
            bar.add_option("opt", "o", Option.REQUIRED_VALUE, "the opt")
            bar.set_handler(h)
            if shared is not None:  # (an explicitly set parser is not inherited from the application configuration)
                bar.set_args_parser(shared)
        if shared is not None:
            foo.set_args_parser(shared)
    with c.command("baz") as baz:
        baz.set_description("the baz command")
        baz.add_alias("bz")
        baz.add_argument("y", Argument.OPTIONAL, "the y")
        baz.set_handler(h)
        if shared is not None:
            baz.set_args_parser(shared)
    return ConsoleApplication(c), calls


_INTERN = {}


def intern(s):
    return _INTERN.setdefault(s, "t%d" % len(_INTERN))


def run_line(app, calls, line, argv=False, lists=None):
    from clikit.args import ArgvArgs, StringArgs
    from clikit.io.input_stream import StringInputStream
    from clikit.io.output_stream import BufferedOutputStream

    del calls[:]
    out, err = BufferedOutputStream(), BufferedOutputStream()
    try:
        # lists: the caller keeps one argv list per line and hands the same list object in whenever the line comes again
        lst = ["prog"] + line.split() if lists is None else lists.setdefault(line, ["prog"] + line.split())
        raw = ArgvArgs(lst) if argv else StringArgs(line)
        st = app.run(raw, StringInputStream(""), out, err)
    except BaseException as e:  # noqa
        st = "EXC:" + type(e).__name__
    return {"status": st if isinstance(st, int) else -1, "out": intern(out.fetch()), "err": intern(err.fetch() + ("" if isinstance(st, int) else st)),
            "calls": intern(json.dumps(calls, default=str))}


def pristine_run(line, argv, explicit_parser):
    """executed in a forked child of the reference server (harness/props/pristine.py): raw texts, interned by the caller"""
    app, calls = build_app(explicit_parser)
    _INTERN.clear()
    r = run_line(app, calls, line, argv=argv)
    back = {v: k for k, v in _INTERN.items()}
    return {"status": r["status"], "out": back[r["out"]], "err": back[r["err"]], "calls": back[r["calls"]]}


_PRISTINE = {}


def pristine(line, argv, explicit_parser):
    """the run of `line` on a fresh application in a process that never ran anything (memoised per line and form)"""
    from harness.props import argslib as L

    key = (line, argv, explicit_parser)
    if key not in _PRISTINE:
        r = L.pristine_call("harness.props.c17", "pristine_run", line, argv, explicit_parser)
        _PRISTINE[key] = r
    r = _PRISTINE[key]
    return {"status": r["status"], "out": intern(r["out"]), "err": intern(r["err"]), "calls": intern(r["calls"])}


def run_history(lines, kinds, explicit_parser=False, all_argv=False):
    app, calls = build_app(explicit_parser)
    evs = []
    lists = {}
    for n, (line, kind) in enumerate(zip(lines, kinds)):
        argv = all_argv or n % 2 == 1    # command-string and argv form alternate, or argv throughout
        shared = run_line(app, calls, line, argv=argv, lists=lists)
        fapp, fcalls = build_app(explicit_parser)
        fresh = run_line(fapp, fcalls, line, argv=argv)
        evs.append({"kind": kind, "line": line, "shared": shared, "fresh": fresh, "pristine": pristine(line, argv, explicit_parser)})
    return evs


EXTRA_LINES = ["foo v -o 3", "foo --opt", "baz -h", "help", "help foo bar", "foo bar v", "foo bar", "-V", "baz w -vv", "baz --no-ansi w",
               "help help", "foo v w", "baz -q x", "help -h", "foo -- a b", "baz a b c d", "nope nope", "-x", "help baz --bogus",
               "help foo v --bogus", "--help --bogus", "baz --help --bogus",
               # a switch of one run (debug verbosity, decoration, interaction) is a matter of that run only
               "baz w -vvv", "foo v -vvv", "baz -v", "baz --ansi w", "foo v -n", "baz -vvv a b", "nope -vvv"]


def run(ctx):
    quick = ctx.tier == "quick"
    ctx.rule = (
        "(a) TLC explores every sequence of MaxRuns line kinds (20 kinds: valid, by alias, surplus arguments, unknown option, help X, X --help, "
        "failing help requests, version, undefined command, empty line) on the application model with its per-command leniency "
        "override (SameAsFresh, NoResidue; the pinned variant must violate SameAsFresh); each sequence is run on ONE real "
        "ConsoleApplication and every run compared with a freshly built application by RunHistoryTrace (status, stdout, stderr, "
        "handler calls); random sequences of 2-6 lines incl. lines outside the model's pool.  (b) see c17_styles: all orders of making/"
        "customising table styles, repeated renders of every component vs. a fresh process; non-trivial = a sequence with a help "
        "request or an error before its last run / a style history with >= 2 operations"
    )
    ctx.assumptions += ["same process, same terminal width; each run gets new buffered streams and a new StringArgs / ArgvArgs object (re-using one RawArgs object for two runs is outside the statement: HelpResolver removes a leading 'help' token from it); the caller's argv LIST object is handed in again whenever its line comes again"]
    r = ctx.model(SPEC, "MC_RunHistory", "MC_RunHistory_defect.cfg", name="pinned-help-leniency-must-violate", expect_ok=False, workers=4)
    if "SameAsFresh" not in r.violated:
        raise T.MachineryError("pinned variant of RunHistory no longer violates SameAsFresh")
    r = ctx.model(SPEC, "MC_RunHistory", "MC_RunHistory_%s.cfg" % ctx.tier, name="run-sequences", workers=4)
    lines = None
    for tag, a in T.tuples(r, ("LINES",)):
        lines = json.loads(a[0])
    hists = T.emitted(r)
    if not lines or len(hists) < 280:
        raise T.MachineryError("RunHistory emitted %d sequences" % len(hists))
    traces, cases = [], []
    for h in hists:
        kinds = [e["kind"] for e in h]
        ls = [lines[k] for k in kinds]
        ep = len(traces) % 2 == 1
        aa = len(traces) % 3 != 0
        traces.append(run_history(ls, kinds, ep, aa))
        cases.append({"part": "history", "lines": ls, "kinds": kinds, "explicit_parser": ep, "all_argv": aa})
        ctx.count()
        if any(k.startswith("help") or "many" in k or k in ("undefined", "baz_badopt") for k in kinds[:-1]):
            ctx.nontriv(tuple(kinds))
    ctx.sample({"history": cases[len(cases) // 2]["lines"]})
    pool = [(v, k) for k, v in lines.items()] + [(x, "") for x in EXTRA_LINES]
    for k in range(150 if quick else 3000):
        seq = [ctx.rng.choice(pool) for _ in range(ctx.rng.randint(2, 6))]
        ep = k % 2 == 1
        aa = k % 3 != 0
        traces.append(run_history([s[0] for s in seq], [s[1] for s in seq], ep, aa))
        cases.append({"part": "history", "lines": [s[0] for s in seq], "kinds": [s[1] for s in seq], "explicit_parser": ep, "all_argv": aa})
        ctx.count()
        ctx.nontriv(("r", k))
    ctx.validate(SPEC, "RunHistoryTrace", "RunHistoryTrace.cfg", traces, cases=cases, name="run-histories", chunk=300)
    ctx.exhaustive = True
    c17_styles.run_styles(ctx)


def replay(ctx, path):
    c = json.load(open(path))["case"]
    ctx.count()
    ctx.nontriv(1)
    ctx.nontriv(2)
    ctx.sample(c)
    if c.get("part") == "history":
        ctx.validate(SPEC, "RunHistoryTrace", "RunHistoryTrace.cfg", [run_history(c["lines"], c["kinds"], c.get("explicit_parser", False), c.get("all_argv", False))], cases=[c], name="replay")
    else:
        c17_styles.replay_styles(ctx, c)
