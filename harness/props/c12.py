"""C12  EventDispatcher.  Drives the real dispatcher along TLC behaviours and random sequences."""
import json
import os

from harness.engine import tlc as T
from harness.engine.core import chunks

SPEC = os.path.join(T.SPECS, "Dispatcher")
EVENTS = ["e1", "e2", "e3", ""]
NOPRIO = -999
NOSPAWN = "<none>"  # "" is a legal event name


class Runaway(BaseException):
    """a dispatch that keeps calling listeners (e.g. iteration over a list that grows while it is iterated)"""


class Driver(object):
    """one EventDispatcher (optionally reached through ApplicationConfig) + listener bookkeeping"""

    def __init__(self, via_config=False):
        from clikit.api.event import EventDispatcher

        self.via = via_config
        if via_config:
            from clikit.api.config import ApplicationConfig

            self.cfg = ApplicationConfig()
            self.d = None
        else:
            self.d = EventDispatcher()
        self.listeners = []  # index = id-1
        self.called = []

    def _disp(self):
        if self.via:
            if self.cfg.dispatcher is None:
                from clikit.api.event import EventDispatcher

                self.cfg.set_event_dispatcher(EventDispatcher())
            return self.cfg.dispatcher
        return self.d

    def ident(self, fn):
        for k, f in enumerate(self.listeners):
            if f is fn:
                return k + 1
        return 0

    def step(self, op):
        """every exception of the dispatcher is an observation, never a crash of the driver"""
        try:
            return self._step(op)
        except Exception as e:  # noqa
            ev = {"op": op["op"], "ev": op.get("ev", ""), "prio": op.get("prio", 0), "stops": op.get("stops", False),
                  "spawn": op.get("spawn") or {"ev": NOSPAWN, "prio": 0}, "pre": bool(op.get("pre", False)),
                  "id": op.get("id", 0), "calls": [-2], "ids": [-2], "all": {e: [-2] for e in EVENTS}, "r": False,
                  "exc": type(e).__name__}
            if op["op"] == "add":
                ev["id"] = len(self.listeners)
            return ev

    @staticmethod
    def _payload(n):
        from clikit.api.event import ConfigEvent, Event, PreHandleEvent, PreResolveEvent

        return (Event, lambda: ConfigEvent(None), lambda: PreResolveEvent(None, None), lambda: PreHandleEvent(None, None, None))[n % 4]()

    def _step(self, op):
        """performs op (a dict with op/ev/prio/stops/id), returns the full event record with observations"""
        from clikit.api.event import Event

        ev = {"op": op["op"], "ev": op.get("ev", ""), "prio": op.get("prio", 0), "stops": op.get("stops", False),
              "spawn": {"ev": NOSPAWN, "prio": 0}, "pre": bool(op.get("pre", False)),
              "id": op.get("id", 0), "calls": [], "ids": [], "all": {e: [-1] for e in EVENTS}, "r": False, "exc": ""}
        k = op["op"]
        if k == "add":
            lid = len(self.listeners) + 1
            stops = op["stops"]
            spawn = op.get("spawn") or {"ev": NOSPAWN, "prio": 0}
            ev["spawn"] = spawn

            def listener(event, name, disp, _lid=lid, _stops=stops, _spawn=spawn):
                self.called.append(_lid)
                if len(self.called) > 300:
                    raise Runaway()
                if _spawn["ev"] != NOSPAWN:
                    # a listener that registers another (plain) listener while the dispatch is running
                    nid = len(self.listeners) + 1

                    def child(event2, name2, disp2, _nid=nid):
                        self.called.append(_nid)

                    self.listeners.append(child)
                    disp.add_listener(_spawn["ev"], child, _spawn["prio"])
                if _stops:
                    event.stop_propagation()
                # what a listener returns means nothing to the dispatcher (only Event.stop_propagation stops the chain)
                return (None, False, True, 0, "stop")[_lid % 5]

            self.listeners.append(listener)
            if self.via:
                self.cfg.add_event_listener(op["ev"], listener, op["prio"])
            else:
                self.d.add_listener(op["ev"], listener, op["prio"])
            ev["id"] = lid
        elif k == "dispatch":
            # another dispatcher of the same process registers and dispatches the same event name in between:
            # dispatchers share nothing
            if not hasattr(self, "other"):
                from clikit.api.event import EventDispatcher

                self.other = EventDispatcher()
            self.other.add_listener(op["ev"], lambda e, n, d: self.called.append(-2), 5)
            self.other.dispatch(op["ev"], Event())
            self.called = []
            # with the caller's own Event object, or letting the dispatcher create one
            try:
                if op.get("pre"):
                    stopped = Event()
                    stopped.stop_propagation()  # e.g. the event of an earlier, stopped dispatch used again
                    self._disp().dispatch(op["ev"], stopped)
                elif op.get("own", True):
                    # the caller's payload: a plain Event or one of the library's own event classes (each is an Event)
                    self.ndisp = getattr(self, "ndisp", 0) + 1
                    self._disp().dispatch(op["ev"], self._payload(self.ndisp))
                else:
                    self._disp().dispatch(op["ev"])
            except Runaway:
                self.called.append(-1)
            ev["calls"] = list(self.called)
        elif k == "get":
            ev["ids"] = [self.ident(f) for f in self._disp().get_listeners(op["ev"])]
        elif k == "getall":
            m = self._disp().get_listeners()
            for e in EVENTS:
                if e in m:
                    ev["all"][e] = [self.ident(f) for f in m[e]]
        elif k == "has":
            ev["r"] = bool(self._disp().has_listeners(op["ev"]))
        elif k == "hasany":
            ev["r"] = bool(self._disp().has_listeners())
        elif k == "prio":
            lid = op["id"]
            r = None
            if 1 <= lid <= len(self.listeners):
                r = self._disp().get_listener_priority(op["ev"], self.listeners[lid - 1])
            ev["r"] = NOPRIO if r is None else r
        return ev


def same(exp, ev):
    if ev.get("exc"):
        return False
    k = exp["op"]
    if k == "add":
        return ev["id"] == exp["id"]
    if k == "dispatch":
        return ev["calls"] == exp["calls"] and ev["pre"] == exp.get("pre", False)
    if k == "get":
        return ev["ids"] == exp["ids"]
    if k == "getall":
        return all(ev["all"][e] == exp["all"][e] for e in exp["all"])
    return ev["r"] == exp["r"]


def run_ops(ops, via=False, own=None):
    d = Driver(via)
    if own is not None:
        ops = [dict(op, own=own) for op in ops]
    return [d.step(op) for op in ops]


def run(ctx):
    quick = ctx.tier == "quick"
    ctx.rule = (
        "TLC explores the dispatcher model exhaustively (invariants), enumerates every operation sequence of length "
        "Depth over a reduced menu and random longer behaviours (-simulate); each behaviour is replayed on a fresh "
        "EventDispatcher and compared step by step; seeded random sequences (<= 40 ops, also through ApplicationConfig."
        "add_event_listener; payloads none / Event / ConfigEvent / PreResolveEvent / PreHandleEvent) are validated by DispatcherTrace.  Non-trivial: the sequence dispatches an event after a "
        "registration that follows an earlier dispatch/get of the same event, or holds >= 2 listeners of one event"
    )
    ctx.assumptions += ["each registration uses a distinct callable", "a listener registered by a listener during a dispatch takes part from the next dispatch on (registrations 'so far' = at the start of the dispatch); listeners registered that way do not register further ones"]
    ctx.model(SPEC, "MC_Dispatcher", "MC_Dispatcher_bfs_%s.cfg" % ctx.tier, name="state-space")
    beh = {}
    r = ctx.model(SPEC, "MC_Dispatcher", "MC_Dispatcher_seq_%s.cfg" % ctx.tier, name="all-sequences")
    for b in T.emitted(r):
        beh[json.dumps(b, sort_keys=True)] = b
    r = ctx.model(SPEC, "MC_Dispatcher", "MC_Dispatcher_seq_spawn.cfg", name="all-sequences-with-registering-listeners")
    for b in T.emitted(r):
        beh[json.dumps(b, sort_keys=True)] = b
    if not quick:
        ctx.model(SPEC, "MC_Dispatcher", "MC_Dispatcher_bfs_spawn.cfg", name="state-space-with-registering-listeners", timeout=2400)
    nseq = len(beh)
    r = ctx.model(SPEC, "MC_Dispatcher", "MC_Dispatcher_sim.cfg", name="simulate", simulate="num=%d" % (60 if quick else 600),
                  depth=15, workers=1, seed=ctx.seed % 100000)
    for b in T.emitted(r):
        beh[json.dumps(b, sort_keys=True)] = b
    if nseq < 1000 or len(beh) <= nseq:
        raise T.MachineryError("too few behaviours emitted (%d, %d)" % (nseq, len(beh)))
    mism, cases = [], []
    for nb, b in enumerate(beh.values()):
        own = nb % 2 == 0  # half of the behaviours dispatch without passing an Event
        evs = run_ops(b, own=own)
        ctx.count()
        if nontrivial(b):
            ctx.nontriv(json.dumps(b, sort_keys=True))
        if not all(same(x, y) for x, y in zip(b, evs)):
            mism.append(evs)
            cases.append({"ops": [dict(op, own=own) for op in b], "via": False})
    ctx.extra["tlc_behaviours_replayed"] = len(beh)
    ctx.extra["tlc_behaviours_not_reproduced"] = len(mism)
    ctx.sample({"tlc_behaviour": list(beh.values())[len(beh) // 2]})
    ctx.exhaustive = True

    # code -> spec
    traces = list(mism)
    n = 600 if quick else 8000
    for t in range(n):
        ops = random_ops(ctx.rng, ctx.rng.randint(3, 40))
        via = t % 4 == 3
        traces.append(run_ops(ops, via))
        cases.append({"ops": ops, "via": via})
        ctx.count()
        ctx.nontriv(("r", t))
    ctx.sample({"random_ops": cases[-1]["ops"][:12]})
    ctx.validate(SPEC, "DispatcherTrace", "DispatcherTrace.cfg", traces, cases=cases, name="recorded-sequences")


def nontrivial(b):
    warm = set()
    cnt = {}
    for op in b:
        if op["op"] in ("dispatch", "get"):
            warm.add(op["ev"])
        elif op["op"] == "getall":
            warm.update(EVENTS)
        elif op["op"] == "add":
            cnt[op["ev"]] = cnt.get(op["ev"], 0) + 1
            if op["ev"] in warm or cnt[op["ev"]] >= 2:
                return True
    return False


def random_ops(rng, n):
    ops = []
    nl = 0
    for _ in range(n):
        x = rng.random()
        if x < 0.4:
            sp = {"ev": rng.choice(EVENTS), "prio": rng.choice([-5, 0, 5])} if rng.random() < 0.15 else {"ev": NOSPAWN, "prio": 0}
            ops.append({"op": "add", "ev": rng.choice(EVENTS), "prio": rng.choice([-5, -1, 0, 0, 1, 5, 100]), "stops": rng.random() < 0.2, "spawn": sp})
            nl += 1
        elif x < 0.7:
            ops.append({"op": "dispatch", "ev": rng.choice(EVENTS), "own": rng.random() < 0.5, "pre": rng.random() < 0.15})
        elif x < 0.8:
            ops.append({"op": "get", "ev": rng.choice(EVENTS)})
        elif x < 0.85:
            ops.append({"op": "getall"})
        elif x < 0.9:
            ops.append({"op": "has", "ev": rng.choice(EVENTS)})
        elif x < 0.93:
            ops.append({"op": "hasany"})
        elif nl:
            ops.append({"op": "prio", "ev": rng.choice(EVENTS), "id": rng.randint(1, nl)})
    return ops


def replay(ctx, path):
    d = json.load(open(path))
    c = d["case"]
    ctx.count()
    ctx.nontriv(1)
    ctx.nontriv(2)
    ctx.sample(c)
    ctx.validate(SPEC, "DispatcherTrace", "DispatcherTrace.cfg", [run_ops(c["ops"], c.get("via", False))], cases=[c], name="replay")
