"""C20  ExceptionTrace / Highlighter.  Raises real exceptions through generated source files (and through exec'd,
source-less code), renders them with the real ExceptionTrace on a buffered I/O at every verbosity, and ships what was
written - tokenised into head lines, frame listing and snippet rows - to ErrorReportTrace, where TLC decides.  Replays
what TLC enumerated for the snippet window, the frame filter (MC_Report) and the highlighter's line assembly
(MC_Assemble) on the real classes.  No verdict logic here."""
import hashlib
import io
import json
import os
import re
import shutil
import sys
import tokenize

from harness.engine import tlc as T
from harness.engine.core import chunks

SPEC = os.path.join(T.SPECS, "ErrorReport")
WORK = os.path.join(T.WORK, "c20_%d" % os.getpid())
APP = os.path.join(WORK, "app")
LIB = os.path.join(WORK, "lib")  # the "ignored path"


# ------------------------------------------------------------------------------------------------ cells
def cell(c):
    if c == "\n":
        return "NL"
    if 32 <= ord(c) < 127 or c == "\t":
        return c
    return "u%04x" % ord(c)


def cells(s):
    return [cell(c) for c in s]


# ------------------------------------------------------------------------------------------------ generated code
def _write(dirname, stem, src):
    """a file whose name is unique for its content (crashtest and ExceptionTrace cache by file name)"""
    os.makedirs(dirname, exist_ok=True)
    h = hashlib.sha1(src.encode("utf-8")).hexdigest()[:10]
    path = os.path.join(dirname, "%s_%s.py" % (stem, h))
    if not os.path.exists(path):
        with open(path, "w", encoding="utf-8") as f:
            f.write(src)
    return path


def _load(path, src):
    ns = {"__name__": "gen", "__file__": path, "x": 1, "y": 2}
    exec(compile(src, path, "exec"), ns)
    return ns


HOP_SRC = "def hop(rest):\n    return rest[0](rest[1:])\n"
# one function, two call sites: which one is taken depends on how much of the chain is left (for the snippet cache, keyed by
# file, function and line)
HOP2_SRC = "def hop(rest):\n    if len(rest) % 2:\n        return rest[0](rest[1:])\n    return rest[0](rest[1:])\n"
CATCH_SRC = "def catch(rest):\n    try:\n        rest[0](rest[1:])\n    except BaseException as e:\n        return e\n"
SOLO_SRC = "def catch(rest):\n    try:\n        raise EXC(*ARGS)\n    except BaseException as e:\n        return e\n"
REC_SRC = ("def rec(n, rest):\n    if n <= 0:\n        return rest[0](rest[1:])\n    return rec(n - 1, rest)\n\n\n"
           "def ping(n, rest):\n    if n <= 0:\n        return rest[0](rest[1:])\n    return pong(n - 1, rest)\n\n\n"
           "def pong(n, rest):\n    return ping(n, rest)\n\n\n"
           "def entry(kind, n):\n    return lambda rest: (rec if kind == 'rec' else ping)(n, rest)\n")

FILLER = [
    "import os",
    "x = 1",
    "y = x + 2  # comment",
    "# only a comment",
    "",
    "s = 'str'",
    "t = (1,\n     2)",
    'm = """multi\nline\n"""',
    "lst = [i for i in range(3)]",
    "u = 'h\u00e9llo \u4e2d'",
    "k = {'a': 1,\n     'b': 2,  # c\n}",
    "w = x if x else y",
    "v = f'{x}'",
    "n = 0x1F + 1e3",
    "z = x \\\n    + 1",
    "tab = 1\t# tab",
    "tag = '<b>bold</b>'  # <info>note</info>",
    "cmp = x<y>0",
    "bad = '</info>'",
    "esc = '\\\\<'",
    "p = 'C:\\\\dir'  # path C:\\",
    "def helper(a, b=2):\n    return a",
    "class K(object):\n    attr = None",
    "if x:\n    pass\nelse:\n    pass",
    "q = '''a\nb''' + 'c'",
    "r = ('a'\n     'b')",
    # characters that str.splitlines() takes for line ends but Python's tokenizer (and a terminal) do not
    "sep = 'a\u2028b'  # c\u2029d",
    "ff = 'x\x0cy'  # page\x0cbreak",
    "nel = 'n\x85l'  # \x1c\x1d\x1e",
    "long = '" + "0123456789" * 40 + "'  # a very long line",
    "w2 = x + \\\n\\\n    1  # a line that holds nothing but the continuation backslash",
    "w3 = (x,\n\\\n      y)",
]
RAISERS = [
    "raise exc(*args)",
    "raise exc(\n        *args\n    )",
    "raise exc(*args)  # <error>why</error>",
    "value = (len(args) +\n             fail(exc, args))",
    "assert not args or fail(exc, args), 'unreachable'",
    "raise exc(*args) from cause",
    "fail(exc, args) ; x = '<b>'",
    "return fail(exc, args) \\\n        or None",
    "try:\n        fail(exc, args)\n    except Exception:\n        raise  # raised and re-raised",
    "try:\n        fail(exc, args)\n    except Exception as again:\n        raise again",
]


_TEMPLATE_ROWS = ["{%% extends 'base' %%}", "<html lang=en>", "  <b>{{ title }}</b>", "key: value  # not python", "$ echo done", "",
                  "%d items" % 3, "select * from t where a<b and b>c;"]


def not_python_file(shape, rng=None):
    """an existing file that is not tokenizable Python (a template, a data file); code is compiled under its name.
    -> path.  Shapes: unterminated string, unbalanced brackets, bad dedent, binary-ish bytes, NUL byte, empty, short"""
    rows = [_TEMPLATE_ROWS[k % len(_TEMPLATE_ROWS)] for k in range(60)]
    data = None
    if shape == "unterminated":
        rows[2] = '  "unterminated \'\'\' quote'
    elif shape == "brackets":
        rows[1] = "((( [ {"
    elif shape == "dedent":
        rows[0:3] = ["if x:", "        y", "    z"]
    elif shape == "nul":
        rows[3] = "a\x00b"
    elif shape == "binary":
        data = bytes(range(256)) * 8
    elif shape == "empty":
        rows = []
    elif shape == "short":
        rows = ["only one ((( line"]
    else:
        raise T.MachineryError("unknown shape %r" % (shape,))
    if data is None:
        data = ("\n".join(rows) + ("\n" if rows else "")).encode("utf-8")
    os.makedirs(APP, exist_ok=True)
    path = os.path.join(APP, "tmpl_%s_%s.txt" % (shape, hashlib.sha1(data).hexdigest()[:8]))
    if not os.path.exists(path):
        with open(path, "wb") as f:
            f.write(data)
    return path


NOT_PYTHON = ["unterminated", "brackets", "dedent", "binary", "empty", "short"]  # ("nul": CPython 3.12 tokenize answers SystemError - not clikit)


def make_source(rng, at_top=False):
    """-> source text of a module defining target(rest, exc, args, cause): raises exc(*args)"""
    pre = [] if at_top else [rng.choice(FILLER) for _ in range(rng.choice([0, 1, 2, 3, 5, 8, 12]))]
    post = [rng.choice(FILLER) for _ in range(rng.choice([0, 0, 1, 2, 4, 8]))]
    body_pre = ["    " + ln for ln in rng.choice(FILLER[1:21] + FILLER[-3:]).split("\n")] if rng.random() < 0.5 else []
    lines = ["def fail(exc, args):", "    raise exc(*args)", ""]
    head = ["def target(rest=None, exc=None, args=(), cause=None):"]
    body = body_pre + ["    " + rng.choice(RAISERS)]
    tail = ["", ""] + post
    parts = pre + lines + head + body + tail if not at_top else head + body + [""] + lines + post
    src = "\n".join(parts) + "\n"
    try:
        compile(src, "<gen>", "exec")
    except SyntaxError:
        return make_source(rng, at_top)
    return src


# ------------------------------------------------------------------------------------------------ exceptions
class VeryLongExceptionNameForTheReportError(Exception):
    pass


def _clikit_exc():
    from clikit.api.exceptions import CliKitException

    class GeneratedCliKitError(CliKitException):
        pass

    return GeneratedCliKitError


MESSAGES = [
    "Failed", "", "two\nlines", "a\n\n  indented third line", "h\u00e9llo \u4e2d\u6587", "tab\there", "x < y > z", "<info>styled</info> text",
    "<b>bold", "bad </info> msg", "<b>x</info>", "<nonexistent>x</nonexistent>", "\\<escaped>", "C:\\dir\\", "ends with backslash \\",
    "a <b", "tail<", "</>", "<fg=red>r</fg=blue>", "50% <done>", "quote \" and ' here", "key", "a" * 120,
    "line1\\\nline2", "<error>", "if a<b>c: pass", "{} {0} %s",
    # closes a tag it did not open and leaves another one open; leaves one open; closes unopened ones
    "\n\n", "trailing line end\n", "no type List<int> in <module>", "expected <class 'int'>, got <object at 0x1>", "</info> x <error>", "</b> y <info>z", "a closing </b> tag", "</error>", "<fg=red>r", "x</fg=blue> <b>",
]
EXC_KINDS = ["RuntimeError", "ValueError", "KeyError", "OSError", "long", "clikit", "ZeroDivisionError", "TypeError"]


def make_exc(kind, msg):
    """-> (class, args)"""
    if kind == "long":
        return VeryLongExceptionNameForTheReportError, (msg,)
    if kind == "clikit":
        return _clikit_exc(), (msg,)
    if kind == "OSError":
        return OSError, (2, msg)
    return {"RuntimeError": RuntimeError, "ValueError": ValueError, "KeyError": KeyError, "ZeroDivisionError": ZeroDivisionError,
            "TypeError": TypeError}[kind], (msg,)


def raise_case(case):
    """runs the case's code; returns the exception that came out.  Every frame of the traceback belongs to generated code:
    catch (first frame) -> the chain's hops / recursions -> target (-> fail)"""
    exc_cls, args = make_exc(case["exc"], case["msg"])
    cause = ValueError("the <b>cause</b>")
    origin = case["origin"]
    first_dir = LIB if case.get("first_ign") else APP
    salt = "# %s\n" % case["salt"] if case.get("salt") else ""  # histories get files of their own (nothing cached carries over)
    if case.get("solo"):
        ns = _load(_write(first_dir, "solo", SOLO_SRC + salt), SOLO_SRC)
        ns["EXC"], ns["ARGS"] = exc_cls, args
        e = ns["catch"](None)
    else:
        if origin == "file":
            placed = PLACES.get(case.get("place", "none"))
            path = _write(placed or (LIB if case.get("target_ign") else APP), "mod", case["src"] + salt)
            target = _load(path, case["src"])["target"]
        elif origin == "exec":  # no file at all
            ns = {"x": 1, "y": 2}
            exec(case["src"], ns)
            target = ns["target"]
        elif origin == "named":  # compiled under a name that is no path at all and looks like markup
            target = _load(case["fname"], case["src"])["target"]
        elif origin == "linecache":  # no file: a pseudo name, the source is known to linecache (doctest, notebooks, generated code)
            import linecache

            name = "<generated %s>" % hashlib.sha1((case["src"] + salt).encode("utf-8")).hexdigest()[:10]
            linecache.cache[name] = (len(case["src"]), None, case["src"].splitlines(True), name)
            _PSEUDO[name] = case["src"]
            target = _load(name, case["src"])["target"]
        elif origin == "notpython":  # compiled under the name of an existing file that is not Python
            target = _load(not_python_file(case["shape"]), case["src"])["target"]
        elif origin == "gone":  # compiled for a path that does not exist
            target = _load(os.path.join(APP, "gone_%s.py" % hashlib.sha1(case["src"].encode("utf-8")).hexdigest()[:8]), case["src"])["target"]
        else:
            raise T.MachineryError("unknown origin %r" % (origin,))
        target.__defaults__ = (None, exc_cls, args, cause)
        chain = []
        for k, hop in enumerate(case["chain"]):
            d = LIB if hop["ign"] else APP
            if hop["kind"] == "hop2":
                chain.append(_load(_write(d, "hoptwo", HOP2_SRC + salt), HOP2_SRC)["hop"])
            elif hop["kind"] == "hop":
                chain.append(_load(_write(d, "hop%d" % k, HOP_SRC + "# %d\n" % k + salt), HOP_SRC)["hop"])
            else:
                chain.append(_load(_write(d, "rec%d" % k, REC_SRC + "# %d\n" % k + salt), REC_SRC)["entry"](hop["kind"], hop["n"]))
        chain.append(target)
        e = _load(_write(first_dir, "catch", CATCH_SRC + salt), CATCH_SRC)["catch"](chain)
    if e is None:
        raise T.MachineryError("the generated code did not raise")
    return e


# ------------------------------------------------------------------------------------------------ projection
_AT = re.compile(r"^\s*at (.+):(\d+) in (.+)$")
_ENTRY = re.compile(r"^\s+(\d+)  (.+):(\d+) in (\S.*)$")
_ROW = re.compile(u"^\\s*(?:(\u2192|>)\\s+)?(\\d+)(\u2502|\\|) ?(.*)$")
_FOLD = re.compile(r"^\s*\.\.\.  Previous .* repeated \d+ times$")


def single_rows(src):
    """row numbers (1-based) that a token spanning several rows touches"""
    multi = set()
    try:
        for t in tokenize.generate_tokens(io.StringIO(src).readline):
            if t.start[0] != t.end[0]:
                multi.update(range(t.start[0], t.end[0] + 1))
    except (tokenize.TokenError, SyntaxError, IndentationError):
        return None
    return multi


_SRC_CACHE = {}


_PSEUDO = {}  # pseudo file name -> source registered with linecache (no file of that name exists)


def source_info(path):
    if path not in _SRC_CACHE:
        try:
            if path in _PSEUDO:
                text = _PSEUDO[path]
            else:
                with open(path, encoding="utf-8") as f:
                    text = f.read()
        except (OSError, UnicodeDecodeError):  # no file, or a file that is no text: there is no source to compare with
            text = None
        if text is None or text == "":
            _SRC_CACHE[path] = None
        else:
            rows = text.replace("\r\n", "\n").replace("\r", "\n").split("\n")
            if rows and rows[-1] == "":
                rows = rows[:-1]
            _SRC_CACHE[path] = (rows, single_rows(text))
    return _SRC_CACHE[path]


def _feat(row):
    if "<" in row:
        return "markup-like"
    if row.rstrip().endswith("\\"):
        return "backslash"
    return "plain"


def _row(r):
    """a match of _ROW -> (marked, number, text, marker glyph, delimiter glyph)"""
    return (r.group(1) is not None, int(r.group(2)), r.group(4), cell(r.group(1)) if r.group(1) else "", cell(r.group(3)))


def _snippet(path, lineno, rows):
    info = source_info(path) if path else None
    out = []
    for marked, num, text, mark, delim in rows:
        known = info is not None and 1 <= num <= len(info[0])
        src = info[0][num - 1] if known else ""
        single = known and info[1] is not None and num not in info[1]
        out.append({"num": num, "marked": marked, "text": cells(text), "known": known, "src": cells(src), "single": single, "feat": _feat(src),
                    "mark": mark, "delim": delim})
    avail = info is not None and 1 <= lineno <= len(info[0])
    if path in _PSEUDO and not rows:
        avail = False  # source known to linecache only: showing no snippet is allowed ("source unavailable"); a shown one must be right
    return {"line": lineno, "avail": avail, "rows": out}


def project(text, frames, simple):
    """output text -> [lines, head, listing, snippets];  frames: the real traceback frames (path, lineno, fn, ign)"""
    lines = text.split("\n")
    if lines and lines[-1] == "":
        lines = lines[:-1]
    obs = {"lines": [], "head": [], "listing": [], "snippets": []}
    if simple:
        obs["lines"] = [cells(x) for x in lines]
        return obs
    # the location line of the raising frame: the last "at file:line in fn" line directly followed by a snippet row, a
    # blank line or the end of the report (solutions may come after the snippet)
    at = None
    for k in range(len(lines) - 1, -1, -1):
        if _AT.match(lines[k]) and (k + 1 == len(lines) or _ROW.match(lines[k + 1]) or not lines[k + 1].strip()):
            at = k
            break
    end = len(lines) if at is None else at
    # the frame listing, when there is one, opens the report
    k = 0
    while k < end and not lines[k].strip():
        k += 1
    head_from = 0
    if k < end and lines[k].strip() == "Stack trace:":
        k += 1
        head_from = k
        while k < end:
            m = _ENTRY.match(lines[k])
            if m:
                shown, lineno, fn = m.group(2), int(m.group(3)), m.group(4)
                ix = 0
                for j, fr in enumerate(frames):
                    if fr["lineno"] == lineno and fr["fn"] == fn and (fr["path"].endswith(shown) or shown.endswith(os.path.basename(fr["path"]))):
                        ix = j + 1
                        break
                fr = frames[ix - 1] if ix else None
                rows = []
                k += 1
                while k < end and lines[k].strip():
                    r = _ROW.match(lines[k])
                    if r:
                        rows.append(_row(r))
                    k += 1
                obs["listing"].append({"ign": bool(fr and fr["ign"]), "file": cells(os.path.basename(shown)), "lineno": lineno, "fn": cells(fn), "ix": ix})
                if rows:
                    obs["snippets"].append(_snippet(fr["path"] if fr else None, lineno, rows))
                head_from = k
            elif _FOLD.match(lines[k]) or not lines[k].strip():
                k += 1
                head_from = k if _FOLD.match(lines[k - 1]) else head_from
            else:
                break
    obs["head"] = [cells(x) for x in lines[head_from:end]]
    if at is not None:
        rows = []
        for x in lines[at + 1:]:
            r = _ROW.match(x)
            if not r:
                break  # the snippet is the block of rows right below the location line
            rows.append(_row(r))
        last = frames[-1] if frames else None
        obs["snippets"].append(_snippet(last["path"] if last else None, last["lineno"] if last else 0, rows))
    return obs


def real_frames(e):
    out = []
    tb = e.__traceback__
    while tb is not None:
        code = tb.tb_frame.f_code
        out.append({"path": code.co_filename, "lineno": tb.tb_lineno, "fn": code.co_name,
                    "dir": "lib" if code.co_filename.startswith(LIB + os.sep) else "app" if code.co_filename.startswith(APP + os.sep) else ""})
        tb = tb.tb_next
    return out


SOLUTION_SHAPES = ["plain", "nodesc", "notitle", "empty", "nolinks", "onelink"]


class _Solutions(object):
    """a solution provider repository (the route ExceptionTrace(e, solution_provider_repository=...)) handing out crashtest
    BaseSolution objects: plain text; without description (BaseSolution's default None); without title; empty strings; with /
    without documentation links.  (Solution texts are authored markup - poetry's carry style tags - so none of them is
    adversarial markup.)"""

    def __init__(self, shape):
        self.shape = shape

    def get_solutions_for_exception(self, exception):
        from crashtest.contracts.base_solution import BaseSolution

        shape = self.shape
        if shape == "nodesc":
            sol = BaseSolution("Do this")
        elif shape == "notitle":
            sol = BaseSolution(None, "Something can be done.")
        elif shape == "empty":
            sol = BaseSolution("", "")
        else:
            sol = BaseSolution("Check the configuration.", "The value is not accepted.\nSee the manual")
        if shape == "plain":
            sol.documentation_links.extend(["https://example.invalid/doc#a", "https://example.invalid/doc#b"])
        elif shape == "onelink":
            sol.documentation_links.append("https://example.invalid/doc")
        return [sol, BaseSolution("Second.", "Another hint")] if shape in ("plain", "nodesc") else [sol]


def _context_chain(n):
    """n exceptions, each one raised (each has a traceback), linked through __context__ by assignment - built in a loop"""
    head = None
    for k in range(n):
        try:
            raise ValueError("link %d <b>" % k)
        except ValueError as x:
            x.__context__ = head
            head = x
    return head


def _link_context(e, ctx):
    """ctx = "long1200" | "long1500": e is the last of that many failures, each raised while the one before was on record (a retry
    loop) - more links than the interpreter's recursion limit;  "circular": two errors naming each other as context / cause"""
    if ctx.startswith("long"):
        e.__context__ = _context_chain(int(ctx[4:]))
    else:
        a, b = _context_chain(1), _context_chain(1)
        a.__context__, b.__context__, b.__cause__ = b, a, a
        e.__context__ = a


def _ansi_formatter():
    from clikit.formatter import AnsiFormatter

    return AnsiFormatter()


# where the failing module lies relative to the working directory and the home directory of the run: in them, below
# them, and in SIBLING directories whose names merely start like them (/base/project-x next to /base/project)
CWD_DIR = os.path.join(WORK, "base", "project")
HOME_DIR = os.path.join(WORK, "h", "user")
PLACES = {"cwd": CWD_DIR, "cwd-sub": os.path.join(CWD_DIR, "pkg"), "cwd-x": CWD_DIR + "-x", "home": HOME_DIR,
          "home-sub": os.path.join(HOME_DIR, "lib"), "home-x": HOME_DIR + "fs"}


def run_history(case, shared=None):
    """_run_history; for a case with a "place" the process works in CWD_DIR with HOME = HOME_DIR meanwhile"""
    if case.get("place", "none") == "none":
        return _run_history(case, shared)
    old_cwd, old_home = os.getcwd(), os.environ.get("HOME")
    for d in (CWD_DIR, HOME_DIR):
        os.makedirs(d, exist_ok=True)
    os.chdir(CWD_DIR)
    os.environ["HOME"] = HOME_DIR
    try:
        return _run_history(case, shared)
    finally:
        os.chdir(old_cwd)
        if old_home is None:
            os.environ.pop("HOME", None)
        else:
            os.environ["HOME"] = old_home


def _run_history(case, shared=None):
    """the case's exception is raised once and rendered once per entry of case["renders"] ([{"pat", "verb"}]; pat = which
    directory ignore_files_in() gets: "none" | "lib" | "app") in this process -> one "render" event per render"""
    from clikit.api.io import flags as F
    from clikit.io.buffered_io import BufferedIO
    from clikit.ui.components.exception_trace import ExceptionTrace

    e = raise_case(case)
    if case.get("ctx", "none") != "none":
        _link_context(e, case["ctx"])
    base = real_frames(e)
    msg = str(e)
    events = []
    repo = _Solutions(case.get("solshape", "plain")) if case.get("solutions") else None
    one = ExceptionTrace(e, repo) if case.get("one_trace") else None  # ONE trace object rendered several times
    for r in case["renders"]:
        frames = [dict(f, ign=(f["dir"] == r["pat"])) for f in base]
        utf8 = r.get("utf8", case["utf8"])
        # a fresh I/O per render - or one I/O (one formatter with its style stack) for everything: shared[0]
        if shared is None:
            # the formatter route: BufferedIO's default PlainFormatter, or an AnsiFormatter on a stream that takes no ANSI
            # codes (what DefaultApplicationConfig gives a redirected stream when --ansi is not forced): the same plain text
            bio = BufferedIO(supports_utf8=utf8, formatter=_ansi_formatter() if r.get("ansi_fmt", case.get("ansi_fmt")) else None)
        else:
            bio = shared[0]
        if shared is not None:
            utf8 = bio.supports_utf8()
        bio.clear_output()
        bio.set_verbosity({0: F.NORMAL, 1: F.VERBOSE, 2: F.VERY_VERBOSE, 3: F.DEBUG}[r["verb"]])
        trace = one if one is not None else ExceptionTrace(e, repo)
        trace.ignore_files_in(None)
        if r["pat"] != "none":
            pattern = "^" + re.escape({"lib": LIB, "app": APP}[r["pat"]] + os.sep)
            trace.ignore_files_in(re.compile(pattern) if r.get("compiled") else pattern)  # both forms are accepted
        esc = ""
        try:
            trace.render(bio, case["simple"])
        except BaseException as x:  # noqa: an escaping exception is the observation
            if isinstance(x, (KeyboardInterrupt, SystemExit, T.MachineryError)):
                raise
            esc = type(x).__name__
        c = {"simple": case["simple"], "verb": r["verb"], "utf8": utf8, "ignoring": r["pat"] != "none", "name": cells(type(e).__name__),
             "msg": [cells(x) for x in msg.split("\n")], "frames": [{"ign": f["ign"], "dir": f["dir"]} for f in frames],
             "recursion": any(h["kind"] not in ("hop", "hop2") for h in case["chain"]),
             "origin": case["origin"] + (("+" + case.get("solshape", "plain")) if case.get("solutions") else "")}
        o = {"esc": esc, "lines": [], "head": [], "listing": [], "snippets": []}
        if not esc:
            o.update(project(bio.fetch_output(), frames, case["simple"]))
            if bio.fetch_error():
                raise T.MachineryError("the report wrote to the error output")
        events.append({"op": "render", "c": c, "o": o})
    return events


def run_trace(case):
    """one render, a history of renders of one exception, or - case["then"] = a second case - two reports written one after
    the other on ONE I/O (what the first leaves on the formatter's style stack is there for the second)"""
    if case.get("then_fresh"):  # two exceptions, two trace objects, two I/Os - one process (class-level caches)
        second = case["then_fresh"]
        return run_history(dict(case, renders=renders_of(case))) + run_history(dict(second, renders=renders_of(second)))
    if not case.get("then"):
        return run_history(dict(case, renders=renders_of(case)))
    from clikit.io.buffered_io import BufferedIO

    shared = [BufferedIO(supports_utf8=case["utf8"], formatter=_ansi_formatter() if case.get("ansi_fmt") else None)]
    second = case["then"]
    return (run_history(dict(case, renders=renders_of(case)), shared)
            + run_history(dict(second, renders=renders_of(second)), shared))


LEAVES_OPEN = ["<b>bold", "an <info>open tag", "</info> x <error>", "<error>", "<fg=red>r", "</b> y <info>z"]
CLOSES_UNOPENED = ["bad </info> msg", "</info> x <error>", "a closing </b> tag", "</error>", "x</fg=blue> <b>", "<b>x</info>"]


def random_pair_case(rng, k):
    a, b = random_render_case(rng), random_render_case(rng)
    a["msg"], b["msg"] = rng.choice(LEAVES_OPEN + MESSAGES[:6]), rng.choice(CLOSES_UNOPENED + MESSAGES[:6])
    if rng.random() < 0.5:  # the second message closes exactly the tag the first one leaves open
        tag = rng.choice(["info", "b", "error", "comment", "fg=red"])
        a["msg"], b["msg"] = "an <%s>open tag" % tag, "bad </%s> msg" % tag
    for c in (a, b):
        c["origin"] = "file"
        c["exc"] = rng.choice(["RuntimeError", "ValueError", "clikit", "long"])
        c["chain"] = c["chain"][:2]
    b["utf8"] = a["utf8"]
    a["then"] = b
    return a


def cache_pair_case(rng, k):
    """two different exceptions that pass through the same function of the same file at different lines, both rendered at
    debug verbosity (the listing's snippets go through the class-level cache)"""
    a, b = random_render_case(rng), random_render_case(rng)
    for c in (a, b):
        c.update(origin="file", simple=False, verb=3, ignoring=False, salt="cache pair %d" % k, first_ign=False, target_ign=False)
    a["chain"] = [{"kind": "hop2", "ign": False, "n": 0}]
    b["chain"] = [{"kind": "hop2", "ign": False, "n": 0}, {"kind": "hop", "ign": False, "n": 0}]
    b["utf8"] = a["utf8"]
    a["then_fresh"] = b
    return a


def renders_of(case):
    return case.get("renders") or [{"pat": "lib" if case["ignoring"] else "none", "verb": case["verb"], "compiled": bool(case.get("compiled"))}]


def run_render(case):
    """case with one render (fields verb, ignoring) -> one "render" event"""
    return run_history(dict(case, renders=renders_of(case)))[0]


def random_render_case(rng):
    origin = rng.choice(["file"] * 8 + ["exec", "gone", "named", "notpython", "notpython", "linecache", "linecache"])
    chain = []
    for _ in range(rng.choice([0, 0, 1, 1, 2, 3, 5])):
        x = rng.random()
        if x < 0.7:
            chain.append({"kind": "hop", "ign": rng.random() < 0.4, "n": 0})
        elif x < 0.9:
            chain.append({"kind": "rec", "ign": rng.random() < 0.3, "n": rng.choice([1, 2, 3, 10, 30, 60])})
        else:
            chain.append({"kind": "ping", "ign": rng.random() < 0.3, "n": rng.choice([1, 2, 5, 20])})
    kind = rng.choice(EXC_KINDS)
    return {"place": rng.choice(["none"] * 6 + list(PLACES)) if origin == "file" else "none", "ansi_fmt": rng.random() < 0.4, "solutions": origin == "file" and rng.random() < 0.25, "solshape": rng.choice(SOLUTION_SHAPES), "shape": rng.choice(NOT_PYTHON),
            "compiled": rng.random() < 0.4, "ctx": rng.choice(["none"] * 14 + ["long1200", "long1500", "circular", "circular"]),
            "origin": origin, "fname": rng.choice(["</error>", "<b>", "x</info>y", "<template>", "dir\\"]),
            "src": make_source(rng, at_top=rng.random() < 0.15), "exc": kind, "msg": rng.choice(MESSAGES),
            "chain": chain, "verb": rng.choice([0, 0, 1, 2, 3, 3]), "utf8": rng.random() < 0.7, "ignoring": rng.random() < 0.5,
            "simple": rng.random() < 0.2, "first_ign": rng.random() < 0.2, "target_ign": origin == "file" and rng.random() < 0.15}


def random_history_case(rng, k):
    """2-3 renders of one exception with different ignore patterns / verbosities; files of its own (salt)"""
    case = random_render_case(rng)
    case["origin"] = "file"
    case["simple"] = False
    case["salt"] = "history %d %d" % (k, rng.randint(0, 10 ** 9))
    case["renders"] = [{"pat": rng.choice(["none", "lib", "app", "lib", "app"]), "verb": rng.choice([0, 1, 2, 2, 3]),
                        "utf8": rng.random() < 0.5, "compiled": rng.random() < 0.4} for _ in range(rng.choice([2, 3]))]
    case["one_trace"] = rng.random() < 0.6  # the same ExceptionTrace object for every render of the history
    return case


def history_case(inp, k):
    """the case for a history TLC chose: frames = directories of catch, hops, target"""
    dirs = [f["dir"] for f in inp["frames"]]
    return {"origin": "file", "src": "def target(rest=None, exc=None, args=(), cause=None):\n    raise exc(*args)\n",
            "exc": "RuntimeError", "msg": "Failed", "chain": [{"kind": "hop", "ign": d == "lib", "n": 0} for d in dirs[1:-1]],
            "utf8": True, "simple": False, "first_ign": dirs[0] == "lib", "target_ign": dirs[-1] == "lib", "solo": False,
            "salt": "tlc history %d" % k, "renders": [{"pat": r["pat"], "verb": r["verb"]} for r in inp["renders"]],
            "verb": 0, "ignoring": False}


# ------------------------------------------------------------------------------------------------ the highlighter alone
def classify(tok):
    from clikit.ui.components.exception_trace import Highlighter

    s = tok.string
    if tok.type == tokenize.ENDMARKER:
        return "end"
    if s in Highlighter.KEYWORDS:
        return "kw"
    if s in Highlighter.BUILTINS or s == "self":
        return "builtin"
    return {tokenize.STRING: "str", tokenize.NUMBER: "num", tokenize.COMMENT: "comment", tokenize.OP: "op",
            tokenize.NEWLINE: "newline"}.get(tok.type, "default")


def tokens_of(src):
    out = []
    for t in tokenize.tokenize(io.BytesIO(src.encode("utf-8")).readline):
        if t.start[0] == 0:
            continue
        if t.start[0] == t.end[0]:
            s = [cells(t.string)]
        else:
            s = [cells(x) for x in t.string.split("\n")]
        out.append({"ty": classify(t), "s": s, "r1": t.start[0], "c1": t.start[1], "r2": t.end[0], "c2": t.end[1]})
    return out


_SEG = re.compile(r"<([^<>]*)>((?:\\<|[^<])*)</>|((?:\\<|[^<])+)", re.S)


def segments(markup, theme):
    """one line of the highlighter's markup -> [[st, cells]]; None when it is not of the expected shape"""
    pos, out = 0, []
    for m in _SEG.finditer(markup):
        if m.start() != pos:
            return None
        pos = m.end()
        if m.group(3) is not None:
            out.append({"st": "raw", "t": cells(m.group(3).replace("\\<", "<"))})
        else:
            if m.group(1) not in theme:
                return None
            text = m.group(2).replace("\\<", "<")
            if text:
                out.append({"st": theme[m.group(1)], "t": cells(text)})
    return out if pos == len(markup) else None


def displayed(markup_lines):
    """what the lines look like on a buffered I/O (written with an indentation, as ExceptionTrace does)"""
    from clikit.io.buffered_io import BufferedIO

    out = []
    for ln in markup_lines:
        bio = BufferedIO()
        bio.write_line("  " + ln)
        text = bio.fetch_output()
        out.append(text[2:-1] if text.endswith("\n") else text[2:])
    return out


def run_highlight(src):
    """-> one "highlight" event"""
    from clikit.ui.components.exception_trace import Highlighter

    rows = src.split("\n")
    if rows and rows[-1] == "":
        rows = rows[:-1]
    ev = {"op": "highlight", "src": [cells(r) for r in rows], "toks": tokens_of(src), "shown": [], "segs": [], "esc": "",
          "feat": "markup-like" if "<" in src else "backslash" if "\\\n" in src else "plain"}
    h = Highlighter()
    theme = {}
    for ty, name in (("kw", h.TOKEN_KEYWORD), ("builtin", h.TOKEN_BUILTIN), ("str", h.TOKEN_STRING), ("num", h.TOKEN_NUMBER),
                     ("comment", h.TOKEN_COMMENT), ("op", h.TOKEN_OP), ("default", h.TOKEN_DEFAULT)):
        theme[h.DEFAULT_THEME[name]] = ty
    try:
        lines = h.highlighted_lines(src)
        shown = displayed(lines)
    except Exception as x:  # noqa
        ev["esc"] = type(x).__name__
        return ev
    ev["shown"] = [cells(x) for x in shown]
    segs = [segments(ln, theme) for ln in lines]
    ev["segs"] = [s if s is not None else [{"st": "unparsed", "t": cells(ln)}] for s, ln in zip(segs, lines)]
    return ev


def program_source(beh):
    return "\n".join("".join(_uncell(c) for c in row) for row in beh["src"]) + "\n"


def _uncell(c):
    if c == "NL":
        return "\n"
    if len(c) == 5 and c[0] == "u":
        return chr(int(c[1:], 16))
    return c


def same_highlight(beh, ev):
    norm = [[{"st": s["st"], "t": list(s["t"])} for s in line] for line in beh["lines"]]
    return not ev["esc"] and ev["segs"] == norm


def run_snippet(inp):
    """Highlighter.code_snippet on a source of n rows -> one "snippet" event"""
    from clikit.ui.components.exception_trace import Highlighter

    src = "".join("v%d = %d\n" % (k, k) for k in range(1, inp["n"] + 1))
    ev = {"op": "snippet", "n": inp["n"], "line": inp["line"], "before": inp["before"], "after": inp["after"], "rows": [], "esc": ""}
    try:
        lines = displayed(Highlighter(supports_utf8=inp.get("utf8", True)).code_snippet(src, inp["line"], inp["before"], inp["after"]))
    except Exception as x:  # noqa
        ev["esc"] = type(x).__name__
        return ev
    for ln in lines:
        r = _ROW.match(ln)
        if not r:
            ev["esc"], ev["rows"] = "shape", []  # not a row at all: an observation (P.renders), not a harness failure
            return ev
        ev["rows"].append({"num": int(r.group(2)), "marked": r.group(1) is not None})
    return ev


def frames_case(inp, msg="Failed"):
    """the render case for a frame mask TLC chose: first frame = the catching function, last frame = the raising one"""
    mask = [f["ign"] for f in inp["frames"]]
    case = {"origin": "file", "src": "def target(rest=None, exc=None, args=(), cause=None):\n    raise exc(*args)\n",
            "exc": "RuntimeError", "msg": msg, "chain": [{"kind": "hop", "ign": m, "n": 0} for m in mask[1:-1]],
            "verb": inp["verb"], "utf8": True, "ignoring": inp["ignoring"], "simple": False, "first_ign": mask[0],
            "target_ign": mask[-1], "solo": len(mask) == 1}
    return case


# ------------------------------------------------------------------------------------------------ the check
def setup():
    shutil.rmtree(WORK, ignore_errors=True)
    os.makedirs(APP)
    os.makedirs(LIB)
    _SRC_CACHE.clear()
    _PSEUDO.clear()


def teardown():
    shutil.rmtree(WORK, ignore_errors=True)


def run(ctx):
    quick = ctx.tier == "quick"
    ctx.rule = (
        "TLC checks (MC_Report) the snippet window of Highlighter.code_snippet for every source length, failing line and both "
        "window sizes (rows consecutive, exactly the failing line marked) and the frame filter of ExceptionTrace for every "
        "ignore mask x verbosity (no ignored frame listed unless debug) and for every history of 2/3 renders of one exception in "
        "one process with different ignore patterns (none / app directory / lib directory) and verbosities (what a render lists "
        "depends on this render's frames, pattern and verbosity only; TLC must find that violated in the variant that memoises "
        "the decision per file); (MC_Assemble) the highlighter's line assembly, token "
        "by token, on every program composed of up to 3/4 row groups (assignment, comment with markup-like text, blank, "
        "backslash continuation, 3-row string, a<b>c, bracketed 2-row expression, indented block, comment ending in a "
        "backslash, string with an unbalanced closing tag, string and comment holding U+2028 / form feed / U+0085): every row not touched by a multi-row token is shown verbatim. "
        "Every emitted input is replayed on the real classes and compared.  Exceptions raised through generated source files "
        "(failing statement at varying positions incl. the first rows, multi-row statements and strings, comments, tabs, "
        "non-ASCII, markup-like text, characters str.splitlines() takes for line ends: U+2028/2029, FF, NEL, FS/GS/RS), through modules lying in / below / beside the working and the home directory (sibling directories whose names start like them), through exec'd and file-less code (also compiled under file names that look like style tags, under pseudo names whose source only linecache knows, and under the names of existing files that are not Python: unterminated string, unbalanced brackets, bad dedent, NUL byte, binary bytes, empty, shorter than the line number), with 33 adversarial messages x 8 exception kinds, "
        "a cause (also __context__ chains of 1200 / 1500 links - beyond the recursion limit - and circular ones), call chains through ignored / not ignored modules and recursion (direct, mutual) up to depth 60 are rendered "
        "at every verbosity, UTF-8 on/off, with/without an ignore pattern, simple/full; what was written is tokenised "
        "(head lines, listing entries, snippet rows with the source rows) and ErrorReportTrace decides every P-clause; the "
        "highlighter alone runs on generated modules (token stream shipped: TLC re-runs the assembly and decides which rows "
        "are single-token rows) and on snippets of real files (clikit's own sources and the standard library; observation "
        "level: rows + source rows + the tokenizer's multi-row flags).  "
        "Non-trivial: the traceback has >= 2 frames or the message / the snippet window contains markup-like text"
    )
    ctx.assumptions += [
        "'style markup aside': the shown message is the message from which some STYLE tags (<name>, </name>, </> with name a "
        "style of the default style set or a fg=/bg=/options= definition) and some backslashes standing before < have been left "
        "out; angle-bracket text that is no style (List<int>, <module>) must be shown; indentation and trailing blanks aside",
        "the message is str(exception); the class name is type(exception).__name__; exceptions are raised (have a traceback)",
        "output observed on a BufferedIO (plain formatter); the failing line is tb_lineno of the innermost traceback entry",
        "a snippet row is any line '[marker] number delimiter text' below a frame header; rows are compared with the source "
        "file read as UTF-8, trailing blanks aside; a row counts as 'made of single-line tokens' when Python's tokenizer "
        "reports no token spanning several rows on it",
        "a frame is 'under the ignored path' when its file lies in the directory handed to ignore_files_in()",
        "source unavailable (exec'd code, file gone): only 'renders', class name and message are required",
        "on an I/O that does not support UTF-8 the report's own symbols are ASCII (marker '>' and delimiter '|'; the repository's "
        "test_render_falls_back_on_ascii_symbols documents it); the glyphs on a UTF-8 I/O are not prescribed",
    ]
    setup()
    try:
        _run(ctx, quick)
    finally:
        teardown()


def _run(ctx, quick):
    traces, cases = [], []
    # ---- spec -> code: window and frame filter
    r = ctx.model(SPEC, "MC_Report", "MC_Report_%s.cfg" % ctx.tier, name="snippet window + frame filter", workers=8)
    behs = T.emitted(r)
    nsn = nfr = nhi = bad = 0
    for b in behs:
        inp = b["inp"]
        ctx.count()
        if inp["kind"] == "snippet":
            nsn += 1
            ev = run_snippet(inp)
            if ev["esc"] or ev["rows"] != [{"num": x["num"], "marked": x["marked"]} for x in b["out"]]:
                bad += 1
                traces.append([ev])
                cases.append({"kind": "snippet", "inp": inp})
            if inp["line"] > 1:
                ctx.nontriv(("sn", inp["n"], inp["line"], inp["before"]))
        elif inp["kind"] == "history":
            nhi += 1
            case = history_case(inp, nhi)
            evs = run_history(case)
            want_dirs = [f["dir"] for f in inp["frames"]]
            for ev, r in zip(evs, inp["renders"]):
                if [f["dir"] for f in ev["c"]["frames"]] != want_dirs:
                    raise T.MachineryError("the generated call chain does not have the frames TLC chose: %r" % (inp,))
            got = [[x["ix"] for x in ev["o"]["listing"]] for ev in evs]
            if any(ev["o"]["esc"] for ev in evs) or got != [[x["ix"] for x in lst] for lst in b["out"]]:
                bad += 1
            # every history is also decided by TLC on what was observed
            traces.append(evs)
            cases.append(dict(case, kind="history"))
            ctx.nontriv(("hi", json.dumps(inp, sort_keys=True)))
        else:
            nfr += 1
            case = frames_case(inp)
            ev = run_render(case)
            if len(ev["c"]["frames"]) != len(inp["frames"]) or [f["dir"] == "lib" for f in ev["c"]["frames"]] != [f["ign"] for f in inp["frames"]]:
                raise T.MachineryError("the generated call chain does not have the frames TLC chose: %r" % (inp,))
            if ev["o"]["esc"] or [x["ix"] for x in ev["o"]["listing"]] != [x["ix"] for x in b["out"]]:
                bad += 1
                traces.append([ev])
                cases.append(dict(case, kind="render"))
            ctx.nontriv(("fr", json.dumps(inp, sort_keys=True)))
    if nsn < 100 or nfr < 100 or nhi < 100:
        raise T.MachineryError("too few inputs emitted by MC_Report (%d, %d, %d)" % (nsn, nfr, nhi))
    r = ctx.model(SPEC, "MC_Report", "MC_Report_memo.cfg", name="ignore decision memoised per file: HistoryP must fail", workers=8,
                  expect_ok=False)
    if "HistoryP" not in r.violated:
        raise T.MachineryError("TLC does not find the history dependence in the memoising model: HistoryP is vacuous")
    # ---- spec -> code: line assembly
    r = ctx.model(SPEC, "MC_Assemble", "MC_Assemble_%s.cfg" % ctx.tier, name="line assembly", workers=8)
    nas = 0
    for b in T.emitted(r):
        nas += 1
        src = program_source(b)
        ev = run_highlight(src)
        ctx.count()
        if ev["toks"] != [dict(ty=t["ty"], s=[list(x) for x in t["s"]], r1=t["r1"], c1=t["c1"], r2=t["r2"], c2=t["c2"]) for t in b["toks"]]:
            raise T.MachineryError("MC_Assemble composes a token stream Python's tokenizer does not produce for %r" % (src,))
        if len(b["prog"]) >= 2:
            ctx.nontriv(("as", src))
        if nas == 500:
            ctx.sample({"tlc_program": src, "assembled_rows": ["".join(x) for x in ev["shown"]]})
        if not same_highlight(b, ev):
            bad += 1
            traces.append([ev])
            cases.append({"kind": "highlight", "src": src})
    r.lines = []
    if nas < 1000:
        raise T.MachineryError("too few programs emitted by MC_Assemble (%d)" % nas)
    ctx.exhaustive = True
    ctx.extra["tlc_inputs_replayed"] = nsn + nfr + nhi + nas
    ctx.extra["tlc_inputs_not_reproduced"] = bad

    # ---- code -> spec: real exceptions
    for t in range(1500 if quick else 12000):
        case = random_render_case(ctx.rng)
        ev = run_render(case)
        traces.append([ev])
        cases.append(dict(case, kind="render"))
        ctx.count()
        if len(ev["c"]["frames"]) >= 3 or "<" in case["msg"] or "<" in case["src"]:
            ctx.nontriv(("r", t))
        if t == 3:
            ctx.sample({"render_case": {k: (v if k != "src" else v[:200]) for k, v in case.items()}})
    # ---- code -> spec: histories - several renders of one exception in this process, different ignore patterns
    for t in range(150 if quick else 2000):
        case = random_history_case(ctx.rng, t)
        traces.append(run_history(case))
        cases.append(dict(case, kind="history"))
        ctx.count()
        ctx.nontriv(("hist", t))
    # ---- code -> spec: two exceptions through one function at two lines, at debug (snippet cache)
    for t in range(40 if quick else 500):
        case = cache_pair_case(ctx.rng, t)
        traces.append(run_trace(case))
        cases.append(dict(case, kind="pair"))
        ctx.count()
        ctx.nontriv(("cache", t))
    # ---- code -> spec: two reports on one I/O
    for t in range(150 if quick else 2000):
        case = random_pair_case(ctx.rng, t)
        traces.append(run_trace(case))
        cases.append(dict(case, kind="pair"))
        ctx.count()
        ctx.nontriv(("pair", t))
    # ---- code -> spec: the highlighter on generated modules and on real Python files
    for t in range(400 if quick else 3000):
        src = make_source(ctx.rng, at_top=ctx.rng.random() < 0.2)
        traces.append([run_highlight(src)])
        cases.append({"kind": "highlight", "src": src})
        ctx.count()
        ctx.nontriv(("h", t))
    corpus = corpus_files(ctx.rng, 25 if quick else 400, 15 if quick else 400)
    for path in corpus:
        try:
            with open(path, encoding="utf-8") as f:
                src = f.read()
        except (OSError, UnicodeDecodeError):
            continue
        for ev, case in corpus_events(path, src, ctx.rng, 3 if quick else 6):
            traces.append([ev])
            cases.append(case)
            ctx.count()
            ctx.nontriv(("c", path, case["line"]))
    ctx.extra["corpus_files"] = len(corpus)
    for pt, pc in zip(chunks(traces, 1000), chunks(cases, 1000)):
        ctx.validate(SPEC, "ErrorReportTrace", "ErrorReportTrace.cfg", pt, cases=pc, name="recorded renderings", chunk=1000)


def corpus_files(rng, n, n_std):
    """real Python files: n of the library under test itself and n_std of the standard library"""
    import clikit

    def pick(root, count, skip=()):
        files = []
        for d, _, fs in os.walk(root):
            if any(x in d for x in skip):
                continue
            for f in fs:
                p = os.path.join(d, f)
                if f.endswith(".py") and os.path.getsize(p) > 200:
                    files.append(p)
        files.sort()
        rng.shuffle(files)
        return files[:count]

    return pick(os.path.dirname(clikit.__file__), n) + pick(os.path.dirname(os.__file__), n_std, ("site-packages", "test", "idlelib"))


def corpus_events(path, src, rng, k):
    """snippets of a real file around random lines: a "render"-shaped observation holding just the snippet (the structural
    and the verbatim clauses apply; the token stream is not shipped - observation level)"""
    from clikit.ui.components.exception_trace import Highlighter

    info = source_info(path)
    if info is None:
        return
    n = len(info[0])
    for _ in range(k):
        line = rng.randint(1, n)
        esc, rows = "", []
        try:
            for ln in displayed(Highlighter().code_snippet(src, line, 4, 4)):
                r = _ROW.match(ln)
                if r:
                    rows.append(_row(r))
        except Exception as x:  # noqa
            esc = type(x).__name__
        c = {"simple": True, "verb": 0, "utf8": True, "ignoring": False, "name": [], "msg": [], "frames": [], "recursion": False, "origin": "corpus"}
        o = {"esc": esc, "lines": [], "head": [], "listing": [], "snippets": [] if esc else [_snippet(path, line, rows)]}
        yield {"op": "render", "c": c, "o": o}, {"kind": "corpus", "path": path, "line": line}


def replay(ctx, path):
    d = json.load(open(path))
    c = d["case"]
    ctx.count()
    ctx.nontriv(1)
    ctx.nontriv(2)
    ctx.sample({k: v for k, v in c.items() if k != "src"})
    setup()
    try:
        if c["kind"] == "snippet":
            ev = run_snippet(c["inp"])
        elif c["kind"] == "highlight":
            ev = run_highlight(c["src"])
        elif c["kind"] == "corpus":
            with open(c["path"], encoding="utf-8") as f:
                src = f.read()
            ev = None
            from clikit.ui.components.exception_trace import Highlighter

            esc, rows = "", []
            try:
                for ln in displayed(Highlighter().code_snippet(src, c["line"], 4, 4)):
                    r = _ROW.match(ln)
                    if r:
                        rows.append(_row(r))
            except Exception as x:  # noqa
                esc = type(x).__name__
            cc = {"simple": True, "verb": 0, "utf8": True, "ignoring": False, "name": [], "msg": [], "frames": [], "recursion": False, "origin": "corpus"}
            ev = {"op": "render", "c": cc, "o": {"esc": esc, "lines": [], "head": [], "listing": [], "snippets": [] if esc else [_snippet(c["path"], c["line"], rows)]}}
        elif c["kind"] in ("history", "pair"):
            ev = None
            ctx.validate(SPEC, "ErrorReportTrace", "ErrorReportTrace.cfg", [run_trace(c)], cases=[c], name="replay")
        else:
            ev = run_render(c)
        if ev is not None:
            ctx.validate(SPEC, "ErrorReportTrace", "ErrorReportTrace.cfg", [[ev]], cases=[c], name="replay")
    finally:
        teardown()
