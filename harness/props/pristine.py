"""Reference server for "the result of a parse depends only on tokens, format and mode": answers each parse request in a
freshly forked child of a process that has imported the library but never parsed anything, and that runs under another
string-hash seed than the harness.  Whatever a parse leaves behind in the harness process - on objects, classes or
modules - cannot reach the child, and nothing that depends on set/dict iteration order of strings agrees by accident.

protocol: one JSON request per line on stdin ({"f", "toks", "lenient", "form"} for a parse, {"call": [module, function],
"args": [...]} for any other driver function); one JSON answer per line on stdout."""
import hashlib
import json
import os
import sys


def digest(text):
    return hashlib.sha1(text.encode("utf-8", "replace")).hexdigest()[:16]


def answer(req):
    if "call" in req:   # any other driver: {"call": [module, function], "args": [...]} -> the function's JSON-able result
        import importlib

        mod, fn = req["call"]
        return getattr(importlib.import_module(mod), fn)(*req["args"])
    from clikit.args import DefaultArgsParser

    from harness.props import argslib as L

    fobj = L.build_format(req["f"], False)
    raw, _ = L.make_raw(list(req["toks"]), req["form"])
    try:
        parsed = DefaultArgsParser().parse(raw, fobj, req["lenient"])   # (the whole answer runs under the child's budget)
    except Exception as e:  # noqa
        return {"err": L.ERR.get(type(e).__name__, "EXC:" + type(e).__name__), "result": dict(L.NORES), "msg": digest(str(e))}
    res, _x = L.project_args(req["f"], parsed)
    return {"err": "none", "result": res, "msg": digest("")}


def main():
    import clikit.args  # noqa: the library is loaded once, by the parent of every child
    from harness.props import argslib  # noqa

    for line in sys.stdin:
        req = json.loads(line)
        r, w = os.pipe()
        pid = os.fork()
        if pid == 0:
            os.close(r)
            try:
                from harness.engine import budget

                try:
                    out = json.dumps(budget.call(answer, req, seconds=30))
                except budget.Budget:
                    out = json.dumps({"err": "EXC:DoesNotTerminate", "result": {"aset": [], "aval": [], "oset": [], "oval": []}, "msg": ""})
            except BaseException as e:  # noqa
                out = json.dumps({"err": "EXC:server:" + type(e).__name__, "result": {"aset": [], "aval": [], "oset": [], "oval": []}, "msg": ""})
            os.write(w, out.encode())
            os._exit(0)
        os.close(w)
        chunks = []
        while True:
            b = os.read(r, 65536)
            if not b:
                break
            chunks.append(b)
        os.close(r)
        os.waitpid(pid, 0)
        sys.stdout.write(b"".join(chunks).decode() + "\n")
        sys.stdout.flush()


if __name__ == "__main__":
    main()
