"""C16  ProgressBar.  Drives the real progress bar under a virtual clock along TLC behaviours and seeded random call
sequences; records per call the writes that reached the stream (tokenised into terminal ops, frames projected into
[current, max, percent, bar cells]) and lets TLC decide (ProgressBarTrace).  No verdict logic here."""
import json
import os
import re

from harness.engine import termbytes
from harness.engine import tlc as T
from harness.engine.core import run_extension

SPEC = os.path.join(T.SPECS, "ProgressBar")
OPS = ["start", "advance", "set", "display", "clear", "finish"]
TICKS_PER_S = 1024.0
BASE = 1 << 20  # the virtual clock starts 1024 s after time 0 (the bar's initial _last_write_time)
CUSTOM = {"msg": "%message% %current%/%max% [%bar%] %percent:3s%%", "two": "%current%/%max% [%bar%]\n%message%"}
NAMED = ("normal", "verbose", "very_verbose", "debug")
_ESC = re.compile(r"\x1b\[[0-9;?]*[ -/]*[@-~]|\r")


class Clock(object):
    """stands in for the `time` module inside clikit.ui.components.progress_bar; ticks of 1/1024 s keep every float
    subtraction the code performs exact"""

    def __init__(self):
        self.ticks = BASE

    def time(self):
        return self.ticks / TICKS_PER_S

    def sleep(self, s):
        self.ticks += int(round(s * TICKS_PER_S))


def _recording_stream(ansi=False):
    from clikit.io.output_stream import BufferedOutputStream

    class Recording(BufferedOutputStream):
        def __init__(self):
            super(Recording, self).__init__()
            self.chunks = []

        def supports_ansi(self):
            return ansi

        def write(self, string):
            n = len(self._buffer)
            super(Recording, self).write(string)
            self.chunks.append(self._buffer[n:])

    return Recording()


def build(cfg, via, how=None):
    """-> (stream, the object handed to ProgressBar).  via: output | io (an IO whose error output it is) | section
    (plain mode only: a section of a plain output).  how: whether an output decorates is decided by stream AND
    formatter - forced = non-ANSI stream + forced AnsiFormatter | stream = ANSI stream + AnsiFormatter (decorating);
    plainfmt = non-ANSI stream + PlainFormatter | ttyplain = ANSI stream + PlainFormatter (plain)"""
    from clikit.api.io import Input, IO, Output
    from clikit.api.io import flags as F
    from clikit.formatter import AnsiFormatter, PlainFormatter
    from clikit.io.input_stream import StringInputStream
    from clikit.io.output_stream import BufferedOutputStream

    mode = cfg["mode"]
    how = how or ("plainfmt" if mode == "plain" else "forced")
    stream = _recording_stream(how in ("stream", "ttyplain"))
    if mode == "plain":
        fmt = PlainFormatter()
    else:
        fmt = AnsiFormatter() if how == "stream" else AnsiFormatter(forced=True)
    out = Output(stream, fmt)
    verb = {"verbose": F.VERBOSE, "very_verbose": F.VERY_VERBOSE, "debug": F.DEBUG}.get(cfg["fmt"])
    if verb is not None:
        out.set_verbosity(verb)
    if mode == "quiet":
        out.set_quiet(True)
    for p in cfg["pre"]:  # what is on the terminal before the bar: put there by the harness itself
        stream.write("".join(p) + "\n")
    target = out
    if mode == "section" or via == "section":
        target = out.section()
        if verb is not None:
            target.set_verbosity(verb)
        for p in cfg.get("secpre", []):  # lines the section holds of its own before the bar is created
            target.write_line("".join(p))
    elif via == "io":
        target = IO(Input(StringInputStream("")), Output(BufferedOutputStream(), fmt), out)
    return stream, target


_PATS = {}


def frame_patterns(fmt):
    if fmt not in _PATS:
        _PATS[fmt] = _frame_patterns(fmt)
    return _PATS[fmt]


def _frame_patterns(fmt):
    """regular expressions for the frames of a format (named formats: with and without a maximum)"""
    from clikit.ui.components import ProgressBar

    if fmt in NAMED:
        sources = [ProgressBar.formats[fmt], ProgressBar.formats[fmt + "_nomax"]]
    else:
        sources = [CUSTOM[fmt]]
    field = {
        "current": r" *(?P<cur>-?\d+)", "max": r"(?P<max>-?\d+)", "bar": r"(?P<bar>[^\]\n]*)", "percent": r" *(?P<pct>-?\d+)",
        "elapsed": r"[^\n]*?", "estimated": r"[^\n]*?", "remaining": r"[^\n]*?", "message": r"(?P<msg>[^\n]*?)",
    }
    pats = []
    for src in sources:
        rx, pos = "", 0
        for m in re.finditer(r"%([a-z\-_]+)(?::([^%]+))?%", src):
            rx += re.escape(src[pos:m.start()]) + field.get(m.group(1), re.escape(m.group(0)))
            pos = m.end()
        rx += re.escape(src[pos:])
        rx = rx.replace("\\\n", " *\n")  # padding before the line break of a multi-line format
        pats.append(re.compile("^" + rx + r" *$", re.S))
    return pats


def project_frame(text, pats):
    """text of one write -> frame record for the specification"""
    lines = text.split("\n")
    f = {"ok": False, "cur": 0, "hasmax": False, "max": 0, "haspct": False, "pct": 0, "bar": [],
         "lines": [list(x) for x in lines]}
    for p in pats:
        m = p.match(text)
        if m:
            g = m.groupdict()
            f["ok"] = True
            f["cur"] = int(g["cur"])
            if g.get("max") is not None:
                f["hasmax"], f["max"] = True, int(g["max"])
            if g.get("pct") is not None:
                f["haspct"], f["pct"] = True, int(g["pct"])
            f["bar"] = list(g.get("bar") or "")
            break
    return f


DEFAULT_CHARS = {"bar": "", "empty": "-", "prog": [">"]}
# messages as handed to set_message -> what a viewer sees of them (markup removed; non-ASCII letters are one cell)
VISIBLE = {"<info>ok</info> go": "ok go", "<b>bold</b>": "bold"}


def visible(msg):
    return VISIBLE.get(msg, msg)


def run_case(case):
    """A case with a "pair" key runs two bars on two outputs with their calls interleaved under one clock and returns
    the trace of case["which"]."""
    import clikit.ui.components.progress_bar as pbmod

    base = case["pair"][0] if "pair" in case else case["trio"][0] if "trio" in case else case
    old_cols = os.environ.get("COLUMNS")
    old_time = pbmod.time
    os.environ["COLUMNS"] = str(base["cfg"]["w"])
    clock = Clock()
    pbmod.time = clock
    try:
        if "pair" in case:
            return run_pair(case, clock)[case["which"]]
        if "trio" in case:
            return run_trio(case, clock)
        r = Runner(case, clock)
        for op in case["ops"]:
            clock.ticks += op.get("dt", 0)
            r.step(op)
        return r.trace
    finally:
        pbmod.time = old_time
        if old_cols is None:
            os.environ.pop("COLUMNS", None)
        else:
            os.environ["COLUMNS"] = old_cols


def run_pair(case, clock):
    rs = [Runner(c, clock) for c in case["pair"]]
    pos = [0, 0]
    order = list(case["order"]) + [0] * len(case["pair"][0]["ops"]) + [1] * len(case["pair"][1]["ops"])
    for who in order:
        ops = case["pair"][who]["ops"]
        if pos[who] < len(ops):
            clock.ticks += ops[pos[who]].get("dt", 0)
            rs[who].step(ops[pos[who]])
            pos[who] += 1
    return [rs[0].trace, rs[1].trace]


def run_trio(case, clock):
    """several bars, each on its own section of ONE ANSI output, their calls interleaved -> one trace for
    ProgressBarsTrace (events carry the bar called; the sections are created in the order of the bars)"""
    from clikit.api.io import Output
    from clikit.formatter import AnsiFormatter

    bars = case["trio"]
    w = bars[0]["cfg"]["w"]
    ev = {"op": "init", "b": 0, "frames": [], "ops": [], "exc": "", "n": len(bars), "w": w, "pre": [list(p) for p in case["pre"]]}
    trace = [ev]
    try:
        stream = _recording_stream(case.get("how") == "stream")
        out = Output(stream, AnsiFormatter() if case.get("how") == "stream" else AnsiFormatter(forced=True))
        for p in case["pre"]:
            stream.write("".join(p) + "\n")
        ev["ops"] = termbytes.ops(stream.fetch())
        from clikit.api.io import flags as F

        rs = []
        for c in bars:
            sec = out.section()
            verb = {"verbose": F.VERBOSE, "very_verbose": F.VERY_VERBOSE, "debug": F.DEBUG}.get(c["cfg"]["fmt"])
            if verb is not None:
                sec.set_verbosity(verb)
            rs.append(Runner(c, clock, (stream, sec)))
    except Exception as e:  # noqa
        ev["exc"] = type(e).__name__
        return trace
    pos = [0] * len(bars)
    order = list(case["order"]) + [k for k, c in enumerate(bars) for _ in c["ops"]]
    for who in order:
        ops = bars[who]["ops"]
        if pos[who] < len(ops):
            clock.ticks += ops[pos[who]].get("dt", 0)
            n = len(rs[who].trace)
            rs[who].step(ops[pos[who]])
            pos[who] += 1
            if len(rs[who].trace) > n:
                e = rs[who].trace[-1]
                trace.append({"op": e["op"], "b": who + 1, "frames": e["frames"], "ops": e["ops"], "exc": e["exc"],
                              "n": 0, "w": 0, "pre": []})
    return trace


class _Dead(object):
    chunks = ()

    def fetch(self):
        return ""


class Runner(object):
    """one progress bar on one output; step() performs one call and appends the event with its observations.
    The event's dt is the time since this bar's previous call (other bars may have been called in between)."""

    def __init__(self, case, clock, built=None):
        from clikit.ui.components import ProgressBar

        self.case, self.clock = case, clock
        cfg = self.cfg = case["cfg"]
        self.conf = {"fmt": cfg["fmt"], "bw": cfg["bw"], "chars": cfg.get("chars", DEFAULT_CHARS)}
        cfg.setdefault("chars", DEFAULT_CHARS)
        cfg.setdefault("secpre", [])
        cfg.setdefault("freq", 1)
        self.msg = case.get("msg0", "m")
        self.nops = 0
        self.last = clock.ticks
        ev = {"op": "new", "arg": cfg["max0"], "dt": 0, "frames": [], "ops": [], "exc": "", "progress": 0,
              "maxsteps": max(0, cfg["max0"]), "msg": list(visible(self.msg)), "cfg": cfg, "conf": self.conf}
        self.stream, self.bar = _Dead(), None
        try:
            self.own = None
            if built is not None:  # several bars on the sections of one output: stream and section are given
                self.stream, target = built
                # the section re-prints the frames of the bars below it: what THIS bar wrote is taken where it hands
                # it to its section
                self.own = []
                inner = target.write

                def write(string, *a, **kw):
                    self.own.append(target.remove_format(string))
                    return inner(string, *a, **kw)

                target.write = write
            else:
                self.stream, target = build(cfg, case.get("via", "output"), case.get("how"))
                ev["ops"] = termbytes.ops(self.stream.fetch())
            secs = None if cfg["mingap"] == 103 else cfg["mingap"] / TICKS_PER_S  # 103 ticks: the default 0.1 s
            by_setter = case.get("mingap_by") == "setter" and cfg["mingap"] > 0
            if case.get("ctor") == "kw":  # equivalent spellings of the constructor call
                kw = {"max": cfg["max0"]}
                if by_setter:
                    kw["min_seconds_between_redraws"] = 0
                elif secs is not None:
                    kw["min_seconds_between_redraws"] = secs
                bar = ProgressBar(target, **kw)
            elif by_setter:
                bar = ProgressBar(target, cfg["max0"], 0)
            elif secs is None:
                bar = ProgressBar(target, cfg["max0"])
            else:
                bar = ProgressBar(target, cfg["max0"], secs)
            if cfg["freq"] != 1:
                bar.set_redraw_frequency(cfg["freq"])
            if by_setter:
                bar.min_seconds_between_redraws(0.1 if secs is None else secs)
            if cfg["maxgap"] != 1024:
                bar.max_seconds_between_redraws(cfg["maxgap"] / TICKS_PER_S)
            bar.set_bar_width(cfg["bw"])
            self._set_chars(bar, cfg["chars"])
            bar.set_message(self.msg)  # (a later set_format may bring the message into the frame)
            if cfg["fmt"] in CUSTOM:
                bar.set_format(CUSTOM[cfg["fmt"]])
            self.bar = bar
        except Exception as e:  # noqa: a failing constructor / setter is an observation too
            ev["exc"] = type(e).__name__
        self.trace = [ev]

    @staticmethod
    def _set_chars(bar, chars):
        bar.set_bar_character(chars["bar"] or None)
        bar.set_empty_bar_character(chars["empty"])
        bar.set_progress_character("".join(chars["prog"]))

    def step(self, op):
        if self.bar is None:
            return
        bar, stream, cfg = self.bar, self.stream, self.cfg
        k = op["op"]
        self.nops += 1
        alt = self.nops % 2 == 0  # equivalent spellings of a call alternate
        mark, nchunks = len(stream.fetch()), len(stream.chunks)
        timed = k not in ("msg", "fmt", "bw", "chars")  # setters do not look at the clock: their time counts for the next call
        ev = {"op": k, "arg": op.get("arg", 0), "dt": (self.clock.ticks - self.last) if timed else 0, "frames": [],
              "ops": [], "exc": "", "progress": 0, "maxsteps": 0, "msg": list(visible(self.msg)), "conf": self.conf}
        if timed:
            self.last = self.clock.ticks
        try:
            if k == "start":
                if op["arg"] < 0:
                    bar.start()
                elif alt:
                    bar.start(max=op["arg"])
                else:
                    bar.start(op["arg"])
            elif k == "advance":
                if op["arg"] == 1 and alt:
                    bar.advance()
                elif alt:
                    bar.advance(step=op["arg"])
                else:
                    bar.advance(op["arg"])
            elif k == "set":
                bar.set_progress(op["arg"])
            elif k == "display":
                bar.display()
            elif k == "clear":
                bar.clear()
            elif k == "finish":
                bar.finish()
            elif k == "msg":
                self.msg = op["text"]
                bar.set_message(self.msg)
                ev["msg"] = list(visible(self.msg))
            elif k in ("fmt", "bw", "chars"):  # reconfiguration between draws
                conf = dict(self.conf)
                if k == "fmt":
                    conf["fmt"] = op["fmt"]
                    bar.set_format(CUSTOM.get(op["fmt"], op["fmt"]))
                elif k == "bw":
                    conf["bw"] = op["bw"]
                    bar.set_bar_width(op["bw"])
                else:
                    conf["chars"] = op["chars"]
                    self._set_chars(bar, op["chars"])
                self.conf = ev["conf"] = conf
            else:
                raise T.MachineryError("unknown op %r" % (k,))
        except T.MachineryError:
            raise
        except Exception as e:  # noqa: every exception kind is an observation
            ev["exc"] = type(e).__name__
        pats = frame_patterns(self.conf["fmt"])
        ev["ops"] = termbytes.ops(stream.fetch()[mark:])
        written = stream.chunks[nchunks:]
        if self.own is not None:
            written, self.own[:] = [c + "\n" for c in self.own], []
        for chunk in written:  # one write = one frame ...
            text = _ESC.sub("", chunk)
            if cfg["mode"] == "section" and text.endswith("\n"):
                text = text[:-1]  # a section output terminates what it writes
            if text.strip(" \n"):
                ev["frames"].append(project_frame(text, pats))
        if not all(f["ok"] for f in ev["frames"]):  # ... unless the call put one frame on the stream in pieces
            whole = project_frame(_ESC.sub("", "".join(written)).strip("\n"), pats)
            if whole["ok"]:
                ev["frames"] = [whole]
        try:
            ev["progress"], ev["maxsteps"] = int(bar.get_progress()), int(bar.get_max_steps())
        except Exception:  # noqa
            ev["progress"], ev["maxsteps"] = -99, -99
        self.trace.append(ev)


def check_known(trace, cfg):
    if cfg["mode"] != "plain":
        for ev in trace:
            bad = termbytes.unknown(ev["ops"])
            if bad:
                raise T.MachineryError("the stream contains terminal codes the Terminal model does not know: %s" % bad[:5])


def _conf(c):
    return {"fmt": c["fmt"], "bw": c["bw"],
            "chars": {"bar": c["chars"]["bar"], "empty": c["chars"]["empty"], "prog": list(c["chars"]["prog"])}}


def case_of_behaviour(b):
    """events[0] is the "new" event (it carries the configuration the bar is created with; `cfg` is printed as it is at
    the end of the behaviour, after set_format / set_bar_width / character setters)"""
    ops = []
    for e in b["events"][1:]:
        op = {"op": e["op"], "arg": e["arg"], "dt": e["dt"]}
        if e["op"] == "msg":
            op["text"] = "".join(e["msg"])
        elif e["op"] in ("fmt", "bw", "chars"):
            op.update(_conf(e["conf"]))
        ops.append(op)
    cfg = dict(b["cfg"])
    cfg["pre"] = [list(x) for x in cfg["pre"]]
    cfg["secpre"] = [list(x) for x in cfg.get("secpre", [])]
    cfg.update(_conf(b["events"][0]["conf"]))
    return {"cfg": cfg, "ops": ops, "msg0": "m"}


def _rtrim(cells):
    s = "".join(cells).rstrip(" ")
    return list(s)


def same(b, trace):
    if len(trace) != len(b["events"]):
        return False
    for e, o in zip(b["events"][1:], trace[1:]):
        if o["exc"] or o["progress"] != e["progress"] or o["maxsteps"] != e["maxsteps"] or len(o["frames"]) != len(e["frames"]):
            return False
        if o["ops"] != [dict(k=x["k"], n=x["n"], s=list(x["s"])) for x in e["ops"]]:
            return False
        for f, g in zip(e["frames"], o["frames"]):
            for key in ("ok", "cur", "hasmax", "max", "haspct", "pct"):
                if f[key] != g[key]:
                    return False
            if list(f["bar"]) != g["bar"] or [_rtrim(x) for x in f["lines"]] != [_rtrim(x) for x in g["lines"]]:
                return False
    return True


def nontrivial(case):
    """the sequence advances the bar at least twice and either runs with a throttle or reaches / passes the maximum"""
    adv = sum(1 for op in case["ops"] if op["op"] in ("advance", "set"))
    return adv >= 2 and (case["cfg"]["mingap"] > 0 or any(op["op"] in ("finish", "clear", "start") for op in case["ops"]))


# ------------------------------------------------------------------------------------------------ random cases
# messages with markup: only once the padding defect (notes, audit finding) is repaired - _overwrite pads the raw line
# a section that already holds lines of its own when the bar is created: only once the first-frame defect (notes,
# triage of fb049da09d8b) is repaired - the first display clears one line of the section although the bar has not
# written anything yet.  After the repair also set MCSecPre <- OneSecPre in MC_ProgressBar_emit_custom_quick.cfg.
SECTION_CONTENT_ABOVE = True
MARKUP_MESSAGES = True
MESSAGES = ["m", "", "hello", "a much longer message", "x y", u"gr\u00fc\u00df"] + (
    ["<info>ok</info> go", "<b>bold</b>"] if MARKUP_MESSAGES else [])
CHARSETS = [DEFAULT_CHARS, DEFAULT_CHARS, {"bar": "#", "empty": "~", "prog": []}, {"bar": "", "empty": ".", "prog": ["*"]},
            {"bar": "o", "empty": "_", "prog": [">"]}]
PLAIN_FAMILY = ["normal", "msg"]          # single-line formats the A-layer renders: exchanged for one another
VERBOSE_FAMILY = ["verbose", "very_verbose", "debug"]


def random_case(rng, maxlen=60):
    mode = rng.choice(["ansi", "ansi", "ansi", "plain", "plain", "section", "section", "quiet"])
    fmt = rng.choice(["normal", "normal", "normal", "msg", "msg", "two", "verbose", "very_verbose", "debug"])
    max0 = rng.choice([0, 1, 3, 10, 50, 200, -1])
    # (minimum, maximum) interval in ticks; the last three: a minimum LONGER than the maximum (the throttle must win)
    mingap, maxgap = rng.choice([(0, 1024), (0, 1024), (0, 2048), (103, 1024), (103, 1024), (128, 1024), (512, 1024),
                                 (512, 2048), (2048, 1024), (103, 51), (128, 64)])
    cfg = {"mode": mode, "bw": rng.choice([1, 2, 4, 10, 28, 40, rng.randint(1, 40)]), "mingap": mingap,
           "maxgap": maxgap, "freq": rng.choice([1, 1, 2, 5]), "fmt": fmt,
           "chars": rng.choice(CHARSETS), "w": 200,
           "pre": [] if fmt == "two" else [list(rng.choice(["##", "# #"])) for _ in range(rng.choice([0, 1, 1, 2]))], "max0": max0}
    case = {"cfg": cfg, "ops": [], "msg0": rng.choice(MESSAGES),
            "via": rng.choice(["output", "output", "io"]) if mode != "plain" else rng.choice(["output", "output", "io", "section"]),
            "how": rng.choice(["plainfmt", "ttyplain"] if mode == "plain" else ["forced", "stream"]),
            "ctor": rng.choice(["pos", "kw"]), "mingap_by": rng.choice(["ctor", "setter"])}
    if mode in ("section", "quiet"):
        case["via"] = "output"
    if SECTION_CONTENT_ABOVE and mode == "section" and fmt != "two" and rng.random() < 0.6:
        cfg["secpre"] = [list(rng.choice(["sec", "s s", "section line"])) for _ in range(rng.choice([1, 1, 2]))]
    if mode == "section" and fmt != "two" and rng.random() < 0.5:
        cfg["w"] = rng.choice([20, 24, 31, 40, 45])  # the section folds the frame; COLUMNS is what the section sees
    family = PLAIN_FAMILY if fmt in PLAIN_FAMILY else VERBOSE_FAMILY if fmt in VERBOSE_FAMILY else []
    has_max = max0 > 0
    for _ in range(rng.randint(2, maxlen)):
        x = rng.random()
        dt = rng.choice([0, 0, 10, 51, 51, 205, 2048])
        if x < 0.1:
            m = rng.choice([-1, -1, 0, 1, 3, 10, 50, 200])
            if fmt in VERBOSE_FAMILY and m == 0:
                m = -1  # very_verbose / debug refuse (RuntimeError, by design) to estimate without a maximum
            op = {"op": "start", "arg": m}
        elif x < 0.5:
            op = {"op": "advance", "arg": rng.choice([1, 1, 1, 2, 5, 7, 29, -1, 0])}
        elif x < 0.64:
            top = max(max0, 10)
            op = {"op": "set", "arg": rng.choice([rng.randint(0, top), rng.randint(0, top), -1, 0, top, top + 2, 58, 29])}
        elif x < 0.71:
            op = {"op": "display", "arg": 0}
        elif x < 0.78:
            op = {"op": "clear", "arg": 0}
        elif x < 0.84 and fmt in CUSTOM:
            op = {"op": "msg", "arg": 0, "text": rng.choice(MESSAGES)}
            dt = 0
        elif x < 0.9:  # reconfiguration between draws
            y = rng.random()
            dt = 0
            if y < 0.35 and family:
                op = {"op": "fmt", "arg": 0, "fmt": rng.choice(family)}
            elif y < 0.7:
                op = {"op": "bw", "arg": 0, "bw": rng.choice([1, 3, 4, 12, 28])}
            else:
                op = {"op": "chars", "arg": 0, "chars": rng.choice(CHARSETS)}
        else:
            op = {"op": "finish", "arg": 0}
        op["dt"] = dt
        case["ops"].append(op)
    return case


def random_trio(rng):
    """three (sometimes four) bars on as many sections of one ANSI output"""
    bars = []
    for _ in range(rng.choice([3, 3, 3, 4])):
        c = random_case(rng, 14)
        while c["cfg"]["fmt"] not in ("normal", "msg", "verbose"):
            c = random_case(rng, 14)
        c["cfg"].update(mode="section", w=200, pre=[])
        c["via"] = "output"
        bars.append(c)
    n = sum(len(c["ops"]) for c in bars)
    return {"trio": bars, "pre": [list(rng.choice(["##", "# #"])) for _ in range(rng.choice([0, 1, 2]))],
            "how": rng.choice(["forced", "stream"]), "order": [rng.randrange(len(bars)) for _ in range(n)]}


def random_pair(rng):
    """two bars alive at the same time on two different outputs, one clock"""
    ca, cb = random_case(rng, 30), random_case(rng, 30)
    if ca["cfg"]["mode"] == cb["cfg"]["mode"] == "section":
        cb["cfg"]["w"] = ca["cfg"]["w"]  # one COLUMNS for both; only a section folds frames
    else:
        ca["cfg"]["w"] = cb["cfg"]["w"] = 200
    n = len(ca["ops"]) + len(cb["ops"])
    return {"pair": [ca, cb], "order": [rng.randint(0, 1) for _ in range(n)]}


def sweep_case(mx, mode):
    """every step of a bar with maximum mx (test_percent / test_non_decorated_output lifted to all steps)"""
    cfg = {"mode": mode, "bw": 28, "mingap": 0, "maxgap": 1024, "freq": 1, "fmt": "normal", "chars": DEFAULT_CHARS, "w": 200,
           "pre": [list("##")], "max0": mx}
    ops = [{"op": "start", "arg": -1, "dt": 0}] + [{"op": "set", "arg": n, "dt": 1} for n in range(1, mx + 1)]
    return {"cfg": cfg, "ops": ops + [{"op": "finish", "arg": 0, "dt": 0}], "msg0": "m", "via": "output"}


def fit_case(w, n, mode="section"):
    """a bar in an ANSI section whose frames are n + 18 cells long on a terminal of width w: with n chosen so that the
    frame is exactly 1x / 2x the width (and one cell less / more), below a line printed before the bar"""
    cfg = {"mode": mode, "bw": 4, "mingap": 0, "maxgap": 1024, "freq": 1, "fmt": "msg", "chars": DEFAULT_CHARS, "w": w,
           "pre": [list("##")], "max0": 10}
    ops = [{"op": "start", "arg": -1, "dt": 0}] + [{"op": "advance", "arg": k, "dt": 205} for k in (1, 2, 1)]
    ops += [{"op": "display", "arg": 0, "dt": 0}, {"op": "clear", "arg": 0, "dt": 0}, {"op": "advance", "arg": 3, "dt": 51},
            {"op": "msg", "arg": 0, "dt": 0, "text": "y" * n}, {"op": "advance", "arg": 1, "dt": 51}, {"op": "finish", "arg": 0, "dt": 0}]
    return {"cfg": cfg, "ops": ops, "msg0": "x" * n, "via": "output"}


# ------------------------------------------------------------------------------------------------ the check
def run(ctx):
    quick = ctx.tier == "quick"
    ctx.rule = (
        "TLC checks the frame / throttle / finish / screen clauses on every reachable state and transition of the "
        "ProgressBar model (A-layer of progress_bar.py on the cell-level Terminal model, exact integer arithmetic, time "
        "in ticks of 1/1024 s; all sequences of start / advance / set_progress / display / clear / finish / set_message "
        "with clock advances up to the depth bound, over ANSI / plain / section / quiet outputs, bar widths, minimum "
        "intervals, formats and maxima); the call sequence TLC found for every reachable state at the depth bound and "
        "random longer ones (-simulate, maxima 50 and 200) are replayed on the real ProgressBar under a virtual clock and "
        "compared per call (frames, bytes as terminal ops, progress); seeded random sequences (<= 60 calls, bar widths "
        "1..40, six formats incl. elapsed/estimated, messages of varying length) and one sweep over every step of maxima "
        "50 and 200 are validated by ProgressBarTrace.  Non-trivial: >= 2 advancing calls with a throttle in force or "
        "together with start/clear/finish"
    )
    ctx.assumptions += [
        "virtual clock in ticks of 1/1024 s starting 1024 s after time 0; an interval of 0.1 s is 103 ticks or more",
        "the frame fits into the terminal width (COLUMNS = 200 in recorded runs, 60 in the model); every character is one cell wide",
        "terminal of unbounded height; cooked-tty newline; deferred wrap",
        "percentage = floor(100 * step / max); frames of a maximum-less bar carry neither maximum nor percentage",
        "only the bar writes to the stream while it is in use; very_verbose/debug formats are not combined with start(0)",
    ]
    for cfg, name in ([("MC_ProgressBar_quick.cfg", "state-space all modes"), ("MC_ProgressBar_custom_quick.cfg", "custom formats")]
                      if quick else
                      [("MC_ProgressBar_thorough.cfg", "state-space all modes"), ("MC_ProgressBar_custom.cfg", "custom formats"),
                       ("MC_ProgressBar_deep.cfg", "deep, throttle")]):
        ctx.model(SPEC, "MC_ProgressBar", cfg, name=name, workers=8)
    ctx.exhaustive = True

    traces, cases = [], []
    seen = set()
    mid = []
    opseen = {}

    def replay_emitted(r):
        for line in r.lines:
            b = T.parse_emit(line)
            if b is None:
                continue
            key = hash(line)
            if key in seen:
                continue
            seen.add(key)
            case = case_of_behaviour(b)
            for op in case["ops"]:
                opseen[op["op"]] = opseen.get(op["op"], 0) + 1
            case["via"] = "io" if len(seen) % 3 == 0 and case["cfg"]["mode"] in ("ansi", "plain") else "output"
            hows = ("plainfmt", "ttyplain") if case["cfg"]["mode"] == "plain" else ("forced", "stream")
            case["how"] = hows[(len(seen) // 3) % 2]
            case["ctor"] = ("pos", "kw")[(len(seen) // 6) % 2]
            case["mingap_by"] = ("ctor", "setter")[(len(seen) // 12) % 2]
            tr = run_case(case)
            check_known(tr, case["cfg"])
            ctx.count()
            if nontrivial(case):
                ctx.nontriv(key)
            if not same(b, tr):
                traces.append(tr)
                cases.append(case)
            if len(seen) % 5000 == 1:
                mid[:] = [case]
        r.lines = []

    for cfg in (["MC_ProgressBar_emit_quick.cfg", "MC_ProgressBar_emit_custom_quick.cfg"] if quick
                else ["MC_ProgressBar_emit_thorough.cfg", "MC_ProgressBar_emit_custom.cfg"]):
        r = ctx.model(SPEC, "MC_ProgressBar", cfg, name="behaviours (state cover) " + cfg, workers=8)
        opseen.clear()
        replay_emitted(r)
        idle = [a for a in OPS + (["msg", "fmt", "bw", "chars"] if "custom" in cfg else []) if not opseen.get(a)]
        if idle:  # vacuity: every kind of call occurs in the behaviours that were replayed (-coverage is too slow here)
            raise T.MachineryError("calls never taken in the behaviours of %s: %s" % (cfg, idle))
    ncover = len(seen)
    r = ctx.model(SPEC, "MC_ProgressBar", "MC_ProgressBar_sim.cfg", name="simulate", simulate="num=%d" % (100 if quick else 1000),
                  depth=32, workers=1, seed=ctx.seed % 100000)
    replay_emitted(r)
    if ncover < 1000 or len(seen) <= ncover:
        raise T.MachineryError("too few behaviours emitted (%d, %d)" % (ncover, len(seen)))
    ctx.extra["tlc_behaviours_replayed"] = len(seen)
    ctx.extra["tlc_behaviours_not_reproduced"] = len(traces)
    ctx.sample({"tlc_behaviour": mid[0]})

    # code -> spec
    for mx in (50, 200):
        for mode in ("ansi", "plain"):
            case = sweep_case(mx, mode)
            traces.append(run_case(case))
            cases.append(case)
            ctx.count()
            ctx.nontriv(("sweep", mx, mode))
    for w in (20, 23):  # frames of w-1, w, w+1, 2w-1, 2w, 2w+1 cells in an ANSI section of width w
        for n in (w - 19, w - 18, w - 17, 2 * w - 19, 2 * w - 18, 2 * w - 17):
            case = fit_case(w, n)
            tr = run_case(case)
            check_known(tr, case["cfg"])
            traces.append(tr)
            cases.append(case)
            ctx.count()
            ctx.nontriv(("fit", w, n))
    for t in range(500 if quick else 5000):
        case = random_case(ctx.rng)
        tr = run_case(case)
        check_known(tr, case["cfg"])
        traces.append(tr)
        cases.append(case)
        ctx.count()
        if nontrivial(case):
            ctx.nontriv(("r", t))
    ctx.sample({"random_case": {k: (v[:10] if k == "ops" else v) for k, v in cases[-1].items()}})
    for t in range(60 if quick else 600):  # two bars alive at the same time
        pc = random_pair(ctx.rng)
        for which in (0, 1):
            c = dict(pc, which=which)
            tr = run_case(c)
            check_known(tr, pc["pair"][which]["cfg"])
            traces.append(tr)
            cases.append(c)
            ctx.count()
            ctx.nontriv(("p", t, which))
    ctx.validate(SPEC, "ProgressBarTrace", "ProgressBarTrace.cfg", traces, cases=cases, name="recorded-sequences")

    trios, tcases = [], []
    for t in range(80 if quick else 1000):  # three or four bars alive on the sections of one output
        tc = random_trio(ctx.rng)
        tr = run_case(tc)
        for ev in tr:
            if termbytes.unknown(ev["ops"]):
                raise T.MachineryError("the stream contains terminal codes the Terminal model does not know")
        trios.append(tr)
        tcases.append(tc)
        ctx.count()
        ctx.nontriv(("t", t))
    ctx.validate(SPEC, "ProgressBarsTrace", "ProgressBarsTrace.cfg", trios, cases=tcases, name="several bars on one output")

    # extension beyond the listed property (A-clauses only): time texts, placeholder family, redraw frequency, messages
    # with a line break
    from harness.props import ext_bar

    run_extension(ctx, "bar", ext_bar.run_ext)


def replay(ctx, path):
    d = json.load(open(path))
    c = d["case"]
    ctx.count()
    ctx.nontriv(1)
    ctx.nontriv(2)
    ctx.sample(c)
    tr = run_case(c)
    if "trio" in c:
        ctx.validate(SPEC, "ProgressBarsTrace", "ProgressBarsTrace.cfg", [tr], cases=[c], name="replay")
        return
    check_known(tr, (c["pair"][c["which"]] if "pair" in c else c)["cfg"])
    ctx.validate(SPEC, "ProgressBarTrace", "ProgressBarTrace.cfg", [tr], cases=[c], name="replay")
