"""C16  ProgressBar.  Drives the real progress bar under a virtual clock along TLC behaviours and seeded random call
sequences; records per call the writes that reached the stream (tokenised into terminal ops, frames projected into
[current, max, percent, bar cells]) and lets TLC decide (ProgressBarTrace).  No verdict logic here."""
import json
import os
import re

from harness.engine import termbytes
from harness.engine import tlc as T

SPEC = os.path.join(T.SPECS, "ProgressBar")
OPS = ["start", "advance", "set", "display", "clear", "finish"]
TICKS_PER_S = 1024.0
BASE = 1 << 20  # the virtual clock starts 1024 s after time 0 (the bar's initial _last_write_time)
CUSTOM = {"msg": "%message% %current%/%max% [%bar%] %percent:3s%%", "two": "%current%/%max% [%bar%]\n%message%"}
NAMED = ("normal", "verbose", "very_verbose", "debug")
_ESC = re.compile(r"\x1b\[[0-9;?]*[ -/]*[@-~]|\r")


class Clock(object):
    """stands in for the `time` module inside clikit.ui.components.progress_bar; ticks of 1/1024 s keep every float
    subtraction the code performs exact"""

    def __init__(self):
        self.ticks = BASE

    def time(self):
        return self.ticks / TICKS_PER_S

    def sleep(self, s):
        self.ticks += int(round(s * TICKS_PER_S))


def _recording_stream():
    from clikit.io.output_stream import BufferedOutputStream

    class Recording(BufferedOutputStream):
        def __init__(self):
            super(Recording, self).__init__()
            self.chunks = []

        def write(self, string):
            n = len(self._buffer)
            super(Recording, self).write(string)
            self.chunks.append(self._buffer[n:])

    return Recording()


def build(cfg, via):
    """-> (stream, the object handed to ProgressBar).  via: output | io (an IO whose error output it is) | section
    (plain mode only: a section of a plain output)"""
    from clikit.api.io import Input, IO, Output
    from clikit.api.io import flags as F
    from clikit.formatter import AnsiFormatter, PlainFormatter
    from clikit.io.input_stream import StringInputStream
    from clikit.io.output_stream import BufferedOutputStream

    stream = _recording_stream()
    mode = cfg["mode"]
    fmt = PlainFormatter() if mode == "plain" else AnsiFormatter(forced=True)
    out = Output(stream, fmt)
    verb = {"verbose": F.VERBOSE, "very_verbose": F.VERY_VERBOSE, "debug": F.DEBUG}.get(cfg["fmt"])
    if verb is not None:
        out.set_verbosity(verb)
    if mode == "quiet":
        out.set_quiet(True)
    for p in cfg["pre"]:  # what is on the terminal before the bar: put there by the harness itself
        stream.write("".join(p) + "\n")
    target = out
    if mode == "section" or via == "section":
        target = out.section()
        if verb is not None:
            target.set_verbosity(verb)
    elif via == "io":
        target = IO(Input(StringInputStream("")), Output(BufferedOutputStream(), fmt), out)
    return stream, target


def frame_patterns(fmt):
    """regular expressions for the frames of a format (named formats: with and without a maximum)"""
    from clikit.ui.components import ProgressBar

    if fmt in NAMED:
        sources = [ProgressBar.formats[fmt], ProgressBar.formats[fmt + "_nomax"]]
    else:
        sources = [CUSTOM[fmt]]
    field = {
        "current": r" *(?P<cur>-?\d+)", "max": r"(?P<max>-?\d+)", "bar": r"(?P<bar>[^\]\n]*)", "percent": r" *(?P<pct>-?\d+)",
        "elapsed": r"[^\n]*?", "estimated": r"[^\n]*?", "remaining": r"[^\n]*?", "message": r"(?P<msg>[^\n]*?)",
    }
    pats = []
    for src in sources:
        rx, pos = "", 0
        for m in re.finditer(r"%([a-z\-_]+)(?::([^%]+))?%", src):
            rx += re.escape(src[pos:m.start()]) + field.get(m.group(1), re.escape(m.group(0)))
            pos = m.end()
        rx += re.escape(src[pos:])
        rx = rx.replace("\\\n", " *\n")  # padding before the line break of a multi-line format
        pats.append(re.compile("^" + rx + r" *$", re.S))
    return pats


def project_frame(text, pats):
    """text of one write -> frame record for the specification"""
    lines = text.split("\n")
    f = {"ok": False, "cur": 0, "hasmax": False, "max": 0, "haspct": False, "pct": 0, "bar": [],
         "lines": [list(x) for x in lines]}
    for p in pats:
        m = p.match(text)
        if m:
            g = m.groupdict()
            f["ok"] = True
            f["cur"] = int(g["cur"])
            if g.get("max") is not None:
                f["hasmax"], f["max"] = True, int(g["max"])
            if g.get("pct") is not None:
                f["haspct"], f["pct"] = True, int(g["pct"])
            f["bar"] = list(g.get("bar") or "")
            break
    return f


def run_case(case):
    import clikit.ui.components.progress_bar as pbmod

    cfg = case["cfg"]
    old_cols = os.environ.get("COLUMNS")
    old_time = pbmod.time
    os.environ["COLUMNS"] = str(cfg["w"])
    clock = Clock()
    pbmod.time = clock
    try:
        return _run_case(case, cfg, clock)
    finally:
        pbmod.time = old_time
        if old_cols is None:
            os.environ.pop("COLUMNS", None)
        else:
            os.environ["COLUMNS"] = old_cols


def _run_case(case, cfg, clock):
    from clikit.ui.components import ProgressBar

    stream, target = build(cfg, case.get("via", "output"))
    pats = frame_patterns(cfg["fmt"])
    msg = case.get("msg0", "m")
    ev = {"op": "new", "arg": cfg["max0"], "dt": 0, "frames": [], "ops": termbytes.ops(stream.fetch()), "exc": "",
          "progress": 0, "maxsteps": cfg["max0"], "msg": list(msg), "cfg": cfg}
    if cfg["mingap"] == 103:
        bar = ProgressBar(target, cfg["max0"])  # the default: 0.1 s
    else:
        bar = ProgressBar(target, cfg["max0"], cfg["mingap"] / TICKS_PER_S)
    if cfg["maxgap"] != 1024:
        bar.max_seconds_between_redraws(cfg["maxgap"] / TICKS_PER_S)
    bar.set_bar_width(cfg["bw"])
    if cfg["fmt"] in CUSTOM:
        bar.set_format(CUSTOM[cfg["fmt"]])
        bar.set_message(msg)
    trace = [ev]
    for op in case["ops"]:
        k = op["op"]
        clock.ticks += op.get("dt", 0)
        mark, nchunks = len(stream.fetch()), len(stream.chunks)
        ev = {"op": k, "arg": op.get("arg", 0), "dt": op.get("dt", 0), "frames": [], "ops": [], "exc": "",
              "progress": 0, "maxsteps": 0, "msg": list(msg)}
        try:
            if k == "start":
                bar.start() if op["arg"] < 0 else bar.start(op["arg"])
            elif k == "advance":
                bar.advance(op["arg"])
            elif k == "set":
                bar.set_progress(op["arg"])
            elif k == "display":
                bar.display()
            elif k == "clear":
                bar.clear()
            elif k == "finish":
                bar.finish()
            elif k == "msg":
                msg = op["text"]
                bar.set_message(msg)
                ev["msg"] = list(msg)
            else:
                raise T.MachineryError("unknown op %r" % (k,))
        except T.MachineryError:
            raise
        except Exception as e:  # noqa: every exception kind is an observation
            ev["exc"] = type(e).__name__
        ev["ops"] = termbytes.ops(stream.fetch()[mark:])
        for chunk in stream.chunks[nchunks:]:  # one write = one frame ...
            text = _ESC.sub("", chunk)
            if cfg["mode"] == "section" and text.endswith("\n"):
                text = text[:-1]  # a section output terminates what it writes
            if text.strip(" \n"):
                ev["frames"].append(project_frame(text, pats))
        if not all(f["ok"] for f in ev["frames"]):  # ... unless the call put one frame on the stream in pieces
            whole = project_frame(_ESC.sub("", "".join(stream.chunks[nchunks:])).strip("\n"), pats)
            if whole["ok"]:
                ev["frames"] = [whole]
        try:
            ev["progress"], ev["maxsteps"] = int(bar.get_progress()), int(bar.get_max_steps())
        except Exception:  # noqa
            ev["progress"], ev["maxsteps"] = -99, -99
        trace.append(ev)
    return trace


def check_known(trace, cfg):
    if cfg["mode"] != "plain":
        for ev in trace:
            bad = termbytes.unknown(ev["ops"])
            if bad:
                raise T.MachineryError("the stream contains terminal codes the Terminal model does not know: %s" % bad[:5])


def case_of_behaviour(b):
    ops = []
    for e in b["events"]:
        op = {"op": e["op"], "arg": e["arg"], "dt": e["dt"]}
        if e["op"] == "msg":
            op["text"] = "".join(e["msg"])
        ops.append(op)
    cfg = dict(b["cfg"])
    cfg["pre"] = [list(x) for x in cfg["pre"]]
    return {"cfg": cfg, "ops": ops, "msg0": "m"}


def _rtrim(cells):
    s = "".join(cells).rstrip(" ")
    return list(s)


def same(b, trace):
    if len(trace) != len(b["events"]) + 1:
        return False
    for e, o in zip(b["events"], trace[1:]):
        if o["exc"] or o["progress"] != e["progress"] or o["maxsteps"] != e["maxsteps"] or len(o["frames"]) != len(e["frames"]):
            return False
        if o["ops"] != [dict(k=x["k"], n=x["n"], s=list(x["s"])) for x in e["ops"]]:
            return False
        for f, g in zip(e["frames"], o["frames"]):
            for key in ("ok", "cur", "hasmax", "max", "haspct", "pct"):
                if f[key] != g[key]:
                    return False
            if list(f["bar"]) != g["bar"] or [_rtrim(x) for x in f["lines"]] != [_rtrim(x) for x in g["lines"]]:
                return False
    return True


def nontrivial(case):
    """the sequence advances the bar at least twice and either runs with a throttle or reaches / passes the maximum"""
    adv = sum(1 for op in case["ops"] if op["op"] in ("advance", "set"))
    return adv >= 2 and (case["cfg"]["mingap"] > 0 or any(op["op"] in ("finish", "clear", "start") for op in case["ops"]))


# ------------------------------------------------------------------------------------------------ random cases
MESSAGES = ["m", "", "hello", "a much longer message", "x y"]


def random_case(rng, maxlen=60):
    mode = rng.choice(["ansi", "ansi", "ansi", "plain", "plain", "section", "section", "quiet"])
    fmt = rng.choice(["normal", "normal", "normal", "msg", "msg", "two", "verbose", "very_verbose", "debug"])
    max0 = rng.choice([0, 1, 3, 10, 50, 200])
    cfg = {"mode": mode, "bw": rng.choice([1, 2, 4, 10, 28, 40, rng.randint(1, 40)]), "mingap": rng.choice([0, 0, 103, 103, 128, 512]),
           "maxgap": rng.choice([1024, 1024, 1024, 2048]), "fmt": fmt, "w": 200,
           "pre": [] if fmt == "two" else [list(rng.choice(["##", "# #"])) for _ in range(rng.choice([0, 1, 1, 2]))], "max0": max0}
    case = {"cfg": cfg, "ops": [], "msg0": rng.choice(MESSAGES),
            "via": rng.choice(["output", "output", "io"]) if mode != "plain" else rng.choice(["output", "output", "io", "section"])}
    if mode in ("section", "quiet"):
        case["via"] = "output"
    for _ in range(rng.randint(2, maxlen)):
        x = rng.random()
        dt = rng.choice([0, 0, 10, 51, 51, 205, 2048])
        if x < 0.1:
            m = rng.choice([-1, -1, 0, 1, 3, 10, 50, 200])
            if fmt in ("very_verbose", "debug") and m == 0:
                m = -1  # those formats refuse (RuntimeError, by design) to estimate without a maximum
            op = {"op": "start", "arg": m}
        elif x < 0.55:
            op = {"op": "advance", "arg": rng.choice([1, 1, 1, 2, 5, 7, 29, -1])}
        elif x < 0.7:
            top = max(max0, 10)
            op = {"op": "set", "arg": rng.choice([rng.randint(0, top), rng.randint(0, top), -1, top, top + 2, 58, 29])}
        elif x < 0.78:
            op = {"op": "display", "arg": 0}
        elif x < 0.86:
            op = {"op": "clear", "arg": 0}
        elif x < 0.93 and fmt in CUSTOM:
            op = {"op": "msg", "arg": 0, "text": rng.choice(MESSAGES)}
            dt = 0
        else:
            op = {"op": "finish", "arg": 0}
        op["dt"] = dt
        case["ops"].append(op)
    return case


def sweep_case(mx, mode):
    """every step of a bar with maximum mx (test_percent / test_non_decorated_output lifted to all steps)"""
    cfg = {"mode": mode, "bw": 28, "mingap": 0, "maxgap": 1024, "fmt": "normal", "w": 200, "pre": [list("##")], "max0": mx}
    ops = [{"op": "start", "arg": -1, "dt": 0}] + [{"op": "set", "arg": n, "dt": 1} for n in range(1, mx + 1)]
    return {"cfg": cfg, "ops": ops + [{"op": "finish", "arg": 0, "dt": 0}], "msg0": "m", "via": "output"}


# ------------------------------------------------------------------------------------------------ the check
def run(ctx):
    quick = ctx.tier == "quick"
    ctx.rule = (
        "TLC checks the frame / throttle / finish / screen clauses on every reachable state and transition of the "
        "ProgressBar model (A-layer of progress_bar.py on the cell-level Terminal model, exact integer arithmetic, time "
        "in ticks of 1/1024 s; all sequences of start / advance / set_progress / display / clear / finish / set_message "
        "with clock advances up to the depth bound, over ANSI / plain / section / quiet outputs, bar widths, minimum "
        "intervals, formats and maxima); the call sequence TLC found for every reachable state at the depth bound and "
        "random longer ones (-simulate, maxima 50 and 200) are replayed on the real ProgressBar under a virtual clock and "
        "compared per call (frames, bytes as terminal ops, progress); seeded random sequences (<= 60 calls, bar widths "
        "1..40, six formats incl. elapsed/estimated, messages of varying length) and one sweep over every step of maxima "
        "50 and 200 are validated by ProgressBarTrace.  Non-trivial: >= 2 advancing calls with a throttle in force or "
        "together with start/clear/finish"
    )
    ctx.assumptions += [
        "virtual clock in ticks of 1/1024 s starting 1024 s after time 0; an interval of 0.1 s is 103 ticks or more",
        "the frame fits into the terminal width (COLUMNS = 200 in recorded runs, 60 in the model); every character is one cell wide",
        "terminal of unbounded height; cooked-tty newline; deferred wrap",
        "percentage = floor(100 * step / max); frames of a maximum-less bar carry neither maximum nor percentage",
        "only the bar writes to the stream while it is in use; very_verbose/debug formats are not combined with start(0)",
    ]
    for cfg, name in ([("MC_ProgressBar_quick.cfg", "state-space all modes"), ("MC_ProgressBar_custom_quick.cfg", "custom formats")]
                      if quick else
                      [("MC_ProgressBar_thorough.cfg", "state-space all modes"), ("MC_ProgressBar_custom.cfg", "custom formats"),
                       ("MC_ProgressBar_deep.cfg", "deep, throttle")]):
        ctx.model(SPEC, "MC_ProgressBar", cfg, name=name, workers=8)
    ctx.exhaustive = True

    traces, cases = [], []
    seen = set()
    mid = []
    opseen = {}

    def replay_emitted(r):
        for line in r.lines:
            b = T.parse_emit(line)
            if b is None:
                continue
            key = hash(line)
            if key in seen:
                continue
            seen.add(key)
            case = case_of_behaviour(b)
            for op in case["ops"]:
                opseen[op["op"]] = opseen.get(op["op"], 0) + 1
            case["via"] = "io" if len(seen) % 3 == 0 and case["cfg"]["mode"] in ("ansi", "plain") else "output"
            tr = run_case(case)
            check_known(tr, case["cfg"])
            ctx.count()
            if nontrivial(case):
                ctx.nontriv(key)
            if not same(b, tr):
                traces.append(tr)
                cases.append(case)
            if len(seen) % 5000 == 1:
                mid[:] = [case]
        r.lines = []

    for cfg in (["MC_ProgressBar_emit_quick.cfg", "MC_ProgressBar_emit_custom_quick.cfg"] if quick
                else ["MC_ProgressBar_emit_thorough.cfg", "MC_ProgressBar_emit_custom.cfg"]):
        r = ctx.model(SPEC, "MC_ProgressBar", cfg, name="behaviours (state cover) " + cfg, workers=8)
        opseen.clear()
        replay_emitted(r)
        idle = [a for a in OPS + (["msg"] if "custom" in cfg else []) if not opseen.get(a)]
        if idle:  # vacuity: every kind of call occurs in the behaviours that were replayed (-coverage is too slow here)
            raise T.MachineryError("calls never taken in the behaviours of %s: %s" % (cfg, idle))
    ncover = len(seen)
    r = ctx.model(SPEC, "MC_ProgressBar", "MC_ProgressBar_sim.cfg", name="simulate", simulate="num=%d" % (100 if quick else 1000),
                  depth=32, workers=1, seed=ctx.seed % 100000)
    replay_emitted(r)
    if ncover < 1000 or len(seen) <= ncover:
        raise T.MachineryError("too few behaviours emitted (%d, %d)" % (ncover, len(seen)))
    ctx.extra["tlc_behaviours_replayed"] = len(seen)
    ctx.extra["tlc_behaviours_not_reproduced"] = len(traces)
    ctx.sample({"tlc_behaviour": mid[0]})

    # code -> spec
    for mx in (50, 200):
        for mode in ("ansi", "plain"):
            case = sweep_case(mx, mode)
            traces.append(run_case(case))
            cases.append(case)
            ctx.count()
            ctx.nontriv(("sweep", mx, mode))
    for t in range(500 if quick else 5000):
        case = random_case(ctx.rng)
        tr = run_case(case)
        check_known(tr, case["cfg"])
        traces.append(tr)
        cases.append(case)
        ctx.count()
        if nontrivial(case):
            ctx.nontriv(("r", t))
    ctx.sample({"random_case": {k: (v[:10] if k == "ops" else v) for k, v in cases[-1].items()}})
    ctx.validate(SPEC, "ProgressBarTrace", "ProgressBarTrace.cfg", traces, cases=cases, name="recorded-sequences")


def replay(ctx, path):
    d = json.load(open(path))
    c = d["case"]
    ctx.count()
    ctx.nontriv(1)
    ctx.nontriv(2)
    ctx.sample(c)
    tr = run_case(c)
    check_known(tr, c["cfg"])
    ctx.validate(SPEC, "ProgressBarTrace", "ProgressBarTrace.cfg", [tr], cases=[c], name="replay")
