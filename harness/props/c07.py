"""C07  Elements: Option / CommandOption / Argument constructors, names, typed conversion."""
import json
import os
from fractions import Fraction

from harness.engine import tlc as T
from harness.engine.core import chunks

SPEC = os.path.join(T.SPECS, "Elements")
NOPREDS = {"acceptsValue": False, "valueRequired": False, "valueOptional": False, "multi": False,
           "required": False, "optional": False, "longPref": False, "shortPref": False}
NORES = {"k": "n/a", "neg": False, "digits": [], "v": False, "chars": [], "num": 0, "den": 1, "special": []}
TYPEBIT_OPT = {"str": 128, "bool": 256, "int": 512, "float": 1024}
TYPEBIT_ARG = {"str": 16, "bool": 32, "int": 64, "float": 128}


# name characters for the random direction: ASCII plus letters that are "letters" to str.isalpha() / case folding but not to
# the documented [A-Za-z0-9-] (shipped to TLC as opaque stand-in symbols)
UNI = {"\u0130": "<U0130>", "\u0131": "<U0131>", "\u017f": "<U017F>", "\u212a": "<U212A>", "\u00e9": "<U00E9>", "\u00df": "<U00DF>",
       "\u03a9": "<U03A9>", "\u0661": "<U0661>", "\uff21": "<UFF21>"}
NAME_CHARS = list("aZ1-_ aZ1-") + list(UNI)


_UNINV = {v: k for k, v in UNI.items()}


def name_chars(name):
    return [UNI.get(c, c) for c in name]


def base_event(part):
    return {"part": part, "kind": "opt", "flags": 0, "hasShort": False, "dflt": "none", "role": "long", "name": [],
            "nonStr": False, "type": "str", "nullable": False, "isNone": False, "text": [], "hasF": False, "fnum": 0,
            "fden": 1, "obs": {"accepted": False, "cls": "", "nflags": 0, "dkind": "none", "preds": dict(NOPREDS),
                               "res": dict(NORES), "reset": "n/a", "again": "n/a", "kept": []}}


_FALSY = [0, "", False, 0.0]


def dkind_of(v):
    return "none" if v is None else "list" if isinstance(v, list) else "scalar"


def observe_ctor(kind, flags, has_short, dflt):
    from clikit.api.args.format import Argument, CommandOption, Option

    ev = base_event("ctor")
    ev.update(kind=kind, flags=flags, hasShort=has_short, dflt=dflt)
    default = {"none": None, "scalar": "x", "list": ["x"], "falsy": _FALSY[(flags + has_short) % len(_FALSY)], "emptylist": [],
               "tuple": ("x",) if flags % 2 else ()}[dflt]
    short = "o" if has_short else None
    # the sibling class sees the same flag word first (its rules differ; whatever it decides must not reach this construction)
    try:
        CommandOption("sibling", short, None, flags) if kind == "opt" else Option("sibling", short, flags, None, default) if kind == "cmdopt" else None
    except Exception:  # noqa
        pass
    try:
        if kind == "opt":
            o = Option("option", short, flags, None, default)
            preds = dict(NOPREDS, acceptsValue=o.accepts_value(), valueRequired=o.is_value_required(),
                         valueOptional=o.is_value_optional(), multi=o.is_multi_valued(),
                         longPref=o.is_long_name_preferred(), shortPref=o.is_short_name_preferred())
            dk = dkind_of(o.default)
        elif kind == "cmdopt":
            o = CommandOption("option", short, None, flags)
            preds = dict(NOPREDS, longPref=o.is_long_name_preferred(), shortPref=o.is_short_name_preferred())
            dk = "none"
        else:
            o = Argument("argument", flags, None, default)
            preds = dict(NOPREDS, multi=o.is_multi_valued(), required=o.is_required(), optional=o.is_optional())
            dk = dkind_of(o.default)
        ev["obs"].update(accepted=True, nflags=int(o.flags), dkind=dk, preds=preds)
    except Exception as e:  # noqa
        ev["obs"].update(accepted=False, cls=type(e).__name__)
        return ev
    if (kind == "arg" and not preds["required"]) or (kind == "opt" and preds["acceptsValue"]):   # (a value-less option / a required argument refuses set_default) the default withdrawn (set_default() / set_default(None)) and given again on the same object
        try:
            o.set_default() if (flags + has_short) % 2 else o.set_default(None)
            ev["obs"]["reset"] = dkind_of(o.default)
            o.set_default(default)
            ev["obs"]["again"] = dkind_of(o.default)
        except Exception as e:  # noqa
            ev["obs"]["again"] = "exc:" + type(e).__name__
    return ev


def observe_name(role, name, non_str, cls_name):
    from clikit.api.args.format import Argument, CommandOption, Option

    ev = base_event("name")
    ev.update(role=role, name=name_chars(name) if not non_str else [], nonStr=non_str)
    val = 1234 if non_str else name
    try:
        if role == "long":
            (Option if cls_name == "Option" else CommandOption)(val, "o")
        elif role == "short":
            (Option if cls_name == "Option" else CommandOption)("option", val)
        elif role == "alias":
            o = CommandOption("option", None, [val])
            ev["obs"]["kept"] = name_chars((o.long_aliases + o.short_aliases)[0]) if len(o.long_aliases + o.short_aliases) == 1 else ["?"]
        else:
            Argument(val)
        ev["obs"]["accepted"] = True
    except Exception as e:  # noqa
        ev["obs"].update(accepted=False, cls=type(e).__name__)
    return ev


def project_result(v):
    r = dict(NORES)
    if v is None:
        r["k"] = "none"
    elif isinstance(v, bool):
        r.update(k="bool", v=v)
    elif isinstance(v, int):
        r.update(k="int", neg=v < 0, digits=list(str(abs(v))))
    elif isinstance(v, float):
        r["k"] = "float"
        r["special"] = list("nan" if v != v else "inf" if v == float("inf") else "-inf" if v == -float("inf") else "")
        if v == v and abs(v) != float("inf"):
            n, d = v.as_integer_ratio()
            if abs(n) < 2 ** 30 and d < 2 ** 30:
                r.update(num=n, den=d)
    elif isinstance(v, str):
        r.update(k="str", chars=list(v))
    else:
        r["k"] = "other:" + type(v).__name__
    return r


def observe_conv(type_, nullable, is_none, text, via, exact=None, raw=None):
    from clikit.api.args.format import Argument, Option

    ev = base_event("conv")
    ev.update(type=type_, nullable=nullable, isNone=is_none, text=list(text))
    if exact is not None:
        ev.update(hasF=True, fnum=exact.numerator, fden=exact.denominator)
    # bits no flag is defined for ride along (they are ignored by the constructors: the conversion must not notice them)
    junk = (0, 0, 64, 4096, 8192, 4096 | 64)[(len(text) + len(type_) + nullable) % 6] if via == "opt" else (0, 0, 512, 1024, 2048)[(len(text) + nullable) % 5]
    if via == "opt":
        obj = Option("option", None, Option.REQUIRED_VALUE | TYPEBIT_OPT[type_] | (Option.NULLABLE if nullable else 0) | junk)
    else:
        obj = Argument("argument", TYPEBIT_ARG[type_] | (Argument.NULLABLE if nullable else 0) | junk)
    try:
        # raw = "int" / "float": the value itself (not its text form) is handed to parse(); the law is the same -
        # a value of the declared type, equal to what the text form gives
        given = None if is_none else int(text) if raw == "int" else float(text) if raw == "float" else text
        ev["obs"]["res"] = project_result(obj.parse(given))
    except ValueError:
        ev["obs"]["res"] = dict(NORES, k="ValueError")
    except Exception as e:  # noqa
        ev["obs"]["res"] = dict(NORES, k="exc:" + type(e).__name__)
    return ev


def same_conv(model, obs):
    k = model["k"]
    if k == "float?":
        return obs["k"] in ("float", "ValueError", "none")
    if k != obs["k"]:
        return False
    if k == "int":
        return model["neg"] == obs["neg"] and model["digits"] == obs["digits"]
    if k == "bool":
        return model["v"] == obs["v"]
    if k == "str":
        return model["v"] == obs["chars"]
    return True


def run(ctx):
    quick = ctx.tier == "quick"
    ctx.rule = (
        "TLC enumerates every flag word (2^13 option / 2^11 argument / 2^3 command-option) x short-name presence x default "
        "kind through the constructor step machine, every name up to length 4 over {a,Z,1,-,_,SP} x dash prefix x role, and a "
        "pool of conversion texts x type x nullable; each is replayed on Option/CommandOption/Argument (the sibling class sees the "
        "flag word first; the default of every accepted object is withdrawn and given again); non-trivial = the "
        "flag word has >= 2 defined bits set, or the name/text is non-empty; random ints/dyadic floats/long names validated by "
        "ElementsTrace"
    )
    ctx.assumptions += [
        "float round trip only for literals whose exact value is a dyadic rational with numerator, denominator < 2^30 (TLC has no reals; CPython float()/repr fidelity is not clikit logic)",
        "text form of a boolean = 'true' / 'false' (what clikit itself produces)",
        "names over the alphabet {a,Z,1,-,_,SP} (exhaustive) and ASCII letters/digits/-/_/space/dot (random); aliases of command options are exercised by C06",
    ]
    mism, cases = [], []
    sample = []

    def keep(ev, case, ok):
        ctx.count()
        if not ok:
            mism.append([ev])
            cases.append(case)
        elif len(sample) < 300 and ctx.rng.random() < 0.004:
            sample.append(([ev], case))

    r = ctx.model(SPEC, "MC_Elements", "MC_Elements.cfg", name="constructors-exhaustive")
    recs = T.emitted(r)
    if len(recs) < 60000:
        raise T.MachineryError("constructor model emitted %d" % len(recs))
    for m in recs:
        ev = observe_ctor(m["kind"], m["flags"], m["hasShort"], m["dflt"])
        o = ev["obs"]
        ok = o["accepted"] == m["accepted"] and (
            (not m["accepted"] and o["cls"] == "ValueError")
            or (m["accepted"] and o["nflags"] == m["nflags"] and o["dkind"] == m["dkind"] and o["preds"] == m["preds"]
                and (m["kind"] == "cmdopt" or (m["kind"] == "opt" and not m["preds"]["acceptsValue"]) or (m["kind"] == "arg" and m["preds"]["required"]) or (o["reset"] == ("list" if m["preds"]["multi"] else "none") and o["again"] == m["dkind"])))
        )   # a case that is not reproduced is decided by ElementsTrace below
        keep(ev, {"part": "ctor", "kind": m["kind"], "flags": m["flags"], "hasShort": m["hasShort"], "dflt": m["dflt"]}, ok)
        if bin(m["flags"] & (4031 if m["kind"] != "arg" else 503)).count("1") >= 2:
            ctx.nontriv(("c", m["kind"], m["flags"], m["hasShort"], m["dflt"]))
    ctx.sample({"ctor": recs[len(recs) // 3]})

    r = ctx.model(SPEC, "MC_Pure", "MC_Pure_names.cfg", name="names-exhaustive")
    recs = T.emitted(r)
    if len(recs) < 20000:
        raise T.MachineryError("names model emitted %d" % len(recs))
    for m in recs:
        name = "".join(_UNINV.get(c, c) for c in m["name"])
        for cls_name in ("CommandOption",) if m["role"] == "alias" else ("Option", "CommandOption") if m["role"] != "arg" else ("Argument",):
            ev = observe_name(m["role"], name, False, cls_name)
            if m["role"] == "alias":   # must be accepted / may be accepted / must be rejected; anything else is decided by ElementsTrace
                acc = ev["obs"]["accepted"]
                ok = (acc or not m["ok"]) and (m["may"] or not acc) and (acc or ev["obs"]["cls"] == "ValueError") and \
                    (not (acc and m["ok"]) or ev["obs"]["kept"] == [c for c in m["name"] if True][len(m["name"]) - len(ev["obs"]["kept"]):])
                keep(ev, {"part": "name", "role": "alias", "name": name, "nonStr": False, "cls": cls_name}, ok)
                continue
            ok = ev["obs"]["accepted"] == m["ok"] and (m["ok"] or ev["obs"]["cls"] == "ValueError")
            keep(ev, {"part": "name", "role": m["role"], "name": name, "nonStr": False, "cls": cls_name}, ok)
        if name:
            ctx.nontriv(("n", m["role"], name))
    ctx.sample({"name": recs[len(recs) // 2]})

    r = ctx.model(SPEC, "MC_Pure", "MC_Pure_conv.cfg", name="conversion-pool")
    recs = T.emitted(r)
    if len(recs) < 1000:
        raise T.MachineryError("conversion model emitted %d" % len(recs))
    for m in recs:
        text = "".join(m["text"])
        for via in ("opt", "arg"):
            ev = observe_conv(m["type"], m["nullable"], m["isNone"], text, via)
            special_ok = not (m["type"] == "float" and not m["isNone"] and text in ("inf", "-inf", "nan")) or \
                ev["obs"]["res"]["special"] == list(text)   # otherwise decided by ElementsTrace (P.conv.float_special)
            keep(ev, {"part": "conv", "type": m["type"], "nullable": m["nullable"], "isNone": m["isNone"], "text": text, "via": via},
                 same_conv(m["res"], ev["obs"]["res"]) and special_ok)
        if text:
            ctx.nontriv(("v", m["type"], m["nullable"], text))
    ctx.sample({"conv": recs[len(recs) // 2]})
    ctx.exhaustive = True
    ctx.extra["tlc_cases_not_reproduced"] = len(mism)

    # ---- code -> spec: random cases decided by ElementsTrace
    traces = list(mism)
    for t, c in sample:
        traces.append(t)
        cases.append(c)
    n = 1500 if quick else 20000
    rng = ctx.rng
    for k in range(n):
        which = k % 4
        if which == 0:  # integers of any size, canonical and decorated
            v = rng.choice([0, 1, -1, 7, 2 ** 31, -2 ** 63, 10 ** 30]) if rng.random() < 0.2 else rng.randint(-10 ** rng.randint(1, 25), 10 ** rng.randint(1, 25))
            text = str(v)
            if rng.random() < 0.25:
                text = rng.choice([" ", "+", "00", ""]) + text + rng.choice(["", " ", "\n"])
            raw = "int" if text == str(v) and rng.random() < 0.3 else None
            via = rng.choice(["opt", "arg"])
            ev = observe_conv("int", rng.random() < 0.5, False, text, via, raw=raw)
            case = {"part": "conv", "type": "int", "nullable": ev["nullable"], "isNone": False, "text": text, "via": via, "raw": raw}
        elif which == 1:  # dyadic float literals with their exact rational value
            num = rng.randint(-2 ** 20, 2 ** 20)
            den = 2 ** rng.randint(0, 9)
            f = Fraction(num, den)
            text = format_fraction(f)
            raw = None
            if rng.random() < 0.3:  # a number, not a text, handed to a FLOAT element: an int when integral, else the float
                raw = "float"
                if den == 1 and rng.random() < 0.7:
                    raw, text = "int", str(num)
            via = rng.choice(["opt", "arg"])
            ev = observe_conv("float", rng.random() < 0.5, False, text, via, exact=Fraction(text), raw=raw)
            case = {"part": "conv", "type": "float", "nullable": ev["nullable"], "isNone": False, "text": text, "via": via, "exact": True, "raw": raw}
        elif which == 2:  # any text through any type
            text = "".join(rng.choice("01-+_ .eEnulTtrfasyo9x") for _ in range(rng.randint(0, 6)))
            if rng.random() < 0.3:  # literals with a special meaning to Python's number parsers
                text = rng.choice(["inf", "-inf", "Infinity", "-Infinity", "nan", "1e999", "-1e999", "1e400", "2.0", "1e3", "0x10", "0b1", "1_000",
                                   " 12 ", "1e-400", "True", "False", "None", "NULL", "yes", "off", "1.", ".e1"])
            ty = rng.choice(["str", "bool", "int", "float"])
            is_none = rng.random() < 0.1
            via = rng.choice(["opt", "arg"])
            ev = observe_conv(ty, rng.random() < 0.5, is_none, "" if is_none else text, via)
            case = {"part": "conv", "type": ty, "nullable": ev["nullable"], "isNone": is_none, "text": "" if is_none else text, "via": via}
        else:  # longer names
            role = rng.choice(["long", "short", "arg", "alias"])
            name = rng.choice(["", "-", "--"]) + "".join(rng.choice(NAME_CHARS) for _ in range(rng.randint(0, 9)))
            non_str = rng.random() < 0.05 and role != "alias"   # (a non-string alias raises TypeError: no clause speaks of it)
            cls_name = "Argument" if role == "arg" else "CommandOption" if role == "alias" else rng.choice(["Option", "CommandOption"])
            ev = observe_name(role, name, non_str, cls_name)
            case = {"part": "name", "role": role, "name": name, "nonStr": non_str, "cls": cls_name}
        traces.append([ev])
        cases.append(case)
        ctx.count()
        ctx.nontriv(("r", k))
    ctx.sample(cases[-1])
    ctx.validate(SPEC, "ElementsTrace", "ElementsTrace.cfg", traces, cases=cases, name="observed-cases")


def format_fraction(f):
    """exact decimal text of a dyadic rational"""
    sign = "-" if f < 0 else ""
    f = abs(f)
    whole = f.numerator // f.denominator
    rest = f - whole
    digits = ""
    while rest:
        rest *= 10
        d = rest.numerator // rest.denominator
        digits += str(d)
        rest -= d
    return sign + str(whole) + "." + (digits or "0")


def replay(ctx, path):
    c = json.load(open(path))["case"]
    if c["part"] == "ctor":
        ev = observe_ctor(c["kind"], c["flags"], c["hasShort"], c["dflt"])
    elif c["part"] == "name":
        ev = observe_name(c["role"], c["name"], c["nonStr"], c["cls"])
    else:
        ev = observe_conv(c["type"], c["nullable"], c["isNone"], c["text"], c["via"],
                          exact=Fraction(c["text"]) if c.get("exact") else None, raw=c.get("raw"))
    ctx.count()
    ctx.nontriv(1)
    ctx.nontriv(2)
    ctx.sample(c)
    ctx.validate(SPEC, "ElementsTrace", "ElementsTrace.cfg", [[ev]], cases=[c], name="replay")
