"""C11  decoration changes only the look.

(a, b) specs/Markup: TLC renders every balanced message (<= N segments) and every style of a family supplied in three
       ways with the tag machine; the driver renders the same segments to markup text, runs the real formatters / outputs
       and tokenises what comes back (characters and SGR sequences - nothing is interpreted here).
(c, d) specs/OutputGate/OutputLines: line writers (found by reflection) and indentation scopes on real outputs and I/Os.
Observations are compared for equality with TLC-emitted behaviours; everything else is decided by MarkupTrace /
OutputLinesTrace."""
import json
import os
import re

from harness.engine import tlc as T
from harness.props import c10 as G  # subjects, realizations and reflection are shared with C10

MSPEC = os.path.join(T.SPECS, "Markup")
LSPEC = os.path.join(T.SPECS, "OutputGate")
SYM = {"U": "é"}
INV = {v: k for k, v in SYM.items()}
ATTR_METHOD = {"bold": "bold", "dark": "dark", "italic": "italic", "underline": "underlined", "blink": "blinking",
               "reverse": "inverse", "conceal": "hidden"}
_TOK = re.compile(r"\x1b\[([0-9;]*)m|(\x1b(?:\[[0-9;?]*[@-~])?)|([\s\S])")


# ================================================================== (a, b) markup
def tokenise(s):
    """characters and SGR sequences of a rendered string; any other escape is reported as such"""
    out = []
    for m in _TOK.finditer(s):
        if m.group(1) is not None:
            out.append({"k": "sgr", "c": "", "codes": [int(x) if x else 0 for x in m.group(1).split(";")]})
        elif m.group(2) is not None:
            out.append({"k": "esc", "c": "", "codes": []})
        else:
            ch = m.group(3)
            out.append({"k": "c", "c": INV.get(ch, ch if ord(ch) < 128 else "?"), "codes": []})
    return out


def tag_text(t, closing, upper=False):
    if t["named"]:
        body = t["name"].upper() if upper else t["name"]
    else:
        parts = []
        if t["fg"] != "none":
            parts.append("fg=" + t["fg"])
        if t["bg"] != "none":
            parts.append("bg=" + t["bg"])
        if t["at"]:
            parts.append("options=" + ",".join(t["at"]))
        body = ";".join(parts)
    return "<" + ("/" if closing else "") + body + ">"


def markup(msg):
    out = []
    for g in msg:
        k = g["k"]
        if k == "t":
            out.append(SYM.get(g["c"], g["c"]))
        elif k == "esc":
            out.append("\\<")
        elif k == "open":
            out.append(tag_text(g["tag"], False, g.get("up", False)))
        elif k == "close":
            out.append(tag_text(g["tag"], True, g.get("up", False)))
        elif k == "closeany":
            out.append("</>")
        elif k == "unk":
            out.append("".join(g["lit"]))
    return "".join(out)


def clikit_style(t, tag=True):
    from clikit.api.formatter import Style

    s = Style(t["name"] if tag and t["name"] else None)
    if t["fg"] != "none":
        s.fg(t["fg"])
    if t["bg"] != "none":
        s.bg(t["bg"])
    for a in t["at"]:
        getattr(s, ATTR_METHOD[a])()
    return s


def named_tags(msg):
    seen, out = set(), []
    for g in msg:
        if g["k"] in ("open", "close") and g["tag"]["named"] and g["tag"]["name"] not in seen:
            seen.add(g["tag"]["name"])
            out.append(g["tag"])
    return out


def style_set(tags):
    from clikit.api.formatter import StyleSet

    return StyleSet([clikit_style(t) for t in tags])


def build(cls, tags, use_set=True, **kw):
    """a formatter that knows `tags`, each supplied the way its `sup` says: "set" (or nothing) in the style set the
    formatter is constructed with, "added" through add_style() afterwards.  use_set=False: the default style set."""
    early = [t for t in tags if t.get("sup") != "added"]
    f = cls(style_set(early), **kw) if use_set else cls(**kw)
    for t in tags:
        if t.get("sup") == "added":
            f.add_style(clikit_style(t))
    return f


# how a rendering is obtained (A. = AnsiFormatter, P. = PlainFormatter, O. = Output; names are kept short: TLC wraps
# printed tuples at 80 columns and the engine reads FAIL tuples line by line).  Each entry: name -> (decorated?, takes_base_style?, function(markup, tags, base) -> str)
def _hows():
    from clikit.api.io import Output
    from clikit.formatter import AnsiFormatter, PlainFormatter
    from clikit.io import BufferedIO
    from clikit.io.output_stream import BufferedOutputStream

    def out_write(fmt, ansi_stream=False):
        def f(s, tags, base):
            Rec = G._rec_class()
            rec = Rec(BufferedOutputStream(), True if ansi_stream else None)
            Output(rec, fmt(tags)).write(s)
            return rec.text()
        return f

    def io_write(fmt):
        def f(s, tags, base):
            io = BufferedIO(formatter=fmt(tags))
            io.write(s)
            return io.fetch_output()
        return f

    def io_error(fmt):
        def f(s, tags, base):
            io = BufferedIO(formatter=fmt(tags))
            io.error(s)
            return io.fetch_error()
        return f

    def io_late(meth):
        # the style is added through the I/O's formatter after the I/O exists
        def f(s, tags, base):
            io = BufferedIO(formatter=AnsiFormatter(style_set([t for t in tags if t.get("sup") != "added"])))
            for t in tags:
                if t.get("sup") == "added":
                    io.formatter.add_style(clikit_style(t))
            if meth == "remove_format":
                return io.remove_format(s)
            getattr(io, meth)(s)
            return io.fetch_output() if meth == "write" else io.fetch_error()
        return f

    ansi = lambda tags: build(AnsiFormatter, tags)  # noqa: E731
    forced = lambda tags: build(AnsiFormatter, tags, forced=True)  # noqa: E731
    plain = lambda tags: build(PlainFormatter, tags)  # noqa: E731
    st = lambda base: clikit_style(base[0], tag=False) if base else None  # noqa: E731
    later = lambda tags: [t for t in tags if t.get("sup") == "added"]  # noqa: E731  (the rest is in the default set)
    dansi = lambda tags, **kw: build(AnsiFormatter, later(tags), use_set=False, **kw)  # noqa: E731
    dplain = lambda tags: build(PlainFormatter, later(tags), use_set=False)  # noqa: E731
    dflt = {
        "dflt-A.format": (True, False, lambda s, tags, base: dansi(tags).format(s)),
        "dflt-IO.write/forced": (True, False, lambda s, tags, base: io_write(lambda t: dansi(t, forced=True))(s, tags, base)),
        "dflt-P.format": (False, False, lambda s, tags, base: dplain(tags).format(s)),
        "dflt-A.rm_format": (False, False, lambda s, tags, base: dansi(tags).remove_format(s)),
        "dflt-IO.write": (False, False, lambda s, tags, base: io_write(dplain)(s, tags, base)),
        "dflt-IO.write/noansi": (False, False, lambda s, tags, base: io_write(dansi)(s, tags, base)),
    }
    DEFAULT_HOWS.update(dflt)

    def null_io(meth):
        def f(s, tags, base):
            from clikit.io import NullIO

            Rec = G._rec_class()
            io = NullIO()
            for o in (io.output, io.error_output):
                o.set_stream(Rec(o.stream))
            getattr(io, meth)(s)
            return (io.output if meth == "write" else io.error_output).stream.text()
        return f

    def null_out(s, tags, base):
        Rec = G._rec_class()
        rec = Rec(BufferedOutputStream())
        Output(rec).write(s)  # the default formatter of an output
        return rec.text()

    from clikit.formatter import NullFormatter

    NULL_HOWS.update({
        "N.format": (False, False, lambda s, tags, base: NullFormatter().format(s)),
        "N.rm_format": (False, False, lambda s, tags, base: NullFormatter().remove_format(s)),
        "O.write/null": (False, False, null_out),
        "NullIO.write": (False, False, null_io("write")),
        "NullIO.error": (False, False, null_io("error")),
    })
    return {
        # decorated
        "A.format": (True, True, lambda s, tags, base: ansi(tags).format(s, st(base)) if base else ansi(tags).format(s)),
        "O.format/ansi": (True, True, lambda s, tags, base: Output(BufferedOutputStream(), forced(tags)).format(s, st(base))),
        "IO.format/ansi": (True, True, lambda s, tags, base: BufferedIO(formatter=forced(tags)).format(s, st(base))),
        "O.write/forced": (True, False, out_write(forced)),
        "O.write/ansistream": (True, False, out_write(ansi, True)),
        "IO.write/forced": (True, False, io_write(forced)),
        "IO.error/forced": (True, False, io_error(forced)),
        # undecorated
        "A.rm_format": (False, False, lambda s, tags, base: ansi(tags).remove_format(s)),
        "P.format": (False, True, lambda s, tags, base: plain(tags).format(s, st(base))),
        "P.rm_format": (False, False, lambda s, tags, base: plain(tags).remove_format(s)),
        "O.rm_format/ansi": (False, False, lambda s, tags, base: Output(BufferedOutputStream(), forced(tags)).remove_format(s)),
        "IO.rm_format/plain": (False, False, lambda s, tags, base: BufferedIO(formatter=plain(tags)).remove_format(s)),
        "O.write/plain": (False, False, out_write(plain)),
        "O.write/noansi": (False, False, out_write(ansi)),
        "O.write/plain-ansi": (False, False, out_write(plain, True)),   # PlainFormatter on a stream that reports ANSI support
        "IO.write/plain": (False, False, io_write(plain)),
        "IO.error/plain": (False, False, io_error(plain)),
        "IO.write/noansi": (False, False, io_late("write")),
        "IO.error/noansi": (False, False, io_late("error")),
        "IO.rm_format/ansi": (False, False, io_late("remove_format")),
    }


_HOWS = None
DEFAULT_HOWS = {}
NULL_HOWS = {}


def literal_tags(msg):
    """the message as a formatter without any registered style must see it: every tag is an unknown one"""
    out = []
    for g in msg:
        if g["k"] in ("open", "close"):
            out.append({"k": "unk", "lit": list(tag_text(g["tag"], g["k"] == "close", g.get("up", False)))})
        elif g["k"] == "closeany":
            out.append({"k": "unk", "lit": list("</>")})
        elif g["k"] == "esc":  # no tag engine, no escape: both characters stay
            out.append({"k": "unk", "lit": ["\\", "<"]})
        else:
            out.append(g)
    return out


def default_tags():
    """the styles registered by default, read from the real DefaultStyleSet"""
    from clikit.formatter import DefaultStyleSet

    out = {}
    for name, st in DefaultStyleSet().styles.items():
        at = [a for a, m in (("bold", "is_bold"), ("dark", "is_dark"), ("italic", "is_italic"), ("underline", "is_underlined"),
                             ("blink", "is_blinking"), ("reverse", "is_inverse"), ("conceal", "is_hidden")) if getattr(st, m)()]
        out[name] = {"named": True, "name": name, "sup": "set", "fg": st.foreground_color or "none", "bg": st.background_color or "none", "at": at}
    return out


def hows(col, with_base):
    global _HOWS
    if _HOWS is None:
        _HOWS = _hows()
        _HOWS.update(DEFAULT_HOWS)
        _HOWS.update(NULL_HOWS)
    if with_base == "null":
        return sorted(NULL_HOWS)
    if with_base == "default":
        return [h for h, (c, _b, _f) in sorted(DEFAULT_HOWS.items()) if c == col]
    return [h for h, (c, b, _f) in sorted(_HOWS.items()) if c == col and (b or not with_base) and h not in DEFAULT_HOWS and h not in NULL_HOWS]


def render_event(msg, base, col, how, extra_tags=()):
    """one MarkupTrace event: the real rendering of msg obtained through `how`"""
    hows(True, False)
    tags = named_tags(msg) + [t for t in extra_tags if t["name"] not in [x["name"] for x in named_tags(msg)]]
    ev = {"msg": msg, "base": base, "col": col, "how": how, "claim": "all", "res": "ok", "toks": []}
    if how in NULL_HOWS:
        # nothing is registered on this route: every tag is plain text
        ev["msg"] = msg = literal_tags(msg)
        ev["claim"] = "text"  # no tag engine on this route: the A-layer's token stream is not its model
    try:
        ev["toks"] = tokenise(_HOWS[how][2](markup(msg), tags, base))
    except Exception as e:  # noqa: every exception kind is an observation
        ev["res"] = type(e).__name__
    return ev


def way_event(way, style, msg):
    """(b): the style under test supplied in one of the three ways (its `sup` says which of the first two)"""
    from clikit.formatter import AnsiFormatter

    tagb = [g["tag"] for g in msg if g["k"] == "open" and g["tag"]["name"] == "tb"]
    ev = {"msg": msg, "base": [style] if way == 3 else [], "col": True, "how": "way%d" % way, "claim": "all", "res": "ok",
          "toks": []}
    try:
        if way in (1, 2):
            r = build(AnsiFormatter, [style] + tagb).format(markup(msg))
        else:
            r = build(AnsiFormatter, tagb).format(markup(msg), clikit_style(style, tag=False))
        ev["toks"] = tokenise(r)
    except Exception as e:  # noqa
        ev["res"] = type(e).__name__
    return ev


# ---- (b) histories on ONE Style object: supplied, changed through its setters, supplied again
ONE = {"k": "t", "c": "1"}
TWO = {"k": "t", "c": "2"}


def hist_msg(way, attrs):
    tag = {"named": True, "name": "ts", "sup": {1: "set", 2: "added"}.get(way, ""), "fg": attrs["fg"], "bg": attrs["bg"],
           "at": [a for a in ATTRS if a in attrs["at"]]}
    if way in (1, 2):
        return tag, [{"k": "open", "tag": tag}, ONE, {"k": "close", "tag": tag}, TWO]
    return tag, [ONE]


def run_history(case):
    """case = {init: {fg, bg, at}, ops: [set(f, c, b) | use(way, col[, same][, via])]}: every operation acts on the same
    Style object; same=True: the use goes to the formatter of the earlier uses (add_style again / format again), for
    way 1 a new formatter is built from the one StyleSet object that holds the style.  One MarkupTrace event per use
    (a setter that fails is an event too)."""
    from clikit.api.formatter import Style, StyleSet
    from clikit.formatter import AnsiFormatter, PlainFormatter
    from clikit.io import BufferedIO

    attrs = {"fg": case["init"]["fg"], "bg": case["init"]["bg"], "at": list(case["init"]["at"])}
    evs = []

    def failed(how, e):
        evs.append({"msg": [], "base": [], "col": False, "how": how, "claim": "all", "res": type(e).__name__, "toks": []})

    try:
        obj = Style("ts")
        if attrs["fg"] != "none":
            obj.fg(attrs["fg"])
        if attrs["bg"] != "none":
            obj.bg(attrs["bg"])
        for a in attrs["at"]:
            getattr(obj, ATTR_METHOD[a])()
        sset = StyleSet([obj])
    except Exception as e:  # noqa
        failed("hist-init", e)
        return evs
    kept = {}
    for op in case["ops"]:
        if op["op"] == "set":
            try:
                if op["f"] in ("fg", "bg"):
                    getattr(obj, op["f"])(None if op["c"] == "none" else op["c"])
                    attrs[op["f"]] = op["c"]
                else:
                    getattr(obj, ATTR_METHOD[op["f"]])(op["b"])
                    attrs["at"] = [a for a in attrs["at"] if a != op["f"]] + ([op["f"]] if op["b"] else [])
            except Exception as e:  # noqa
                failed("hist-set", e)
            continue
        way, col, same = op["way"], op["col"], op.get("same", False)
        tag, msg = hist_msg(way, attrs)
        ev = {"msg": msg, "base": [tag] if way == 3 else [], "col": col, "claim": "all",
              "how": "hist-w%d%s%s" % (way, "s" if same else "", op.get("via", "")), "res": "ok", "toks": []}
        try:
            cls = AnsiFormatter if col else PlainFormatter
            kw = {"forced": True} if col and op.get("via") else {}
            key = (col, bool(op.get("via")))
            if way == 1:
                f = cls(sset if same else StyleSet([obj]), **kw)
            else:
                f = kept[key] if same and key in kept else cls(StyleSet([]), **kw)
                kept[key] = f
                if way == 2:
                    f.add_style(obj)
            target = BufferedIO(formatter=f) if op.get("via") else f
            r = target.format(markup(msg), obj) if way == 3 else target.format(markup(msg))
            ev["toks"] = tokenise(r)
        except Exception as e:  # noqa
            ev["res"] = type(e).__name__
        evs.append(ev)
    return evs


def case_of_history(rec):
    first = rec["ops"][0]["style"]
    ops = []
    for h in rec["ops"]:
        if h["op"] == "set":
            ops.append({"op": "set", "f": h["f"], "c": h["c"], "b": h["b"]})
        else:
            ops.append({"op": "use", "way": h["way"], "col": h["col"], "same": h["same"]})
    return {"part": "hist", "init": {"fg": first["fg"], "bg": first["bg"], "at": list(first["at"])}, "ops": ops}


def random_history(rng, n):
    init = {"fg": rng.choice(COLOURS), "bg": rng.choice(COLOURS), "at": [a for a in ATTRS if rng.random() < 0.3]}
    ops = [{"op": "use", "way": rng.randint(1, 3), "col": rng.random() < 0.7, "same": False, "via": rng.choice(["", "/io"])}]
    for _ in range(n):
        if rng.random() < 0.6:
            f = rng.choice(["fg", "bg"] + ATTRS)
            ops.append({"op": "set", "f": f, "c": rng.choice(COLOURS) if f in ("fg", "bg") else "", "b": rng.random() < 0.5})
        else:
            ops.append({"op": "use", "way": rng.randint(1, 3), "col": rng.random() < 0.7, "same": rng.random() < 0.5,
                        "via": rng.choice(["", "/io"])})
    ops.append({"op": "use", "way": rng.randint(1, 3), "col": True, "same": rng.random() < 0.5, "via": ""})
    return {"part": "hist", "init": init, "ops": ops}


# ---- (a) formatter objects are independent: a style added to one default formatter is unknown to every other one
PAIR_STYLES = {"k9": {"named": True, "name": "k9", "sup": "added", "fg": "magenta", "bg": "none", "at": ["underline"]},
               "hl": {"named": True, "name": "hl", "sup": "added", "fg": "none", "bg": "none", "at": ["bold"]},
               "zz": {"named": True, "name": "zz", "sup": "added", "fg": "cyan", "bg": "black", "at": []}}
PAIR_ROUTES = {"plain": ["P", "bio", "biosec"], "ansi": ["A", "bioA"]}


def pair_msg(names, known):
    """<n1>1<n2>..</n2></n1>2 with each tag as the rendering formatter must read it: a registered style if it was added
    to THAT formatter, an unknown tag - text - otherwise"""
    msg = []
    for n in names:
        msg.append({"k": "open", "tag": PAIR_STYLES[n]} if n in known else {"k": "unk", "lit": list("<%s>" % n)})
        msg.append(ONE)
    for n in reversed(names):
        msg.append({"k": "close", "tag": PAIR_STYLES[n]} if n in known else {"k": "unk", "lit": list("</%s>" % n)})
    msg.append(TWO)
    return msg


def run_pair(case):
    """case = {kinds: [plain|ansi per formatter], routes: [how each formatter exists: P PlainFormatter(), A AnsiFormatter(),
    bio BufferedIO(), biosec BufferedIO().section(), bioA BufferedIO(forced ANSI formatter)], ops: [build(f) | add(f, name) |
    render(f, names)]} - all formatters are built WITHOUT a style set.  One MarkupTrace event per render."""
    from clikit.formatter import AnsiFormatter, PlainFormatter
    from clikit.io import BufferedIO

    objs, known, evs = {}, {}, []
    for op in case["ops"]:
        f = op["f"]
        route = case["routes"][f - 1]
        try:
            if op["op"] == "build":
                objs[f] = {"P": lambda: PlainFormatter(), "A": lambda: AnsiFormatter(), "bio": lambda: BufferedIO(),
                           "biosec": lambda: BufferedIO().section(),
                           "bioA": lambda: BufferedIO(formatter=AnsiFormatter(forced=True))}[route]()
                known[f] = set()
                continue
            o = objs[f]
            fmt = o if route in ("P", "A") else o.formatter
            if op["op"] == "add":
                fmt.add_style(clikit_style(PAIR_STYLES[op.get("name", "k9")]))
                known[f].add(op.get("name", "k9"))
                continue
        except Exception as e:  # noqa
            evs.append({"msg": [], "base": [], "col": False, "how": "pair-" + op["op"], "claim": "all", "res": type(e).__name__, "toks": []})
            continue
        msg = pair_msg(op.get("names", ["k9"]), known[f])
        ev = {"msg": msg, "base": [], "col": case["kinds"][f - 1] == "ansi", "how": "pair-" + route, "claim": "all", "res": "ok", "toks": []}
        try:
            if route in ("P", "A"):
                r = o.format(markup(msg))
            else:
                n = len(o.fetch_output())
                o.write(markup(msg))
                r = o.fetch_output()[n:]
            ev["toks"] = tokenise(r)
        except Exception as e:  # noqa
            ev["res"] = type(e).__name__
        evs.append(ev)
    return evs


def random_pair(rng):
    nf = rng.randint(2, 3)
    kinds = [rng.choice(["plain", "plain", "ansi"]) for _ in range(nf)]
    routes = [rng.choice(PAIR_ROUTES[k]) for k in kinds]
    ops, built = [], []
    for _ in range(rng.randint(4, 10)):
        f = rng.randint(1, nf)
        if f not in built:
            ops.append({"op": "build", "f": f})
            built.append(f)
        elif rng.random() < 0.4:
            ops.append({"op": "add", "f": f, "name": rng.choice(sorted(PAIR_STYLES))})
        else:
            ops.append({"op": "render", "f": f, "names": rng.sample(sorted(PAIR_STYLES), rng.randint(1, 2))})
    for f in built:
        ops.append({"op": "render", "f": f, "names": sorted(PAIR_STYLES)[:2]})
    return {"part": "pair", "kinds": kinds, "routes": routes, "ops": ops}


# ---- (a) one output reconfigured with set_formatter / set_stream: it must render like a fresh Output on the same pair
RW_TAG = {"named": True, "name": "ta", "sup": "set", "fg": "green", "bg": "none", "at": ["bold"]}
RW_MSG = [{"k": "open", "tag": RW_TAG}, ONE, {"k": "close", "tag": RW_TAG}, TWO]


def run_rewire(case):
    """case = {route: O (an Output) | IO (a BufferedIO, reconfigured through io.set_formatter and set_stream of both
    outputs), ops: [new(fk, sa) | set_formatter(fk) | set_stream(sa)], msgs: optional messages (default <ta>1</ta>2)}:
    every operation acts on the SAME output; after each the message is written.  fk: plain | ansi | forced formatter,
    sa: the stream reports ANSI support.  One MarkupTrace event per operation (claim 'rewire': TLC decides from fk / sa
    whether a decorated rendering is expected)."""
    from clikit.api.io import Output
    from clikit.formatter import AnsiFormatter, PlainFormatter
    from clikit.io import BufferedIO
    from clikit.io.output_stream import BufferedOutputStream

    Rec = G._rec_class()
    tags = [RW_TAG, TAGS["tb"]]

    def fmt(k):
        return build(PlainFormatter, tags) if k == "plain" else build(AnsiFormatter, tags, forced=(k == "forced"))

    evs, obj, fk, sa = [], None, None, None
    for n, op in enumerate(case["ops"]):
        msg = (case.get("msgs") or [RW_MSG] * len(case["ops"]))[n]
        res = "ok"
        try:
            if op["op"] == "new":
                fk, sa = op["fk"], op["sa"]
                if case["route"] == "IO":
                    obj = BufferedIO(formatter=fmt(fk))
                    outs = [obj.output, obj.error_output]
                    if sa:  # BufferedIO builds on plain buffers
                        raise ValueError("IO route starts on a stream without ANSI support")
                else:
                    obj = Output(Rec(BufferedOutputStream(), True if sa else None), fmt(fk))
                    outs = [obj]
            elif op["op"] == "set_formatter":
                fk = op["fk"]
                (obj if case["route"] == "IO" else outs[0]).set_formatter(fmt(fk))
            else:
                sa = op["sa"]
                for o in outs:
                    o.set_stream(Rec(BufferedOutputStream(), True if sa else None))
        except Exception as e:  # noqa
            res = type(e).__name__
        ev = {"msg": msg, "base": [], "col": fk == "forced" or (fk == "ansi" and bool(sa)), "how": "rw-%s.%s" % (case["route"], op["op"]),
              "claim": "rewire", "fk": fk or "plain", "sa": bool(sa), "res": res, "toks": []}
        if res == "ok":
            try:
                if case["route"] == "IO":
                    which = n % 2
                    (obj.error if which else obj.write)(markup(msg))
                    st = outs[which].stream
                    r = st.text() if hasattr(st, "text") else (obj.fetch_error() if which else obj.fetch_output())
                    if hasattr(st, "data"):
                        del st.data[:]
                    else:
                        (obj.clear_error if which else obj.clear_output)()
                else:
                    st = outs[0].stream
                    k = len(st.data)
                    outs[0].write(markup(msg))
                    r = "".join(st.data[k:])
                ev["toks"] = tokenise(r)
            except Exception as e:  # noqa
                ev["res"] = type(e).__name__
        evs.append(ev)
    return evs


def random_rewire(rng):
    route = rng.choice(["O", "O", "IO"])
    ops = [{"op": "new", "fk": rng.choice(["plain", "ansi", "forced"]), "sa": route == "O" and rng.random() < 0.5}]
    for _ in range(rng.randint(2, 7)):
        if rng.random() < 0.5:
            ops.append({"op": "set_formatter", "fk": rng.choice(["plain", "ansi", "forced"])})
        else:
            ops.append({"op": "set_stream", "sa": rng.random() < 0.5})
    msgs = [random_message(rng, rng.randint(1, 6), balanced=True, names=("ta", "tb"), table={"ta": RW_TAG, "tb": TAGS["tb"]}) for _ in ops]
    return {"part": "rewire", "route": route, "ops": ops, "msgs": msgs}


def norm(x):
    return json.dumps(x, sort_keys=True)


def run_markup(ctx, quick):
    traces, cases = [], []
    # ---- (a) every balanced message
    r = ctx.model(MSPEC, "MC_Markup", "MC_Markup_a_%s.cfg" % ctx.tier, name="markup: balanced messages", workers=8)
    recs = G.ordered(T.emitted(r))
    if len(recs) < 4000:
        raise T.MachineryError("MC_Markup (a) emitted only %d renderings" % len(recs))
    nm = nmis = 0
    for nb, rec in enumerate(recs):
        msg, col = rec["msg"], rec["col"]
        hs = hows(col, False)
        chosen = hs if not quick else [hs[(nb + k) % len(hs)] for k in range(3)]
        for how in chosen:
            ev = render_event(msg, [], col, how)
            ctx.count()
            nm += 1
            same = ev["res"] == "ok" and not rec["err"] and norm(ev["toks"]) == norm(rec["out"])
            if not same:
                nmis += 1
                traces.append([ev])
                cases.append({"part": "a", "msg": msg, "base": [], "col": col, "how": how})
            elif ctx.rng.random() < (0.02 if quick else 0.002):
                traces.append([ev])
                cases.append({"part": "a", "msg": msg, "base": [], "col": col, "how": how})
        if any(g["k"] in ("open", "esc", "unk") for g in msg):
            ctx.nontriv(norm(msg))
    ctx.extra["markup_renderings_replayed"] = nm
    ctx.extra["markup_renderings_not_reproduced"] = nmis
    ctx.sample({"message": markup(recs[len(recs) // 2]["msg"])})

    # ---- (b) styles x three ways
    r = ctx.model(MSPEC, "MC_Markup", "MC_Markup_b_%s.cfg" % ctx.tier, name="markup: styles x ways", workers=8)
    recs = G.ordered(T.emitted(r))
    if len(recs) < 500:
        raise T.MachineryError("MC_Markup (b) emitted only %d renderings" % len(recs))
    nb_mis = 0
    for rec in recs:
        ev = way_event(rec["way"], rec["style"], rec["msg"])
        ctx.count()
        ctx.nontriv(("style", rec["way"], norm(rec["style"]), len(rec["msg"])))
        same = ev["res"] == "ok" and norm(ev["toks"]) == norm(rec["out"])
        if not same:
            nb_mis += 1
        if not same or ctx.rng.random() < (0.05 if quick else 0.01):
            traces.append([ev])
            cases.append({"part": "b", "way": rec["way"], "style": rec["style"], "msg": rec["msg"]})
    ctx.extra["styles_replayed"] = len(recs)
    ctx.extra["styles_not_reproduced"] = nb_mis
    ctx.sample({"style": recs[len(recs) // 2]["style"], "way": recs[len(recs) // 2]["way"]})

    # ---- (b) histories on one style object (use ; set ; [set ;] use ...)
    r = ctx.model(MSPEC, "MC_MarkupHist", "MC_MarkupHist_%s.cfg" % ctx.tier, name="markup: one style object, used - changed - used", workers=8)
    recs = G.ordered(T.emitted(r))
    if len(recs) < 6000:
        raise T.MachineryError("MC_MarkupHist emitted only %d histories" % len(recs))
    nh_mis = 0
    for rec in recs:
        case = case_of_history(rec)
        evs = run_history(case)
        uses = [h for h in rec["ops"] if h["op"] == "use"]
        ctx.count()
        ctx.nontriv(("hist", norm(case)))
        same = len(evs) == len(uses) and all(e["res"] == "ok" and norm(e["toks"]) == norm(h["out"]) and norm(e["msg"]) == norm(h["msg"])
                                             for e, h in zip(evs, uses))
        if not same:
            nh_mis += 1
        if not same or ctx.rng.random() < (0.05 if quick else 0.003):
            traces.append(evs)
            cases.append(case)
    ctx.extra["style_histories_replayed"] = len(recs)
    ctx.extra["style_histories_not_reproduced"] = nh_mis
    ctx.sample({"style_history": case_of_history(recs[len(recs) // 2])})
    for i in range(300 if quick else 4000):
        case = random_history(ctx.rng, ctx.rng.randint(1, 7))
        traces.append(run_history(case))
        cases.append(case)
        ctx.count()
        ctx.nontriv(("rndhist", i))

    # ---- (a) two formatters built without a style set: add_style on one must not reach the other
    r = ctx.model(MSPEC, "MC_MarkupPair", "MC_MarkupPair.cfg", name="markup: independent formatter objects", workers=8)
    recs = G.ordered(T.emitted(r))
    if len(recs) < 500:
        raise T.MachineryError("MC_MarkupPair emitted only %d sequences" % len(recs))
    np_mis = 0
    for nb, rec in enumerate(recs):
        kinds = list(rec["kinds"])
        routes = [PAIR_ROUTES[k][(nb + j) % len(PAIR_ROUTES[k])] for j, k in enumerate(kinds)]
        case = {"part": "pair", "kinds": kinds, "routes": routes, "ops": [{"op": h["op"], "f": h["f"]} for h in rec["ops"]]}
        evs = run_pair(case)
        rs = [h for h in rec["ops"] if h["op"] == "render"]
        ctx.count()
        ctx.nontriv(("pair", norm(case)))
        same = len(evs) == len(rs) and all(e["res"] == "ok" and norm(e["toks"]) == norm(h["out"]) for e, h in zip(evs, rs))
        if not same:
            np_mis += 1
        if not same or ctx.rng.random() < 0.1:
            traces.append(evs)
            cases.append(case)
    ctx.extra["formatter_pair_sequences_replayed"] = len(recs)
    ctx.extra["formatter_pair_sequences_not_reproduced"] = np_mis
    for i in range(150 if quick else 3000):
        case = random_pair(ctx.rng)
        traces.append(run_pair(case))
        cases.append(case)
        ctx.count()
        ctx.nontriv(("rndpair", i))

    # ---- (a) one output reconfigured: decorated first, undecorated later (and back)
    r = ctx.model(MSPEC, "MC_MarkupRewire", "MC_MarkupRewire.cfg", name="markup: set_formatter / set_stream on one output", workers=8)
    recs = G.ordered(T.emitted(r))
    if len(recs) < 700:
        raise T.MachineryError("MC_MarkupRewire emitted only %d sequences" % len(recs))
    nr_mis = 0
    for nb, rec in enumerate(recs):
        ops = [{"op": h["op"], "fk": h["fk"], "sa": h["sa"]} for h in rec["ops"]]
        route = "IO" if nb % 3 == 2 and not ops[0]["sa"] else "O"
        case = {"part": "rewire", "route": route, "ops": ops}
        evs = run_rewire(case)
        ctx.count()
        ctx.nontriv(("rewire", norm(case)))
        same = len(evs) == len(rec["ops"]) and all(e["res"] == "ok" and norm(e["toks"]) == norm(h["out"]) for e, h in zip(evs, rec["ops"]))
        if not same:
            nr_mis += 1
        if not same or ctx.rng.random() < 0.1:
            traces.append(evs)
            cases.append(case)
    ctx.extra["rewire_sequences_replayed"] = len(recs)
    ctx.extra["rewire_sequences_not_reproduced"] = nr_mis
    for i in range(150 if quick else 3000):
        case = random_rewire(ctx.rng)
        traces.append(run_rewire(case))
        cases.append(case)
        ctx.count()
        ctx.nontriv(("rndrewire", i))

    # ---- code -> spec: seeded random messages, longer and over more styles than TLC enumerates
    n = 600 if quick else 8000
    for i in range(n):
        msg = random_message(ctx.rng, ctx.rng.randint(1, 14), balanced=ctx.rng.random() < 0.85)
        col = ctx.rng.random() < 0.5
        base = [random_style(ctx.rng, named=True, name="")] if ctx.rng.random() < 0.25 else []
        how = ctx.rng.choice(hows(col, bool(base)))
        traces.append([render_event(msg, base, col, how)])
        cases.append({"part": "a", "msg": msg, "base": base, "col": col, "how": how})
        ctx.count()
        ctx.nontriv(("rndmsg", i))
    # messages over the styles registered by default, through formatters / I/Os built without a style set
    try:
        dt = default_tags()
    except Exception as e:  # noqa: a default style set that cannot be read is an observation
        dt = {}
        traces.append([{"msg": [], "base": [], "col": False, "how": "dflt-styles", "claim": "all", "res": type(e).__name__, "toks": []}])
        cases.append({"part": "a", "msg": [], "base": [], "col": False, "how": "dflt-P.format"})
    dt["k9"] = dict(TAGS["tb"], name="k9")  # one more style, added to the default ones after construction
    for i in range((200 if quick else 3000) if len(dt) > 1 else 0):
        msg = random_message(ctx.rng, ctx.rng.randint(1, 12), balanced=True, names=sorted(dt), table=dt)
        col = ctx.rng.random() < 0.5
        how = ctx.rng.choice(hows(col, "default"))
        traces.append([render_event(msg, [], col, how)])
        cases.append({"part": "a", "msg": msg, "base": [], "col": col, "how": how})
        ctx.count()
        ctx.nontriv(("dfltmsg", i))
    # one formatter kept across several balanced messages (what a message leaves behind must not change the next)
    for i in range(90 if quick else 900):
        msgs = [random_message(ctx.rng, ctx.rng.randint(1, 8), balanced=ctx.rng.random() < 0.8, names=("ta", "tb"))
                for _ in range(ctx.rng.randint(2, 6))]
        # outside the family (tag-engine artefact, see the notes): a message ending in the escape \\< while a style is open
        # from outside the message keeps its backslash - here: after an unbalanced message left a style open
        dirty = False
        for m in msgs:
            if dirty and m and m[-1]["k"] == "esc":
                m.append({"k": "t", "c": "1"})
            dirty = dirty or not balanced_msg(m)
        case = {"part": "shared", "msgs": msgs, "plain": i % 3 == 1, "outputs": i % 3 == 2}
        traces.append(shared_formatter_trace(msgs, case["plain"], case["outputs"]))
        cases.append(case)
        ctx.count()
    # routes on which no style is registered (NullFormatter, the default formatter of an Output, NullIO): all tags are text
    for i in range(100 if quick else 1500):
        msg = random_message(ctx.rng, ctx.rng.randint(1, 10), balanced=ctx.rng.random() < 0.8)
        how = ctx.rng.choice(hows(False, "null"))
        traces.append([render_event(msg, [], False, how)])
        cases.append({"part": "a", "msg": msg, "base": [], "col": False, "how": how})
        ctx.count()
    return traces, cases


def shared_formatter_trace(msgs, plain=False, outputs=False):
    """several messages through ONE formatter (plain=True: a PlainFormatter; outputs=True: through two outputs sharing
    it, one on an ANSI-capable stream, one not).  After a message that is not balanced (it may leave styles open on the
    formatter, or fail) only the text clauses are claimed for the following ones: what carries over from earlier
    messages is C17's subject, the text of a balanced message must be right all the same."""
    from clikit.api.io import Output
    from clikit.formatter import AnsiFormatter, PlainFormatter
    from clikit.io.output_stream import BufferedOutputStream

    evs, claim = [], "all"
    try:
        f = build(PlainFormatter if plain else AnsiFormatter, [TAGS["ta"], TAGS["tb"]])
        Rec = G._rec_class()
        outs = {True: Output(Rec(BufferedOutputStream(), True), f), False: Output(Rec(BufferedOutputStream()), f)} if outputs else None
    except Exception as e:  # noqa: a formatter that cannot be built / given its styles is an observation
        return [{"msg": [], "base": [], "col": False, "how": "shared-build", "claim": "all", "res": type(e).__name__, "toks": []}]
    for k, msg in enumerate(msgs):
        col = k % 2 == 0 and not plain
        how = "shared-%s%s." % ("P" if plain else "A", "/O" if outputs else "") + ("format" if col or plain and k % 2 == 0 else "rm_format")
        ev = {"msg": msg, "base": [], "col": col, "how": how, "claim": claim, "res": "ok", "toks": []}
        try:
            if outputs:
                o = outs[col]
                n = len(o.stream.data)
                o.write(markup(msg))
                r = "".join(o.stream.data[n:])
            else:
                r = f.format(markup(msg)) if how.endswith(".format") else f.remove_format(markup(msg))
            ev["toks"] = tokenise(r)
        except Exception as e:  # noqa
            ev["res"] = type(e).__name__
        evs.append(ev)
        if not balanced_msg(msg):
            claim = "text"
    return evs


def balanced_msg(msg):
    """every close names the innermost open style, </> closes the innermost, nothing stays open (the driver must know
    which of its own messages it built unbalanced - TLC re-decides with Markup!Balanced on every event)"""
    st = []
    for g in msg:
        if g["k"] == "open":
            st.append(g["tag"])
        elif g["k"] == "close":
            if not st or st[-1] != g["tag"]:
                return False
            st.pop()
        elif g["k"] == "closeany":
            if not st:
                return False
            st.pop()
    return not st


COLOURS = ["none", "black", "red", "green", "yellow", "blue", "magenta", "cyan", "white", "default", "light_gray", "dark_gray",
           "light_red", "light_green", "light_yellow", "light_blue", "light_magenta", "light_cyan"]
ATTRS = ["bold", "dark", "italic", "underline", "blink", "reverse", "conceal"]
TAGS = {"ta": {"named": True, "name": "ta", "sup": "set", "fg": "green", "bg": "none", "at": []},
        "tb": {"named": True, "name": "tb", "sup": "added", "fg": "none", "bg": "blue", "at": ["bold", "underline"]}}


def random_style(rng, named, name):
    at = [a for a in ATTRS if rng.random() < 0.3]
    if not named:
        rng.shuffle(at)
    sup = rng.choice(["set", "added"]) if named and name else ""
    st = {"named": named, "name": name, "sup": sup, "fg": rng.choice(COLOURS), "bg": rng.choice(COLOURS), "at": at}
    if not named and st["fg"] == "none" and st["bg"] == "none" and not at:
        st["fg"] = "red"  # an inline tag needs a body
    return st


def random_message(rng, n, balanced, names=None, table=None):
    """segments; named tags get fresh definitions per message (registered through the style set of the call)"""
    pool = {}
    for nm in (names or ("ta", "tb", "k9", "x-y_z")):
        pool[nm] = (table or TAGS)[nm] if names else random_style(rng, True, nm)
    msg, open_ = [], []
    text = ["1", " ", "U", "<", ">", "\n", "7", "."]
    for _ in range(n):
        x = rng.random()
        if x < 0.45:
            msg.append({"k": "t", "c": rng.choice(text)})
        elif x < 0.52:
            msg.append({"k": "esc"})
        elif x < 0.60:
            msg.append({"k": "unk", "lit": list(rng.choice(["<foo>", "</foo>", "<a=b>", "</nope>", "<F9>"]))})
        elif x < 0.80 and len(open_) < 4:
            t = pool[rng.choice(sorted(pool))] if (names or rng.random() < 0.6) else random_style(rng, False, "")
            msg.append({"k": "open", "tag": t})
            if t["named"] and rng.random() < 0.15:
                msg[-1]["up"] = True  # <TA>: tag names are case-insensitive
            open_.append(t)
        elif open_:
            if balanced or rng.random() < 0.7:
                t = open_.pop()
            else:
                t = open_.pop(rng.randrange(len(open_)))
            msg.append({"k": "close", "tag": t} if rng.random() < 0.7 else {"k": "closeany"})
            if msg[-1]["k"] == "closeany" and not balanced:
                pass
    if balanced:
        while open_:
            msg.append({"k": "close", "tag": open_.pop()})
    return msg


def replay_markup(case):
    if case["part"] == "a":
        return [render_event(case["msg"], case["base"], case["col"], case["how"])]
    if case["part"] == "b":
        return [way_event(case["way"], case["style"], case["msg"])]
    if case["part"] == "hist":
        return run_history(case)
    if case["part"] == "pair":
        return run_pair(case)
    if case["part"] == "rewire":
        return run_rewire(case)
    return shared_formatter_trace(case["msgs"], case.get("plain", False), case.get("outputs", False))


# ================================================================== (c, d) line writers and indentation scopes
class Boom(Exception):
    pass


# characters some libraries (str.splitlines) take for line boundaries - ordinary text for the line writers; TLA+ sees
# them as stand-in symbols
SEP = {"<CR>": "\r", "<VT>": "\x0b", "<FF>": "\x0c", "<FS>": "\x1c", "<GS>": "\x1d", "<RS>": "\x1e", "<NEL>": "\x85",
       "<LS>": "\u2028", "<PS>": "\u2029", "U": "\u00e9"}     # + a non-ASCII letter (stand-in U)
SEPINV = {v: k for k, v in SEP.items()}


def symbols(line):
    return [SEPINV.get(c, c) for c in line]


def chars_of(delta):
    out = []
    for m in _TOK.finditer(delta):
        if m.group(1) is not None:
            out.append("<SGR>")
        elif m.group(2) is not None:
            out.append("<ESC>")
        else:
            ch = m.group(3)
            out.append(SEPINV.get(ch, ch if ord(ch) < 128 else "?"))
    return out


def line_base(op):
    return {"op": op, "kind": "", "dec": False, "level": "", "mode": "", "n": 0, "how": "", "swallowed": False, "name": "",
            "raw": False, "lines": [], "deltas": [[], []], "ind": [], "res": "ok"}


def line_entries(cls):
    """the line writers among the writing entry points found by reflection"""
    return [e for e in G.entries(cls) if "line" in e["name"] and e["ntext"] >= 1]


class LineRunner(object):
    def __init__(self, real, probes):
        self.s = G.Subject(real)
        self.probes = probes
        self.evs = [dict(line_base("new"), kind=real["kind"], dec=self.s.dec)]

    def ind(self):
        return [o._indent for o in self.s.outs]

    def line(self, name, lines):
        s = self.s
        recv = s.receiver(1)
        ev = dict(line_base("line"), name=name, raw="raw" in name, lines=[symbols(x) for x in lines])
        marks = [len(r.data) for r in s.recs]
        try:
            if name == "write(nl)":  # the same line through write(text, new_line=True)
                recv.write("\n".join(lines), new_line=True)
            else:
                getattr(recv, name)("\n".join(lines))
        except Exception as e:  # noqa
            ev["res"] = type(e).__name__
        for k, r in enumerate(s.recs):
            ev["deltas"][k] = chars_of("".join(r.data[marks[k]:]))
        ev["ind"] = self.ind()
        self.evs.append(ev)

    def probe(self):
        if not self.probes:
            return
        self.line("write_line", ["a", "", "b\rc"])
        if self.s.io is not None:
            self.line("error_line", ["a", "", "b\rc"])

    def scope(self, op):
        s = self.s
        target = s.io if op["level"] == "io" else s.outs[0 if op["level"] == "out" else 1]
        return (target.increment_indent if op["mode"] == "incr" else target.indent)(op["n"])

    def go(self, ops, pos):
        """runs ops[pos:] up to the exit that closes the enclosing scope; returns (position after it, how)"""
        while pos < len(ops):
            op = ops[pos]
            if op["op"] == "exit":
                return pos + 1, op["how"]
            if op["op"] == "line":
                self.line(op["name"], op["lines"])
                pos += 1
                continue
            # enter: a genuine with-block; an exceptional exit is a raise inside it.  A scope that cannot be created,
            # or whose exit fails, is an observation (res), not a harness failure
            try:
                cm = self.scope(op)
            except Exception as e:  # noqa
                self.evs.append(dict(line_base("enter"), level=op["level"], mode=op["mode"], n=op["n"], ind=self.ind(),
                                     res=type(e).__name__))
                pos += 1
                continue
            how, swallowed, res = None, False, "ok"
            try:
                with cm:
                    self.evs.append(dict(line_base("enter"), level=op["level"], mode=op["mode"], n=op["n"], ind=self.ind()))
                    self.probe()
                    pos, how = self.go(ops, pos + 1)
                    if how == "exception":
                        raise Boom()
                swallowed = how == "exception"
            except Boom:
                pass
            except Exception as e:  # noqa
                res = type(e).__name__
            if how is not None:
                self.evs.append(dict(line_base("exit"), how=how, swallowed=swallowed, ind=self.ind(), res=res))
                self.probe()
        return pos, None


def run_lines_case(case):
    cols = os.environ.get("COLUMNS")
    os.environ["COLUMNS"] = "80"
    try:
        try:
            r = LineRunner(case["real"], case.get("probes", False))
        except Exception as e:  # noqa
            return [dict(line_base("new"), kind=case["real"]["kind"], res=type(e).__name__)]
        pos = 0
        while pos < len(case["ops"]):  # an exit without an open scope is skipped
            pos, _how = r.go(case["ops"], pos)
        return r.evs
    finally:
        if cols is None:
            os.environ.pop("COLUMNS", None)
        else:
            os.environ["COLUMNS"] = cols


def lines_of(shape):
    return ["".join(SEP.get(c, c) for c in x) for x in shape]


def agrees_lines(beh, evs):
    """the recorded events show what the model's history says (deltas of line events / probes, indentation read back)"""
    k = 1  # evs[0] is "new"
    for h in beh["ops"]:
        if k >= len(evs):
            return False
        e = evs[k]
        if h["op"] == "line":
            if e["op"] != "line" or e["res"] != "ok" or e["deltas"] != [list(h["deltas"][0]), list(h["deltas"][1])]:
                return False
            k += 1
            continue
        if e["op"] != h["op"] or e["ind"] != list(h["ind"]):
            return False
        k += 1
        for o, want in enumerate(h.get("probes", [])):
            if k >= len(evs) or evs[k]["op"] != "line" or evs[k]["deltas"][o] != list(want) or evs[k]["deltas"][1 - o] != []:
                return False
            k += 1
    return k == len(evs)


def ops_from_hist(beh):
    ops = []
    for h in beh["ops"]:
        if h["op"] == "enter":
            ops.append({"op": "enter", "level": h["level"], "mode": h["mode"], "n": h["n"]})
        elif h["op"] == "exit":
            ops.append({"op": "exit", "how": h["how"]})
        else:
            ops.append({"op": "line", "name": h["name"], "lines": lines_of(h["lines"])})
    return ops


def run_lines(ctx, quick):
    traces, cases = [], []
    skipped = []
    reals = {}
    for kind in ("output", "section", "io", "iosec"):
        reals[kind] = [r for r, _dec in G.usable(G.realizations(kind, not quick), skipped)]
    broken = G.broken_objects(skipped)
    for b in broken:  # an object of the family that cannot be built is an observation, not a harness failure
        traces.append([dict(line_base("new"), kind=b["real"]["kind"], res=b["cls"])])
        cases.append({"part": "lines", "real": b["real"], "ops": [], "probes": False})
    for kind in reals:
        if not reals[kind] and not broken:
            raise T.MachineryError("no realization of kind %s" % kind)
    ctx.extra["line_realizations"] = {k: len(v) for k, v in reals.items()}
    ctx.model(LSPEC, "MC_OutputLines", "MC_OutputLines_bfs_%s.cfg" % ctx.tier, name="lines+scopes: state space", workers=8)

    def replay(recs, probes, per):
        n = mis = 0
        for nb, beh in enumerate(recs):
            rs = reals[beh["kind"]]
            if not rs:
                continue
            ops = ops_from_hist(beh)
            for r in (rs if per is None else [rs[(nb + j) % len(rs)] for j in range(min(per, len(rs)))]):
                case = {"part": "lines", "real": r, "ops": ops, "probes": probes}
                evs = run_lines_case(case)
                ctx.count()
                n += 1
                if not agrees_lines(beh, evs):
                    mis += 1
                    traces.append(evs)
                    cases.append(case)
            if len(ops) >= 2:
                ctx.nontriv(norm([beh["kind"], ops]))
        return n, mis

    r = ctx.model(LSPEC, "MC_OutputLines", "MC_OutputLines_lines.cfg", name="line-writer table", workers=8)
    tab = G.ordered(T.emitted(r))
    if len(tab) < 300:
        raise T.MachineryError("MC_OutputLines table emitted only %d rows" % len(tab))
    n1, m1 = replay(tab, False, 6 if quick else None)
    r = ctx.model(LSPEC, "MC_OutputLines", "MC_OutputLines_prog_%s.cfg" % ctx.tier, name="scope programs", workers=8)
    progs = G.ordered(T.emitted(r))
    if len(progs) < 2000:
        raise T.MachineryError("MC_OutputLines programs: only %d emitted" % len(progs))
    n2, m2 = replay(progs, True, 1 if quick else 2)
    ctx.extra["line_table_rows"] = len(tab)
    ctx.extra["scope_programs"] = len(progs)
    ctx.extra["line_replays"] = n1 + n2
    ctx.extra["line_behaviours_not_reproduced"] = m1 + m2
    ctx.sample({"scope_program": progs[len(progs) // 2]["ops"][:4]})

    # ---- code -> spec: every line writer found by reflection x text shapes x (no scope | one scope), every realization
    # 0, 1, 2+ trailing newlines; separator characters inside lines (only "\n" starts a new line)
    shapes = [["a"], ["a", "", "b\rc"], ["", "a"], [""], ["a", ""], ["x<1>", "a", "", ""], ["", "", ""],
              ["\x0bd\x85\u2028e", "f\x0c\x1c\x1d\x1eg\u2029"], ["\u00e9t\u00e9", "", "\u00e9"]]
    found = {}
    for kind, rs in sorted(reals.items()):
        for r in rs if not quick else G.spread(rs, 2):
            s = G.Subject(r)
            ents = list(line_entries(s.cls))
            found.setdefault(s.cls.__name__, sorted(e["name"] for e in ents))
            if s.io is None and any(e["name"] == "write" for e in G.entries(s.cls)):
                ents.append({"name": "write(nl)"})  # an equivalent route: write(text, new_line=True)
            levels = ["io", "out", "err"] if s.io is not None else ["out"]
            for ent in ents:
                ops = []
                for sh in shapes:
                    ops.append({"op": "line", "name": ent["name"], "lines": sh})
                for lv in levels:
                    for mode, n in (("set", 3), ("incr", 2)):
                        ops.append({"op": "enter", "level": lv, "mode": mode, "n": n})
                        for sh in (shapes[1], shapes[5], shapes[7]):
                            ops.append({"op": "line", "name": ent["name"], "lines": sh})
                        ops.append({"op": "exit", "how": "normal" if mode == "set" else "exception"})
                        ops.append({"op": "line", "name": ent["name"], "lines": shapes[1]})
                        ctx.count(5)
                case = {"part": "lines", "real": r, "ops": ops, "probes": False}
                traces.append(run_lines_case(case))
                cases.append(case)
                ctx.nontriv(("lw", kind, r.get("cls", ""), r["fmt"], r["ansi"], ent["name"]))
    ctx.extra["line_writers_found"] = found
    for cls, names in found.items():
        if not names:
            raise T.MachineryError("reflection found no line writer on %s" % cls)

    # ---- code -> spec: nestings enumerated here (depth <= 3 exhaustive over a reduced alphabet in quick) and random ones
    import itertools

    enters = [(lv, mode, n) for lv in ("io", "out", "err") for mode in ("set", "incr") for n in ((2,) if quick else (0, 2, 3))]
    depth = 3
    progs2 = []
    for d in range(1, depth + 1):
        for combo in itertools.product(enters, repeat=d):
            for hows_ in itertools.product(("normal", "exception"), repeat=d):
                progs2.append((combo, hows_))
    ctx.rng.shuffle(progs2)
    limit = 1500 if quick else 60000
    ior = reals["io"] + reals["iosec"]
    for i, (combo, hows_) in enumerate(progs2[:limit] if ior else []):
        ops = [{"op": "enter", "level": lv, "mode": m, "n": n} for lv, m, n in combo] + [{"op": "exit", "how": h} for h in hows_]
        case = {"part": "lines", "real": ior[i % len(ior)], "ops": ops, "probes": True}
        traces.append(run_lines_case(case))
        cases.append(case)
        ctx.count()
        ctx.nontriv(("nest", i))
    allr = [r for k in sorted(reals) for r in reals[k]]
    for i in range((300 if quick else 5000) if allr else 0):
        r = allr[ctx.rng.randrange(len(allr))]
        ops = random_scope_ops(ctx.rng, r, ctx.rng.randint(3, 24))
        case = {"part": "lines", "real": r, "ops": ops, "probes": ctx.rng.random() < 0.5}
        traces.append(run_lines_case(case))
        cases.append(case)
        ctx.count()
        ctx.nontriv(("rndscope", i))
    ctx.sample({"random_scope_case": cases[-1]["ops"][:6]})
    return traces, cases


def random_scope_ops(rng, real, n):
    s = G.Subject(real)
    levels = ["io", "out", "err"] if s.io is not None else ["out"]
    names = [e["name"] for e in line_entries(s.cls)]
    ops, depth = [], 0
    for _ in range(n):
        x = rng.random()
        if x < 0.3 and depth < 4:
            ops.append({"op": "enter", "level": rng.choice(levels), "mode": rng.choice(["set", "incr"]), "n": rng.choice([0, 1, 2, 3, 4, 7])})
            depth += 1
        elif x < 0.55 and depth > 0:
            ops.append({"op": "exit", "how": rng.choice(["normal", "exception"])})
            depth -= 1
        else:
            k = rng.randint(1, 4)
            lines = [rng.choice(["a", "bc", "", "x1y", "<>", "p\rq", "\x0bs\x85", "t\u2028u\u2029", "\x0c\x1cv\x1d\x1e"])
                     for _ in range(k)]
            lines += [""] * rng.choice([0, 0, 0, 1, 2])  # the text ends in 0, 1 or 2 newlines
            ops.append({"op": "line", "name": rng.choice(names), "lines": lines})
    ops += [{"op": "exit", "how": rng.choice(["normal", "exception"])} for _ in range(depth)]
    return ops


# ================================================================== (d) on the interpreted screen: indented ANSI sections
def screen_base(op):
    return {"op": op, "w": 80, "fk": "", "sa": False, "what": "", "line": [], "ind": 0, "ops": [], "res": "ok"}


SCREEN_FMT = {"forced": ("forced", False), "ansistream": ("ansi", True), "plain": ("plain", False), "plain-ansi": ("plain", True)}


def run_screen_case(case):
    """case = {fmt: forced|ansistream|plain (PlainFormatter on a plain stream)|plain-ansi (PlainFormatter on a stream that
    reports ANSI support: undecorated all the same), route: parent|section|scope, inds: [indentation per section], ops: [line(s) |
    overwrite(s) | clear(s) | clearn(s, k)]}: section outputs of ONE decorated Output; route says how a section gets its
    indentation: 'parent' - created while the parent output carries it (Output.section copies it), 'section' -
    section.indent(n) after creation, 'scope' - every operation inside `with section.indent(n)`.
    Every operation's bytes are tokenised into terminal operations (harness/engine/termbytes.py)."""
    from clikit.api.io import Output
    from clikit.formatter import AnsiFormatter, PlainFormatter
    from clikit.io.output_stream import BufferedOutputStream

    from harness.engine import termbytes

    cols = os.environ.get("COLUMNS")
    os.environ["COLUMNS"] = "80"
    evs = [screen_base("new")]
    try:
        try:
            Rec = G._rec_class()
            fk0, sa = SCREEN_FMT[case["fmt"]]
            evs[0].update(fk=fk0, sa=sa)

            def fmt(k):
                return PlainFormatter() if k == "plain" else AnsiFormatter(forced=(k == "forced"))

            rec = Rec(BufferedOutputStream(), True if sa else None)
            parent = Output(rec, fmt(fk0))
            secs = []
            for n in case["inds"]:
                if case["route"] == "parent":
                    with parent.indent(n):
                        secs.append(parent.section())
                else:
                    secs.append(parent.section())
                    if case["route"] == "section":
                        secs[-1].indent(n)
        except Exception as e:  # noqa
            evs[0]["res"] = type(e).__name__
            return evs
        t = 0
        for op in case["ops"]:
            if op["op"] == "set_formatter":  # the parent and every section get a formatter of this kind
                ev = dict(screen_base("rewire"), fk=op["fk"], what="set_formatter")
                try:
                    for o in [parent] + secs:
                        o.set_formatter(fmt(op["fk"]))
                except Exception as e:  # noqa
                    ev["res"] = type(e).__name__
                evs.append(ev)
                continue
            sec, n = secs[op["s"] - 1], case["inds"][op["s"] - 1]
            ev = dict(screen_base("op"), what=op["op"] + ("/scope" if case["route"] == "scope" else ""), ind=n)
            text = ""
            if op["op"] in ("line", "overwrite"):
                t += 1
                text = "%s%d" % ("abcdefgh"[t % 8], t)
                ev["line"] = list(text)
            mark = len(rec.data)
            try:
                cm = sec.indent(n) if case["route"] == "scope" else None
                try:
                    if op["op"] == "line":
                        sec.write_line(text)
                    elif op["op"] == "overwrite":
                        sec.overwrite(text)
                    elif op["op"] == "clear":
                        sec.clear()
                    else:
                        sec.clear(op["k"])
                finally:
                    if cm is not None:
                        cm.__exit__(None, None, None)
            except Exception as e:  # noqa
                ev["res"] = type(e).__name__
            ev["ops"] = termbytes.ops("".join(rec.data[mark:]))
            evs.append(ev)
        return evs
    finally:
        if cols is None:
            os.environ.pop("COLUMNS", None)
        else:
            os.environ["COLUMNS"] = cols


def screen_programs(rng, quick):
    """every operation sequence up to a length over two sections (clear(n) only while the section holds n lines), for
    each way of giving the sections their indentation; plus longer random ones over three sections"""
    import itertools

    menu = [("line", 1), ("line", 2), ("overwrite", 1), ("overwrite", 2), ("clear", 1), ("clear", 2), ("clearn", 1), ("clearn", 2)]
    out = []
    settings = [("parent", [2, 2]), ("section", [2, 3]), ("section", [3, 0]), ("scope", [2, 2]), ("section", [0, 2])]
    for length in range(1, (3 if quick else 4) + 1):
        for combo in itertools.product(menu, repeat=length):
            cnt, ops, ok = {1: 0, 2: 0}, [], True
            for name, sct in combo:
                if name == "line":
                    cnt[sct] += 1
                elif name == "overwrite":
                    cnt[sct] = 1
                elif name == "clear":
                    cnt[sct] = 0
                else:
                    if cnt[sct] < 1:
                        ok = False
                        break
                    cnt[sct] -= 1
                ops.append({"op": name, "s": sct, "k": 1})
            if ok and any(o["op"] != "line" for o in ops[1:]) or ok and length >= 2 and ops[-1]["s"] == 1 and ops[0]["s"] == 2:
                out.append(ops)
    cases = []
    for i, ops in enumerate(out):
        for j in range(2 if quick else len(settings)):
            route, inds = settings[(i + j) % len(settings)]
            cases.append({"part": "screen", "fmt": "forced" if (i + j) % 3 else "ansistream", "route": route, "inds": inds, "ops": ops})
        # the same program on an undecorated output: PlainFormatter, on a plain stream and on one that reports ANSI support
        route, inds = settings[i % len(settings)]
        cases.append({"part": "screen", "fmt": "plain-ansi" if i % 4 else "plain", "route": route, "inds": inds, "ops": ops})
        # built decorated, given a plain formatter after the first operation (and the other way round): from then on the
        # outputs must behave like ones built on the new pair
        if i % 2 == 0 and len(ops) >= 2:
            fmt0, fk1 = (("ansistream", "plain"), ("forced", "plain"), ("plain-ansi", "ansi"))[(i // 2) % 3]
            cases.append({"part": "screen", "fmt": fmt0, "route": route, "inds": inds,
                          "ops": [ops[0], {"op": "set_formatter", "fk": fk1}] + ops[1:]})
    for i in range(150 if quick else 3000):
        nsec = rng.randint(2, 3)
        cnt, ops = [0] * nsec, []
        for _ in range(rng.randint(3, 12)):
            sct = rng.randint(1, nsec)
            name = rng.choice(["line", "line", "overwrite", "clear", "clearn"])
            k = 1
            if name == "clearn":
                if cnt[sct - 1] < 1:
                    name = "line"
                else:
                    k = rng.randint(1, cnt[sct - 1])
            cnt[sct - 1] = cnt[sct - 1] + 1 if name == "line" else 1 if name == "overwrite" else 0 if name == "clear" else cnt[sct - 1] - k
            ops.append({"op": name, "s": sct, "k": k})
            if rng.random() < 0.12:
                ops.append({"op": "set_formatter", "fk": rng.choice(["plain", "plain", "ansi", "forced"])})
        cases.append({"part": "screen", "fmt": rng.choice(["forced", "ansistream", "plain-ansi", "plain"]), "route": rng.choice(["parent", "section", "scope"]),
                      "inds": [rng.choice([0, 1, 2, 3, 5]) for _ in range(nsec)], "ops": ops})
    return cases


# ================================================================== the check
def batches(ctx, spec, module, cfg, traces, cases, name, size=30000):
    bt, bc, n = [], [], 0
    for t, c in zip(traces, cases):
        bt.append(t)
        bc.append(c)
        n += sum(len(e.get("toks", ())) + len(e.get("msg", ())) + len(e.get("ops", ())) for e in t) // 8 + len(t)
        if n > size:
            ctx.validate(spec, module, cfg, bt, cases=bc, name=name)
            bt, bc, n = [], [], 0
    if bt:
        ctx.validate(spec, module, cfg, bt, cases=bc, name=name)


def run(ctx):
    quick = ctx.tier == "quick"
    ctx.rule = (
        "(a) TLC renders every balanced message of <= N segments (text incl. plain < and >, \\<, newline, non-ASCII, two "
        "registered styles, one inline style, </>, unknown tags) with the tag machine, decorated and undecorated; (b) every "
        "style of a colour x colour x attribute-set family supplied in three ways; each rendering is replayed through the real "
        "formatters / outputs / I/Os and the token streams compared; (c, d) TLC checks all scope nestings <= MaxNest x line "
        "writers, emits the line-writer table and every well-nested scope program of <= MaxOps operations with probe lines, "
        "replayed on real outputs / I/Os (with-blocks, exceptional exits by raising); plus reflection tables and seeded "
        "random messages / nestings validated by MarkupTrace and OutputLinesTrace.  Non-trivial: a message with a tag, an "
        "escape or an unknown tag; a style x way; a behaviour with a scope or >= 2 operations"
    )
    ctx.assumptions += [
        "balanced = every closing tag names the innermost open style (</> closes the innermost), nothing stays open; unknown "
        "tags and \\< are plain characters; inline styles use valid colour / option names",
        "text symbols are opaque width-1 characters: digits, blank, one non-ASCII letter, <, >, newline; a backslash occurs "
        "only in the escape \\< (an escaped *tag* such as \\<info> inside a styled run is outside the family - see notes)",
        "colour names and codes: the 16-colour SGR convention of the formatter backend (30-37/39, 90-97; white = 97; "
        "background = foreground + 10); attributes bold 1, dark 2, italic 3, underline 4, blink 5, reverse 7, conceal 8",
        "line writers: entry points found by reflection whose name contains 'line'; only a newline separates lines (CR, VT, "
        "FF, FS, GS, RS, NEL, LS, PS are ordinary text); a text ending in n newlines is followed by exactly one newline "
        "either as given (n + 1 at the end) or with its own trailing newlines normalised to one - nothing in between; lines "
        "without blanks; raw writers may or may not indent (they write 'without formatting'); SGR sequences around the text "
        "of a decorated output are not counted",
        "COLUMNS=80; a section output is alone on its stream",
    ]
    t1, c1 = run_markup(ctx, quick)
    batches(ctx, MSPEC, "MarkupTrace", "MarkupTrace.cfg", t1, c1, "recorded-renderings")
    t2, c2 = run_lines(ctx, quick)
    batches(ctx, LSPEC, "OutputLinesTrace", "OutputLinesTrace.cfg", t2, c2, "recorded-lines-and-scopes")
    c3 = screen_programs(ctx.rng, quick)
    t3 = [run_screen_case(c) for c in c3]
    for c in c3:
        ctx.count()
        ctx.nontriv(("screen", norm(c)))
    ctx.extra["section_screen_programs"] = len(c3)
    ctx.sample({"section_screen_program": c3[len(c3) // 2]})
    batches(ctx, LSPEC, "SectionScreenTrace", "SectionScreenTrace.cfg", t3, c3, "indented-sections-on-the-screen")
    ctx.exhaustive = True


def replay(ctx, path):
    d = json.load(open(path))
    c = d["case"]
    ctx.count()
    ctx.nontriv(1)
    ctx.nontriv(2)
    ctx.sample({k: v for k, v in c.items() if k != "ops"} if "ops" in c else c)
    if c["part"] == "screen":
        ctx.validate(LSPEC, "SectionScreenTrace", "SectionScreenTrace.cfg", [run_screen_case(c)], cases=[c], name="replay")
    elif c["part"] == "lines":
        ctx.validate(LSPEC, "OutputLinesTrace", "OutputLinesTrace.cfg", [run_lines_case(c)], cases=[c], name="replay")
    else:
        ctx.validate(MSPEC, "MarkupTrace", "MarkupTrace.cfg", [replay_markup(c)], cases=[c], name="replay")
