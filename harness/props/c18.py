"""C18  Dialogue: drives Question / ChoiceQuestion / ConfirmationQuestion.

No verdict logic here.  The driver asks real questions on a real IO whose input stream is wrapped by a read
budget (a BaseException: the retry loop of clikit swallows every Exception), projects what happened into an
observation record and
  * compares it for equality with the behaviour TLC emitted for the same (question, script)   [spec -> code]
  * ships recorded dialogues (also of random, larger questions and scripts, several questions on one input)
    to DialogueTrace, where TLC evaluates the P-clauses                                         [code -> spec]
"""
import json
import os
import random
import re
import signal

from harness.engine import tlc as T
from harness.engine.core import run_extension

SPEC = os.path.join(T.SPECS, "Dialogue")
NOPAT = {"ci": True, "alts": ["y"], "whole": False, "anch": True, "dflt": True}
SLACK = 3  # reads granted beyond (remaining lines + attempt limit) before the budget ends the dialogue


class Budget(BaseException):
    """raised by the stream wrappers; not an Exception, so that no `except Exception` of clikit can swallow it"""


class Stalled(BaseException):
    """hang guard only (never a verdict): a dialogue that neither reads nor writes nor ends for STALL_S seconds"""


STALL_S = 120


def _on_alarm(signum, frame):
    raise Stalled()


_ENV = {}


def _env():
    """lazy imports of clikit, the wrappers, the style marks; makes `stty` unreachable"""
    if _ENV:
        return _ENV
    import clikit.ui.components.question as qmod
    from clikit.api.io import IO, Input, InputStream, Output, OutputStream
    from clikit.formatter import AnsiFormatter
    from clikit.io.input_stream import StringInputStream
    from clikit.io.output_stream import BufferedOutputStream
    from clikit.ui.components import ChoiceQuestion, ConfirmationQuestion, Question

    class NoStty(object):
        """stands in for the `subprocess` module inside question.py: no stty can be started, the line-reading
        path is taken deterministically (module-attribute substitution, DESIGN 1.5)"""

        def call(self, *a, **k):
            raise OSError("stty is not reachable")

        check_output = call

    if hasattr(qmod, "subprocess"):
        qmod.subprocess = NoStty()

    class NoTty(object):
        """stands in for the `getpass` module inside question.py: there is no terminal to read a hidden answer from
        (the real getpass would open /dev/tty or read the harness' own stdin)"""

        def getpass(self, *a, **k):
            raise RuntimeError("no terminal")

    if hasattr(qmod, "getpass"):
        qmod.getpass = NoTty()
    probe_q = Question("probe")
    if hasattr(probe_q, "_has_stty_available") and probe_q._has_stty_available():
        raise T.MachineryError("stty is reachable: the line-reading path is not guaranteed")

    class BudgetIn(InputStream):
        def __init__(self, inner):
            self.inner = inner  # the stream the I/O holds when ask() is called, however it got there
            self.reads = 0  # read calls
            self.consumed = 0  # ... that returned a line
            self.base = 0  # value of `consumed` when the input was last replaced (set / clear): reading restarts there
            self.budget = 0

        # the string stream's own operations (BufferedIO.set_input / append_input / clear_input go through them)
        def set(self, string):
            self.inner.set(string)
            self.base = self.consumed

        def append(self, string):
            self.inner.append(string)

        def clear(self):
            self.inner.clear()
            self.base = self.consumed

        def read_line(self, length=None):
            self.reads += 1
            if self.reads > self.budget:
                raise Budget()
            r = self.inner.read_line(length=length)
            if r:
                self.consumed += 1
            return r

        def read(self, length):
            self.reads += 1
            if self.reads > self.budget:
                raise Budget()
            return self.inner.read(length)

        def close(self):
            self.inner.close()

        def is_closed(self):
            return self.inner.is_closed()

    class BudgetOut(OutputStream):
        def __init__(self):
            self.inner = BufferedOutputStream()
            self.writes = 0
            self.budget = 0

        def write(self, string):
            self.writes += 1
            if self.writes > self.budget:
                raise Budget()
            self.inner.write(string)

        def flush(self):
            self.inner.flush()

        def supports_ansi(self):
            return True

        def supports_utf8(self):
            return True

        def close(self):
            self.inner.close()

        def is_closed(self):
            return self.inner.is_closed()

        def fetch(self):
            return self.inner.fetch()

    probe = AnsiFormatter(forced=True)
    _ENV.update(
        IO=IO, Input=Input, Output=Output, AnsiFormatter=AnsiFormatter, BudgetIn=BudgetIn, BudgetOut=BudgetOut,
        ChoiceQuestion=ChoiceQuestion, ConfirmationQuestion=ConfirmationQuestion, Question=Question,
        ERR=probe.format("<error>X</error>").split("X")[0],
        QST=probe.format("<question>X</question>").split("X")[0],
    )
    if not _ENV["ERR"] or not _ENV["QST"] or _ENV["ERR"] == _ENV["QST"]:
        raise T.MachineryError("error / question styles are not distinguishable on the error output")
    return _ENV


# ---------------------------------------------------------------------------------- questions
def qdesc(kind, choices=(), multi=False, default=None, defB=True, maxAtt=0, interactive=True, validator=None, pat=None,
          built=None, defInt=False):
    """JSON-able description of a question (python strings).  choices = the caller's list when the question is asked,
    built = the same list when the question object was constructed (the caller changed it in place in between)"""
    return {
        "kind": kind, "choices": list(choices), "built": list(choices if built is None else built),
        "multi": bool(multi), "hasDef": default is not None, "defInt": bool(defInt),
        "def": default or "", "defB": bool(defB), "maxAtt": int(maxAtt), "interactive": bool(interactive),
        "validator": (kind == "choice") if validator is None else bool(validator), "pat": pat or NOPAT,
    }


def q_event(qd):
    """the question as the trace module reads it (texts as lists of characters)"""
    p = qd["pat"]
    return {
        "kind": qd["kind"], "choices": [list(c) for c in qd["choices"]],
        "built": [list(c) for c in qd.get("built", qd["choices"])], "multi": qd["multi"], "hasDef": qd["hasDef"],
        "defInt": bool(qd.get("defInt", False)),
        "def": list(qd["def"]), "defB": qd["defB"], "maxAtt": qd["maxAtt"], "interactive": qd["interactive"],
        "validator": qd["validator"],
        "pat": {"ci": p["ci"], "alts": [list(a) for a in p["alts"]], "whole": p["whole"], "anch": p.get("anch", True)},
    }


def regex_of(p):
    return ("(?i)" if p["ci"] else "") + ("^" if p.get("anch", True) else "") + "(" + "|".join(re.escape(a) for a in p["alts"]) + ")" + \
        ("$" if p["whole"] else "")


ERRMSG = 'No "{}" <comment>{{here}}</comment>'  # a custom error message with braces and markup


def build(qd, kw=False):
    """-> (question, the caller's own choice list or None).  kw: constructor arguments by keyword instead of by position.
    qd may carry driver-only extras that the model does not need: errmsg (set_error_message), hidden (hide(): getpass is
    stubbed to fail, the answer comes from the input), auto (set_autocomplete_values: stty is unreachable)"""
    E = _env()
    k = qd["kind"]
    default = qd["def"] if qd["hasDef"] else None
    if default is not None and qd.get("defInt"):
        default = int(default)  # ChoiceQuestion(q, heroes, 1): the index as an int
    callers_list = None
    if k == "choice":
        callers_list = list(qd.get("built", qd["choices"]))
        if kw:
            q = E["ChoiceQuestion"](question="Pick one", choices=callers_list, default=default)
        else:
            q = E["ChoiceQuestion"]("Pick one", callers_list, default)
        q.set_multi_select(qd["multi"])
        q.set_max_attempts(qd["maxAtt"] or None)
        if qd.get("errmsg"):
            q.set_error_message(ERRMSG)
        callers_list[:] = qd["choices"]  # the caller edits the list it passed in (append / replace / remove), in place
    elif k == "plain":
        q = E["Question"](question="Say", default=default) if kw else E["Question"]("Say", default)
        if qd.get("hidden"):
            q.hide()
        elif qd.get("auto"):
            q.set_autocomplete_values(["alpha", "beta"] + list(qd["choices"]))
        if qd["validator"]:
            accepted = list(qd["choices"])

            def validator(v):
                if v not in accepted:
                    raise ValueError("not an accepted answer")
                return v

            q.set_validator(validator)
            q.set_max_attempts(qd["maxAtt"] or None)
    else:
        if qd["pat"].get("dflt"):
            q = E["ConfirmationQuestion"]("Sure", qd["defB"])  # the library's own default pattern
        elif kw:
            q = E["ConfirmationQuestion"](question="Sure", default=qd["defB"], true_answer_regex=regex_of(qd["pat"]))
        else:
            q = E["ConfirmationQuestion"]("Sure", qd["defB"], regex_of(qd["pat"]))
    return q, callers_list


def reconfigure(q, callers_list, qd, rc):
    """the caller uses a setter / edits its list before asking the same object again; -> the description that holds now"""
    qd = dict(qd)
    if "multi" in rc:
        q.set_multi_select(rc["multi"])
        qd["multi"] = rc["multi"]
    if "maxAtt" in rc:
        q.set_max_attempts(rc["maxAtt"] or None)
        qd["maxAtt"] = rc["maxAtt"]
    if "choices" in rc and callers_list is not None:
        callers_list[:] = rc["choices"]
        qd["built"] = list(qd["choices"])
        qd["choices"] = list(rc["choices"])
    return qd


def proj(v):
    """return value -> tagged record (injective on what the clauses talk about)"""
    r = {"t": "other", "s": [], "l": [], "b": False}
    if v is None:
        r["t"] = "none"
    elif isinstance(v, bool):
        r["t"], r["b"] = "bool", v
    elif isinstance(v, int):
        r["t"], r["s"] = "int", list(str(v))
    elif isinstance(v, str):
        r["t"], r["s"] = "str", list(v)
    elif isinstance(v, (list, tuple)) and all(isinstance(x, str) for x in v):
        r["t"], r["l"] = "list", [list(x) for x in v]
    return r


_FMT = []


def _formatter():
    """a formatter whose style stack is empty: the previous one is re-used only if plain text comes out of it
    unchanged (an exception inside clikit's formatting may leave styles open)"""
    if _FMT:
        try:
            if _FMT[0].format("<b></b>X") == "X":  # text after a closed tag shows styles left open
                return _FMT[0]
        except Exception:  # noqa
            pass
        del _FMT[:]
    _FMT.append(_env()["AnsiFormatter"](forced=True))
    return _FMT[0]


def joined(ls):
    return "".join(x + "\n" for x in ls)


def cl(x):
    """typed text -> the model's characters ("~" stands for the carriage return)"""
    return ["~" if c == "\r" else c for c in x]


def R(op, ls=(), b=False):
    return {"op": op, "ls": list(ls), "b": bool(b)}


class Session(object):
    """one BufferedIO, prepared by a route of API calls (constructor argument, set_input, append_input, stream.set,
    stream.append, clear_input, io.set_interactive, io.input.set_interactive); questions are asked on it one after
    the other.  Only after the route the streams the I/O then holds are wrapped by the budgets."""

    def __init__(self, lines, route=None):
        E = _env()
        from clikit.io import BufferedIO

        self.lines = list(lines)
        self.route = [dict(o) for o in (route or [R("ctor", lines)])]
        self.pending = list(self.route)  # calls made since the previous ask (reported with the next event)
        self.flag = True  # what the calls so far say about interaction
        self.nswitch = 0
        self.raw = None  # the raw seekable stream under a "ctor_stream" I/O
        self.offset = 0  # lines of the current script that earlier stream wrappers have consumed
        io = None
        for o in self.route:
            io = self.call(io, o)
        self.io = io
        self.ins = E["BudgetIn"](io.input.stream)
        io.input.set_stream(self.ins)
        self.out, self.err = E["BudgetOut"](), E["BudgetOut"]()
        io.output.set_stream(self.out)
        io.error_output.set_stream(self.err)
        self.dead = False

    def call(self, io, o):
        from clikit.io import BufferedIO

        k, t = o["op"], joined(o["ls"])
        if k == "ctor":
            return BufferedIO(t, formatter=_formatter())
        if k in ("ctor_stream", "rewrap"):
            # an I/O over a StreamInputStream around a raw io.BytesIO (stdin redirected from a file); "rewrap" builds a NEW
            # stream wrapper, Input and IO around the SAME raw stream, as every create_io / ConsoleIO() does with sys.stdin
            import io as _io

            from clikit.api.io import IO, Input, Output
            from clikit.io.input_stream import StreamInputStream
            from clikit.io.output_stream import BufferedOutputStream

            if k == "ctor_stream":
                self.raw = _io.BytesIO(t.encode("utf-8"))
                fmt = _formatter()
                return IO(Input(StreamInputStream(self.raw)), Output(BufferedOutputStream(), fmt), Output(BufferedOutputStream(), fmt))
            self.flag = True  # a new I/O may ask
            return IO(Input(StreamInputStream(self.raw)), io.output, io.error_output)
        if k == "set_input":
            io.set_input(t)
        elif k == "stream_set":
            io.input.stream.set(t)
        elif k == "append_input":
            io.append_input(t)
        elif k == "stream_append":
            io.input.stream.append(t)
        elif k == "clear_input":
            io.clear_input()
        elif k == "io_inter":
            io.set_interactive(o["b"])
            self.flag = o["b"]
        elif k == "input_inter":
            io.input.set_interactive(o["b"])
            self.flag = o["b"]
        return io

    def reload(self, ops):
        """calls made on the SAME I/O between two asks: the input is replaced / extended; they are reported with the next event"""
        E = _env()
        for o in ops:
            o = dict(o)
            self.io = self.call(self.io, o)
            self.pending.append(o)
            if o["op"] in ("set_input", "stream_set"):
                self.lines, self.offset = list(o["ls"]), 0
            elif o["op"] == "clear_input":
                self.lines, self.offset = [], 0
            elif o["op"] in ("append_input", "stream_append"):
                self.lines = self.lines + list(o["ls"])
        if self.io.input.stream is not self.ins:  # the I/O holds another stream now: the budget follows it
            if not any(o["op"] in ("set_input", "stream_set", "clear_input") for o in ops):
                self.offset += self.ins.consumed - self.ins.base  # same script: what was read stays read
            self.ins = E["BudgetIn"](self.io.input.stream)
            self.io.input.set_stream(self.ins)

    def ask(self, qd, question=None, sess=1, obj=0, reask=False, callers_list=None):
        """asks the question (a fresh object unless one is given), returns the event record"""
        E = _env()
        ins, out, err = self.ins, self.out, self.err
        start = self.offset + ins.consumed - ins.base
        r0 = ins.reads
        o0, e0 = len(out.fetch()), len(err.fetch())
        allow = (len(self.lines) - start) + qd["maxAtt"] + SLACK
        ins.budget = r0 + allow
        out.budget = out.writes + 64
        err.budget = err.writes + 4 * (allow + 2)
        if qd["interactive"] != self.flag:  # only when the calls so far say otherwise; alternately through either API
            self.nswitch += 1
            o = R("io_inter" if self.nswitch % 2 else "input_inter", b=qd["interactive"])
            self.call(self.io, o)
            self.pending.append(o)
        route, self.pending = self.pending, []
        kind, cls, val = "ret", "", None
        if question is None:
            question, callers_list = build(qd)
        try:
            val = question.ask(self.io)
        except Budget:
            kind = "budget"
            self.dead = True
        except (KeyboardInterrupt, Stalled):
            raise
        except BaseException as e:  # noqa: every exception kind is an observation
            kind, cls = "exc", type(e).__name__
        etext = err.fetch()[e0:]
        try:
            left = question.max_attempts
        except Exception:  # noqa
            left = -1
        return {
            "q": q_event(qd), "sess": sess, "obj": obj, "reask": reask,
            "route": [{"op": o["op"], "ls": [cl(x) for x in o["ls"]], "b": o["b"]} for o in route],
            "script": [cl(x) for x in self.lines],
            "start": start,
            "obs": {
                "kind": kind, "cls": cls, "val": proj(val),
                "reads": min(ins.reads, ins.budget) - r0, "consumed": self.offset + ins.consumed - ins.base - start,
                "errs": sum(1 for ln in etext.split("\n") if E["ERR"] in ln),
                "prompts": etext.count(E["QST"]),
                "outBytes": len(out.fetch()) - o0, "errBytes": len(etext),
                "maxAfter": 0 if left is None else (left if isinstance(left, int) and not isinstance(left, bool) else -1),
                "listSame": callers_list is None or callers_list == list(qd["choices"]),
            },
        }


def normal(case):
    """older replay files: {"lines", "questions"} = one input, a fresh object per question"""
    if "sessions" in case:
        return case
    return {"objects": case["questions"], "sessions": [{"lines": case["lines"], "asks": list(range(len(case["questions"])))}]}


def failed_event(qd, lines, route, sess, obj, reask, e, start=0):
    """a step of the driver outside ask() raised (building the question, preparing the I/O): an observation, not a crash"""
    return {
        "q": q_event(qd), "sess": sess, "obj": obj, "reask": reask,
        "route": [{"op": o["op"], "ls": [cl(x) for x in o["ls"]], "b": o["b"]} for o in route],
        "script": [cl(x) for x in lines], "start": start,
        "obs": {"kind": "exc", "cls": type(e).__name__, "val": proj(None), "reads": 0, "consumed": 0, "errs": 0, "prompts": 0,
                "outBytes": 0, "errBytes": 0, "maxAfter": qd["maxAtt"], "listSame": True},
    }


def run_case(case):
    """case = {"objects": [qd, ...], "sessions": [{"lines": [...], "asks": [i | {"obj": i, "reconf": {...}}, ...], "route"}]}
    -> trace.  A question object is built when it is first asked and kept: asking index i again re-asks the SAME object,
    within one input or on a later one; "reconf" = setters used / list edits made by the caller before that ask."""
    case = normal(case)
    old = signal.signal(signal.SIGALRM, _on_alarm)
    signal.alarm(STALL_S)
    try:
        objs = {}  # index -> (question, caller's list, description that holds now)
        tr = []
        for k, ses in enumerate(case["sessions"]):
            route = ses.get("route") or [R("ctor", ses["lines"])]
            try:
                s = Session(ses["lines"], route)
            except (KeyboardInterrupt, Stalled):
                raise
            except Exception as e:  # noqa
                first = ses["asks"][0] if ses["asks"] else 0
                i = first["obj"] if isinstance(first, dict) else first
                tr.append(failed_event(case["objects"][i], ses["lines"], route, k + 1, i + 1, i in objs, e))
                continue
            for a in ses["asks"]:
                i, rc = (a["obj"], a.get("reconf") or {}) if isinstance(a, dict) else (a, {})
                reask = i in objs
                try:
                    if not reask:
                        q, cl_ = build(case["objects"][i], kw=bool(i % 2))
                        objs[i] = (q, cl_, case["objects"][i])
                    if rc:
                        q, cl_, qd = objs[i]
                        objs[i] = (q, cl_, reconfigure(q, cl_, qd, rc))
                    if isinstance(a, dict) and a.get("reload"):
                        s.reload(a["reload"])
                except (KeyboardInterrupt, Stalled):
                    raise
                except Exception as e:  # noqa
                    tr.append(failed_event(case["objects"][i], s.lines, s.pending, k + 1, i + 1, reask, e, s.offset + s.ins.consumed - s.ins.base))
                    s.pending = []
                    continue
                q, cl_, qd = objs[i]
                tr.append(s.ask(qd, q, k + 1, i + 1, reask, cl_))
                if s.dead:
                    return tr
        return tr
    except Stalled:
        raise T.MachineryError("a dialogue made no progress for %d s (no read, no write, no end): %r" % (STALL_S, case))
    finally:
        signal.alarm(0)
        signal.signal(signal.SIGALRM, old)


# ---------------------------------------------------------------------------------- spec -> code
def case_of(rec, pools):
    """the (question, script) a TLC behaviour was generated from"""
    k = rec["kind"]
    if k == "confirm":
        p = dict(pools["patterns"][rec["p"] - 1])
        p["dflt"] = rec["p"] == 1
        qd = qdesc("confirm", defB=rec["db"], interactive=rec["i"], pat=p)
        lines = [pools["confirmAnswers"][j - 1].replace("~", "\r") for j in rec["s"]]
    else:
        dpool = pools["defaults"] if k == "choice" else pools["plainDefaults"]
        rc = rec["f"]["rc"] if rec["rounds"] == 2 else 0
        multi0 = (not rec["m"]) if rc == 2 else rec["m"]  # the behaviour reports the configuration of its last dialogue
        qd = qdesc(k, [pools["choices"][j - 1] for j in rec["c"]], multi0, dpool[rec["d"] - 1] if rec["d"] else None,
                   maxAtt=rec["a"], interactive=rec["i"], validator=rec["v"], built=rec["b"] if k == "choice" else None,
                   defInt=rec.get("di", False))
        lines = [pools["answers"][j - 1].replace("~", "\r") for j in rec["s"]]
        if rc == 2:
            return {"objects": [qd], "sessions": [{"lines": lines, "asks": [0, {"obj": 0, "reconf": {"multi": rec["m"]}}],
                                                   "route": _route(rec)}]}
        if rc == 5:  # a new stream wrapper / IO around the same raw stream before the object is asked again
            return {"objects": [qd], "sessions": [{"lines": lines, "asks": [0, {"obj": 0, "reload": [R("rewrap")]}], "route": _route(rec)}]}
        if rc in (3, 4):  # a new, shorter script on the same I/O before the object is asked again
            op = R("set_input", [x.replace("~", "\r") for x in rec["s2"]]) if rc == 3 else R("clear_input")
            return {"objects": [qd], "sessions": [{"lines": lines, "asks": [0, {"obj": 0, "reload": [op]}], "route": _route(rec)}]}
    # rounds = 2: the same question object is asked twice on the one input
    return {"objects": [qd], "sessions": [{"lines": lines, "asks": [0] * rec["rounds"], "route": _route(rec)}]}


def _route(rec):
    return [{"op": o["op"], "ls": [x.replace("~", "\r") for x in o["ls"]], "b": o["b"]} for o in rec["route"]]


def _exp(o, r, n, e, w, att):
    return {"listSame": True, "kind": o["ok"], "cls": o["x"],
            "val": {"t": o["t"], "s": list(o["vs"]), "l": [list(x) for x in o["vl"]], "b": o["vb"]},
            "reads": r, "consumed": n, "errs": e, "prompts": w, "maxAfter": att}


def expected_obs(rec):
    """the model's outcome of every dialogue of the behaviour"""
    last = _exp(rec, rec["r"], rec["n"], rec["e"], rec["w"], rec["a"])
    if rec["rounds"] == 1:
        return [last]
    f = rec["f"]
    return [_exp(f["o"], f["r"], f["n"], f["e"], f["w"], rec["a"]), last]


def same(exp, o):
    return all(exp[k] == o[k] for k in exp)


def nontrivial(ev):
    o = ev["obs"]
    return o["reads"] >= 2 or o["reads"] > o["consumed"] or ev["q"]["multi"]


class Replayer(object):
    """consumes TLC's output line by line (line_sink): every emitted behaviour is replayed at once"""

    KEEP = 5000

    def __init__(self, ctx):
        self.ctx = ctx
        self.rng = random.Random(ctx.seed + 18)  # own generator: TLC's output order must not shift the random sessions
        self.nmism = 0
        self.pools = None
        self.n = 0
        self.mism = []  # (trace, case)
        self.sampled = []
        self.kinds = {}
        self.cats = {}
        self.first = None

    def __call__(self, line):
        rec = T.parse_emit(line)
        if rec is None:
            return False
        if rec.get("pools"):
            self.pools = rec
            return True
        if self.pools is None:
            raise T.MachineryError("behaviour emitted before the pools")
        case = case_of(rec, self.pools)
        tr = run_case(case)
        self.n += 1
        self.ctx.count()
        self.kinds[rec["kind"]] = self.kinds.get(rec["kind"], 0) + 1
        # what kinds of model behaviours were enumerated (vacuity guard, not a verdict)
        if not rec["i"]:
            cat = "non-interactive"
        elif rec["ok"] == "ret":
            cat = "answer-after-retry" if rec["r"] >= 2 else ("multi-answer" if rec["t"] == "list" else "answer-first-try")
        elif rec["r"] > rec["n"]:
            cat = "gave-up-at-end-of-input"
        else:
            cat = "failed-after-all-attempts"
        self.cats[cat] = self.cats.get(cat, 0) + 1
        if nontrivial(tr[0]):
            self.ctx.nontrivial_n += 1  # every TLC behaviour is a distinct (question, script)
        exp = expected_obs(rec)
        if len(tr) != len(exp) or not all(same(x, ev["obs"]) for x, ev in zip(exp, tr)):
            # all of them are decided by DialogueTrace up to KEEP; beyond that a uniform sample of KEEP (reservoir)
            self.nmism += 1
            if len(self.mism) < self.KEEP:
                self.mism.append((tr, case))
            else:
                j = self.rng.randrange(self.nmism)
                if j < self.KEEP:
                    self.mism[j] = (tr, case)
        elif self.n % 97 == 0 and len(self.sampled) < 3000:
            self.sampled.append((tr, case))
        if self.first is None and rec["r"] >= 2:
            self.first = {"tlc_behaviour": case, "model_outcome": exp}
        return True


# ---------------------------------------------------------------------------------- code -> spec
NAMES = ["Superman", "Batman", "Spiderman", "a", "A", "b", "1", "0", "2", "10", "x y", "a.b", "a-b", "xy", "ab", "-1", "c_d", ""]
JUNK = ["zz", "John", "</info>", "+1", "01", "-0", "1_0", "99", "-2", "-1", "4", "5", "a b", "a,", ",a", "a,,b", "0 1", "?", "yes", "{}", "{0}", "%s"]
CONF = ["y", "Y", "yes", "YES", "n", "no", "j", "J", "oui", "ye", "yess", "ny", " y", "y ", "  ", "", "o", "Oui", "0", "1",
        "nay", "oh yes", "not ok", "ok", "OK", "01", "10", "no way", "maybe", "yes please"]
PATS = [NOPAT, {"ci": True, "alts": ["j", "y"], "whole": False}, {"ci": False, "alts": ["yes", "oui"], "whole": True},
        {"ci": True, "alts": ["o", "y"], "whole": False}, {"ci": False, "alts": ["y"], "whole": False},
        # without "^": re.match still anchors at the start
        {"ci": False, "alts": ["y"], "whole": False, "anch": False}, {"ci": True, "alts": ["ok", "1"], "whole": False, "anch": False},
        {"ci": False, "alts": ["yes", "ys"], "whole": True, "anch": False}, {"ci": True, "alts": ["ye"], "whole": False, "anch": False}]


def pad(rng, s):
    return rng.choice(["", "", " ", "  ", "\t"]) + s + rng.choice(["", "", " ", "\t ", "\r", " \r"])  # CRLF input lines


def rand_item(rng, choices):
    x = rng.random()
    n = len(choices)
    if x < 0.35:
        return rng.choice(choices)
    if x < 0.65:
        return str(rng.randrange(0, n))
    if x < 0.75:
        return str(rng.choice([n, n + 1, -1, -2, 10 * n, 99]))
    if x < 0.8:
        return rng.choice(choices).swapcase()
    return rng.choice(JUNK)


def rand_line(rng, qd):
    if qd["kind"] == "confirm":
        return rng.choice(CONF)
    x = rng.random()
    if x < 0.12:
        return rng.choice(["", "", " ", "\t"])
    if qd["multi"] and x < 0.6:
        k = rng.randint(1, 3)
        return pad(rng, rng.choice([",", ", ", " , ", " ,"]).join(rand_item(rng, qd["choices"]) for _ in range(k)))
    return pad(rng, rand_item(rng, qd["choices"]))


def rand_question(rng):
    x = rng.random()
    inter = rng.random() < 0.92
    if x < 0.12:
        return qdesc("confirm", defB=rng.random() < 0.5, interactive=inter, pat=rng.choice(PATS))
    n = rng.randint(1, 5)
    choices = [rng.choice(NAMES) for _ in range(n)]
    att = rng.choice([0, 1, 2, 3])
    if x < 0.24:
        val = rng.random() < 0.75
        qd = qdesc("plain", choices, default=rng.choice([None, None, choices[0], "zz", ""]), maxAtt=att if val else 0,
                   interactive=inter, validator=val)
        x = rng.random()  # driver-only extras: entry points that must not change the dialogue
        if x < 0.2:
            qd["hidden"] = True
        elif x < 0.4:
            qd["auto"] = True
        return qd
    multi = rng.random() < 0.45
    default = None
    if rng.random() < 0.45:
        if multi and rng.random() < 0.6:
            default = rng.choice([",", ", ", " , "]).join(str(rng.randrange(0, n)) for _ in range(rng.randint(1, 2)))
            if rng.random() < 0.3:
                default = " " + default + " "
        else:
            default = str(rng.randrange(0, n))
    qd = qdesc("choice", choices, multi, default, maxAtt=att, interactive=inter,
               defInt=(not multi and default is not None and default.isdigit() and rng.random() < 0.35))
    if rng.random() < 0.25:
        qd["errmsg"] = True
    return qd


def callers_edit(rng, qd):
    """the caller changed its list after building the question: qd["built"] is what the list held at that time"""
    cs = qd["choices"]
    x = rng.random()
    if x < 0.4 and len(cs) >= 2:
        qd["built"] = cs[:-1]  # appended the last choice
    elif x < 0.75:
        qd["built"] = [rng.choice(["gone", "Robin", "7"])] + cs[1:]  # replaced the first
    else:
        qd["built"] = cs + [rng.choice(["gone", "Robin"])]  # removed one
    return qd


def rand_route(rng, lines, inter):
    """some way through the BufferedIO API to an I/O that holds `lines` and is (not) interactive"""
    k = rng.choice([0, len(lines), len(lines), rng.randint(0, len(lines))])
    route = [R("ctor", lines[:k])]
    if k < len(lines) or rng.random() < 0.2:
        x = rng.random()
        if x < 0.35:
            route.append(R("set_input", lines))
        elif x < 0.55:
            route.append(R("stream_set", lines))
        elif x < 0.65:
            route += [R("clear_input"), R(rng.choice(["append_input", "stream_append"]), lines)]
        else:
            m = rng.randint(k, len(lines))
            route += [R(rng.choice(["append_input", "stream_append"]), lines[k:m]), R(rng.choice(["append_input", "stream_append"]), lines[m:])]
    if not inter or rng.random() < 0.15:
        sw = [R(rng.choice(["io_inter", "input_inter"]), b=inter)]
        if rng.random() < 0.3:
            sw.insert(0, R(rng.choice(["io_inter", "input_inter"]), b=not inter))
        for o in sw:  # anywhere after the constructor: before or after the input is loaded
            route.insert(rng.randint(1, len(route)), o)
        # keep the order of the two switches
        idx = [i for i, o in enumerate(route) if o["op"] in ("io_inter", "input_inter")]
        if len(idx) == 2 and route[idx[1]]["b"] != inter:
            route[idx[0]], route[idx[1]] = route[idx[1]], route[idx[0]]
    return route


def rand_reconf(rng, qd):
    rc = {}
    if qd["kind"] == "choice":
        x = rng.random()
        # a comma default belongs to multi-select; an int default to single-select (multi-select splits its default text)
        if x < 0.4 and not (qd["multi"] and "," in qd["def"]) and not qd.get("defInt"):
            rc["multi"] = not qd["multi"]
        elif x < 0.7:
            cs = list(qd["choices"])
            edits = [cs + [rng.choice(["late", "3"])], [rng.choice(["new", "b"])] + cs[1:]]
            if not qd["hasDef"]:  # a default names indices: the list must not get shorter than that
                edits.append(cs[1:] or ["only"])
            rc["choices"] = rng.choice(edits)
    if not rc or rng.random() < 0.3:
        if qd["validator"]:
            rc["maxAtt"] = rng.choice([0, 1, 2, 3])
    return rc


def describe_after(qd, rc):
    qd = dict(qd)
    for k in ("multi", "maxAtt"):
        if k in rc:
            qd[k] = rc[k]
    if "choices" in rc and qd["kind"] == "choice":
        qd["choices"] = list(rc["choices"])
    return qd


def rand_case(rng):
    """1-2 inputs; 1-4 question objects, some of them asked again (same input or the next one)"""
    objects = [rand_question(rng) for _ in range(rng.randint(1, 4))]
    for qd in objects:
        if qd["kind"] == "choice" and rng.random() < 0.2:
            callers_edit(rng, qd)
    sessions = []
    asked, current = set(), {i: qd for i, qd in enumerate(objects)}
    for _s in range(rng.choice([1, 1, 2])):
        asks = list(range(len(objects))) if not sessions else []
        for _ in range(rng.choice([0, 1, 1, 2]) + (1 if sessions else 0)):
            asks.insert(rng.randint(1 if asks else 0, len(asks)), rng.randrange(len(objects)))
        # an object that is asked again may have been reconfigured by the caller in between
        seen_now, out_asks, lines = set(asked), [], []
        first_lines, segments = lines, []
        for i in asks:
            a = i
            if i in seen_now and rng.random() < 0.35:
                a = {"obj": i, "reconf": rand_reconf(rng, current[i])}
                current[i] = describe_after(current[i], a["reconf"])
            seen_now.add(i)
            out_asks.append(a)
            if out_asks[:-1] and rng.random() < 0.12:
                # the script so far ends here; the same I/O gets another one (usually shorter than what will be asked)
                segment = []
                a = a if isinstance(a, dict) else {"obj": i}
                out_asks[-1] = a
                a["reload"] = segment_ops = []
                segments.append((segment_ops, segment))
                lines = segment
                if rng.random() < 0.5:
                    continue  # no line at all for this question
            for _ in range(rng.choice([0, 1, 1, 1, 2, 2, 3])):
                lines.append(rand_line(rng, current[i]))
        asked |= seen_now
        if rng.random() < 0.3:  # plenty of input: the dialogues end before the input does
            lines += [rand_line(rng, current[asks[-1]]) for _ in range(3)]
        for ops, seg in segments:
            ops.append(R("clear_input") if not seg and rng.random() < 0.5 else R(rng.choice(["set_input", "set_input", "stream_set"]), seg))
        inter0 = objects[asks[0]]["interactive"] if asks else True
        if not segments and rng.random() < 0.15:
            # the input is a raw seekable stream; new wrappers / IOs are built around it between the questions
            for j in range(1, len(out_asks)):
                if rng.random() < 0.5:
                    a = out_asks[j] if isinstance(out_asks[j], dict) else {"obj": out_asks[j]}
                    a["reload"] = [R("rewrap")]
                    out_asks[j] = a
            sessions.append({"lines": first_lines, "asks": out_asks, "route": [R("ctor_stream", first_lines)] + ([] if inter0 else [R("io_inter", b=False)])})
            continue
        sessions.append({"lines": first_lines, "asks": out_asks, "route": rand_route(rng, first_lines, inter0)})
    return {"objects": objects, "sessions": sessions}


# ---------------------------------------------------------------------------------- check
REASK = ("MC_Dialogue_reask.cfg", "same-object-asked-twice + caller-edits-the-list", 6000)
MODEL_RUNS = {
    "quick": [("MC_Dialogue_quick.cfg", "choice-dialogues", 45000), ("MC_Dialogue_misc.cfg", "plain-confirm-noninteractive", 1500), REASK],
    "thorough": [("MC_Dialogue_quick.cfg", "choice-dialogues", 45000), ("MC_Dialogue_misc.cfg", "plain-confirm-noninteractive", 1500), REASK,
                 ("MC_Dialogue_thorough_a.cfg", "choice-dialogues-3-lines (safety)", 600000),
                 ("MC_Dialogue_thorough_b.cfg", "choice-dialogues-3-choices (safety)", 500000)],
}


def run(ctx):
    quick = ctx.tier == "quick"
    _env()
    ctx.rule = (
        "TLC enumerates every (choice list, select mode, default, attempt limit, script) over small pools, checks the "
        "P-clauses on the model's outcome and termination under weak fairness, and emits each finished dialogue; every one "
        "is replayed on the real ChoiceQuestion / Question / ConfirmationQuestion behind a read budget and compared "
        "(outcome, value, reads, lines consumed, error lines, prompts, max_attempts afterwards); one configuration asks the "
        "SAME question object twice on one input and lets the caller change its choice list between construction and ask; "
        "seeded random sessions (1-2 inputs, 1-4 question objects some of them asked again, caller-edited lists, 1-5 "
        "choices, scripts up to 12 lines) are validated by DialogueTrace.  Non-trivial: the dialogue was asked "
        "again at least once, met the end of input, or is multi-select"
    )
    ctx.assumptions += [
        "typed lines are trimmed and an empty line stands for the default (Question._do_ask, tests); white space = {SP, TAB}",
        "defaults of a choice question are texts of valid indices (comma-separated for multi-select); attempt limits in {unlimited,1,2,3}",
        "interchangeability is demanded for choices that can be typed: equal to their trimmed form, non-empty, without comma in multi-select; "
        "a text that is itself a choice denotes that choice (value match has precedence over index)",
        "the statement is silent (free) on: answers equal to several choices, non-canonical integers (+1, 01, 1_0, -0), "
        "an empty line without default, empty items (a,,b)",
        "every rejected entry is reported once: printed when the question is asked again, printed or raised when attempts are exhausted",
        "at end of input the question must fail (any exception) within remaining lines + attempt limit + %d reads" % SLACK,
        "stty is unreachable (module attribute substitution), ASCII answers, lines shorter than 4096 characters",
        "the choices of a question are the content of the caller's list at the time of asking (the question keeps a reference)",
        "every dialogue of a question object is judged by the configured attempt limit: nothing survives in the object",
    ]
    # the retry loop of the pinned tree, as a model: TLC must find the lasso (the liveness property has teeth)
    r = ctx.model(SPEC, "MC_Dialogue", "MC_Dialogue_lasso.cfg", name="pinned-retry-loop-spins (violation expected)",
                  expect_ok=False, workers=4)
    if not r.violated:
        raise T.MachineryError("Termination is not violated by the retry-on-abort variant: the liveness check is vacuous")
    ctx.extra["lasso_of_retry_on_abort_found_by_tlc"] = True
    if not quick:  # a validator that keeps the list as it was at construction: TLC must find a P-clause broken
        r = ctx.model(SPEC, "MC_Dialogue", "MC_Dialogue_snapshot.cfg", name="validator-on-snapshot (violation expected)",
                      expect_ok=False, workers=4)
        if not r.violated:
            raise T.MachineryError("the snapshot variant breaks no P-clause: the caller-edits step is vacuous")

    rp = Replayer(ctx)
    for cfg, name, least in MODEL_RUNS[ctx.tier]:
        before = rp.n
        ctx.model(SPEC, "MC_Dialogue", cfg, name=name, workers=8, line_sink=rp, timeout=1500)
        if rp.n - before < least:
            raise T.MachineryError("%s emitted only %d behaviours" % (cfg, rp.n - before))
    ctx.extra["tlc_behaviours_replayed"] = rp.n
    ctx.extra["tlc_behaviours_by_kind"] = rp.kinds
    ctx.extra["tlc_behaviours_by_outcome"] = rp.cats
    for cat in ("non-interactive", "answer-after-retry", "multi-answer", "answer-first-try", "gave-up-at-end-of-input",
                "failed-after-all-attempts"):
        if rp.cats.get(cat, 0) < 50:
            raise T.MachineryError("model behaviours of kind '%s' are (nearly) missing: %r" % (cat, rp.cats))
    for k in ("choice", "plain", "confirm"):
        if rp.kinds.get(k, 0) < 50:
            raise T.MachineryError("model behaviours of question kind '%s' are (nearly) missing: %r" % (k, rp.kinds))
    ctx.extra["tlc_behaviours_not_reproduced"] = rp.nmism
    ctx.extra["tlc_behaviours_not_reproduced_sent_to_trace_validation"] = len(rp.mism)
    ctx.exhaustive = True
    if rp.first:
        ctx.sample(rp.first)

    traces = [t for t, _ in rp.mism + rp.sampled]
    cases = [dict(c, kind="tlc-behaviour") for _, c in rp.mism + rp.sampled]
    n = 2500 if quick else 40000
    for k in range(n):
        case = rand_case(ctx.rng)
        tr = run_case(case)
        traces.append(tr)
        cases.append(dict(case, kind="random-session"))
        ctx.count(len(tr))
        for j, ev in enumerate(tr):
            if nontrivial(ev):
                ctx.nontriv(("r", k, j))
    ctx.sample({"random_session": cases[-1]})
    ctx.validate(SPEC, "DialogueTrace", "DialogueTrace.cfg", traces, cases=cases, name="recorded-dialogues")
    # ---- extension beyond the listed property: input / output streams and small utilities (specs/Streams; A-clauses only)
    from harness.props import ext_streams

    run_extension(ctx, "streams", ext_streams.run_ext)


def replay(ctx, path):
    d = json.load(open(path))
    if d.get("kind") == "model":  # a P-invariant / Termination violated inside the model: run that configuration again
        ctx.model(SPEC, d["module"], d["cfg"], name="replay-model", workers=8)
        ctx.count()
        return
    c = d["case"]
    tr = run_case(c)
    ctx.count(len(tr))
    ctx.nontriv("replay")
    ctx.nontriv("replay2")
    ctx.sample(c)
    ctx.validate(SPEC, "DialogueTrace", "DialogueTrace.cfg", [tr], cases=[c], name="replay")
