"""C01  well-formed command lines parse to exactly the intended assignment."""
import json
import os

from harness.engine import tlc as T
from harness.props import argslib as L

SPEC = os.path.join(T.SPECS, "ArgsParser")


def agrees(res, extra):
    return (extra["avalPos"] == res["aval"] and extra["asetPos"] == res["aset"] and extra["ovalShort"] == res["oval"]
            and extra["osetShort"] == res["oset"] and extra["allA"] == res["aval"] and extra["allO"] == res["oval"]
            and extra["setA"] == res["aset"] and extra["setO"] == res["oset"] and not extra["extraKeys"])


# ---------------------------------------------------------------- random formats and (mostly well-formed) recipes
LETTERS = "abcdefghkmnpqrtuvw"
VALS = {"str": ["x", "null", "-q", "a=b", "add", "7", "x y", "e", "", "a_b", "--x", "a-b_c=d", "X", "a,b", "1e3", "--"],
        "int": ["7", "-3", "0", "42", "1_000", "+5", " 12 ", "9007199254740993"], "bool": ["true", "0", "no", "1", "on", "false", "yes", "off"]}


def rand_format(rng):
    nopt = rng.randint(0, 5)
    shorts = rng.sample(LETTERS, nopt)
    opts, longs = [], set()
    for k in range(nopt):
        while True:
            lg = rng.choice(LETTERS) + "".join(rng.choice(LETTERS + "-") for _ in range(rng.randint(1, 3)))
            if lg not in longs and not lg.endswith("-"):
                break
        longs.add(lg)
        mode = rng.choice(["none", "req", "opt", "multi"])
        ty = rng.choice(["str", "int", "bool"])
        dflt = {"t": "N"}
        if mode == "opt":
            dflt = {"t": "s", "v": list(rng.choice({"str": ["d", ""], "int": ["5", "0"], "bool": ["true", "0", ""]}[ty]))}
            if rng.random() < 0.3:   # a default that is a Python value, not a text: True, 1, 0, 7 (True == 1 and hash alike)
                dflt = rng.choice([{"t": "T"}, {"t": "I", "v": ["1"]}, {"t": "I", "v": ["0"]}, {"t": "I", "v": ["7"]}])
        opts.append({"long": list(lg), "short": shorts[k] if rng.random() < 0.7 else "", "mode": mode, "type": ty,
                     "nullable": rng.random() < 0.3, "dflt": dflt})
    narg = rng.randint(0, 4)
    nreq = rng.randint(0, narg)
    args = []
    for k in range(narg):
        ty = rng.choice(["str", "int", "bool"])
        args.append({"name": "p%d" % (k + 1), "req": k < nreq, "multi": k == narg - 1 and rng.random() < 0.4, "type": ty,
                     "nullable": rng.random() < 0.3, "dflt": {"t": "N"}})
    if args and rng.random() < 0.15:   # an argument named like the parser's internal stand-ins for command names
        args[rng.randrange(len(args))]["name"] = rng.choice(["cmd11", "cmd21", "cmd12"])
    cn = []
    for k in range(rng.randint(0, 2)):
        cn.append({"n": list(["srv", "add"][k]), "al": [list(a) for a in ([["s"], ["a2", "plus"]][k] if rng.random() < 0.7 else [])]})
    return {"cnames": cn, "args": args, "opts": opts}


def rand_recipe(rng, f, shape=None):
    """shape: None | "allpos" (every argument slot filled) | "reqlast" (only the required ones, the last item a positional)"""
    rc = []
    names_given = 0
    for k, c in enumerate(f["cnames"]):
        if rng.random() < 0.7:
            al = rng.randint(0, len(c["al"]))
            rc.append({"k": "name", "i": k + 1, "alias": al})
            names_given += 1
        else:
            break
    nreq = sum(1 for a in f["args"] if a["req"])
    npos = rng.randint(nreq, len(f["args"])) if f["args"] else 0
    if shape == "allpos":
        npos = len(f["args"])
    elif shape == "reqlast":
        npos = nreq
    pos = []
    for k in range(npos):
        a = f["args"][k]
        reps = rng.randint(1, 3) if a["multi"] else 1
        for _ in range(reps):
            pos.append({"k": "pos", "v": list(rng.choice(VALS[a["type"]]))})
    opt_items = []
    flags = [j for j, o in enumerate(f["opts"]) if o["mode"] == "none" and o["short"]]
    used = set()
    for j, o in enumerate(f["opts"]):
        if rng.random() < 0.6 or j in used:
            continue
        reps = rng.randint(1, 2) if o["mode"] == "multi" else 1
        for _ in range(reps):
            v = list(rng.choice(VALS[o["type"]]))
            if o["mode"] == "none":
                style = rng.choice(["l", "s"] if o["short"] else ["l"])
                v = []
            elif o["mode"] == "opt" and rng.random() < 0.4:
                style = rng.choice(["l", "s"] if o["short"] else ["l"])
                v = []
            else:
                style = rng.choice(["l=", "l_", "s+", "s_"] if o["short"] else ["l=", "l_"])
            grp = [g for g in flags if g != j and g not in used]
            if o["short"] and grp and rng.random() < 0.3 and style in ("s", "s+", "s_"):
                g = rng.choice(grp)
                used.add(g)
                opt_items.append({"k": "grp", "j": g + 1, "j2": j + 1, "style": style, "v": v})
            else:
                opt_items.append({"k": "opt", "j": j + 1, "style": style, "v": v})
        used.add(j)
    # interleave: names first (options may sit between them), then positionals and options, optional "--" after the last option
    body = list(pos)
    for it in opt_items:
        body.insert(rng.randint(0, len(body)), it)
    if rng.random() < 0.5:
        last_opt = max([i for i, it in enumerate(body) if it["k"] != "pos"], default=-1)
        body.insert(rng.randint(last_opt + 1, len(body)), {"k": "sep"})
    head = list(rc)
    if head and opt_items and rng.random() < 0.3:
        it = body.pop([i for i, x in enumerate(body) if x["k"] in ("opt", "grp")][0])
        head.insert(rng.randint(0, len(head)), it)
    if shape == "reqlast" and pos:
        body = [it for it in body if it["k"] != "sep"]
        last = max(i for i, it in enumerate(body) if it["k"] == "pos")
        body.append(body.pop(last))
    return head + body


def render(f, rc):
    out = []
    for it in rc:
        if it["k"] == "name":
            c = f["cnames"][it["i"] - 1]
            out.append(L.txt(c["n"]) if it["alias"] == 0 else L.txt(c["al"][it["alias"] - 1]))
        elif it["k"] == "pos":
            out.append(L.txt(it["v"]))
        elif it["k"] == "sep":
            out.append("--")
        else:
            o = f["opts"][(it["j2"] if it["k"] == "grp" else it["j"]) - 1]
            head = ("-" + f["opts"][it["j"] - 1]["short"] + o["short"]) if it["k"] == "grp" else None
            st, v = it["style"], L.txt(it["v"])
            lg, sh = "--" + L.txt(o["long"]), "-" + o["short"]
            if it["k"] == "grp":
                out += {"s": [head], "s+": [head + v], "s_": [head, v]}[st]
            else:
                out += {"l=": [lg + "=" + v], "l_": [lg, v], "s+": [sh + v], "s_": [sh, v], "l": [lg], "s": [sh]}[st]
    return out


def run(ctx):
    try:
        _run(ctx)
    except L.GiveUp:   # parses that do not terminate: judged, nothing more is generated
        L.judge_hangs(ctx, SPEC)


def _run(ctx):
    quick = ctx.tier == "quick"
    from clikit.args import DefaultArgsParser

    ctx.rule = (
        "TLC builds every well-formed recipe of <= MaxItems items (every spelling style --l=v / --l v / -sv / -s v / bare / "
        "grouped shorts, every interleaving among command names (by name, alias or omitted) and positionals, optional '--' tail) "
        "for 6 formats x strict/lenient and checks RoundTrip on the parser model; each emitted line is parsed by the real parser "
        "on the format built with and without a base format; -simulate adds recipes up to 7 items; seeded random formats "
        "(0-5 options, 0-4 arguments, 0-2 command names) with random recipes are decided by ArgsParserTrace, where TLC itself "
        "renders the recipe, decides whether it is a spelling (WellFormed) and computes Intended; non-trivial = >= 2 items"
    )
    ctx.assumptions += [
        "a spelling (ArgsSpell.WellFormed) excludes what GNU-style syntax cannot express: separate-token values that are empty or start with '-', empty '='/attached values, a bare optional-value option directly followed by a plain token, a first positional that reads as the next omitted command name, dash-positionals before '--'",
        "optional-value options carry a default that converts; types str/int/bool",
    ]
    traces, cases = [], []
    nmis = [0]
    sampled = []

    def replay_records(recs, formats, fobjs, label):
        for m in recs:
            f = formats[m["f"] - 1]
            toks = [L.txt(t) for t in m["line"]]
            for wb in (0, 1):
                err, res, extra = L.parse_once(DefaultArgsParser(), fobjs[m["f"] - 1][wb], f, toks, m["lenient"], form=("string" if wb else "argv"))
                ctx.count()
                ok = err == m["err"] and res == m["result"] and extra is not None and agrees(res, extra)
                if not ok:
                    nmis[0] += 1
                if not ok or (len(sampled) < 300 and ctx.rng.random() < 0.003):
                    sampled.append(1)
                    traces.append([L.event(f, fobjs[m["f"] - 1][wb], toks, m["lenient"], recipe=m["recipe"])])
                    cases.append({"f": f, "base": wb, "recipe": m["recipe"], "lenient": m["lenient"], "from": label})
            if len(m["recipe"]) >= 2:
                ctx.nontriv((m["f"], tuple(toks), m["lenient"]))

    r = ctx.model(SPEC, "MC_ArgsSpell", "MC_ArgsSpell_%s.cfg" % ctx.tier, name="spellings-exhaustive", timeout=2400)
    formats = L.formats_from(r)
    fobjs = [(L.build_format(f), L.build_format(f, True)) for f in formats]
    recs = T.emitted(r)
    if len(recs) < 20000:
        raise T.MachineryError("spelling model emitted %d" % len(recs))
    replay_records(recs, formats, fobjs, "exhaustive")
    ctx.sample({"format": recs[-1]["f"], "line": [L.txt(t) for t in recs[-1]["line"]], "result": recs[-1]["result"]})
    n1 = len(recs)
    r = ctx.model(SPEC, "MC_ArgsSpell", "MC_ArgsSpell_sim.cfg", name="spellings-simulated", simulate="num=%d" % (150 if quick else 3000),
                  depth=40, workers=1, seed=ctx.seed % 100000)
    recs = {json.dumps(m, sort_keys=True): m for m in T.emitted(r)}
    replay_records(recs.values(), formats, fobjs, "simulate")
    ctx.extra["tlc_lines_replayed"] = n1 + len(recs)
    ctx.extra["tlc_lines_not_reproduced"] = nmis[0]
    ctx.exhaustive = True

    # ---- code -> spec: random formats and recipes, TLC computes everything
    n = 700 if quick else 15000
    for k in range(n):
        f = rand_format(ctx.rng)
        rc = rand_recipe(ctx.rng, f)
        toks = render(f, rc)
        wb = k % 2
        try:
            fobj = L.build_format(f, bool(wb))
        except Exception as e:  # noqa
            raise T.MachineryError("random format rejected by clikit: %r %s" % (e, f))
        traces.append([L.event(f, fobj, toks, bool(ctx.rng.getrandbits(1)), recipe=rc)])
        cases.append({"f": f, "base": wb, "recipe": rc, "lenient": traces[-1][0]["lenient"], "from": "random"})
        ctx.count()
        ctx.nontriv(("r", k))
    ctx.sample({"random_line": render(cases[-1]["f"], cases[-1]["recipe"])})
    ctx.validate(SPEC, "ArgsParserTrace", "ArgsParserTrace.cfg", traces, cases=cases, name="recorded-parses", chunk=400)
    skipped = ctx.drift.pop("H.recipe.not_wellformed", 0)
    ctx.extra["random_recipes_not_wellformed"] = skipped
    if skipped > 0.7 * n:
        raise T.MachineryError("random generator produces too few well-formed recipes (%d of %d rejected)" % (skipped, n))


def replay(ctx, path):
    d = json.load(open(path))
    c = d["case"]
    f = c["f"]
    fobj = L.build_format(f, bool(c.get("base")))
    ctx.count()
    ctx.nontriv(1)
    ctx.nontriv(2)
    ctx.sample({"line": render(f, c["recipe"])})
    ctx.validate(SPEC, "ArgsParserTrace", "ArgsParserTrace.cfg", [[L.event(f, fobj, render(f, c["recipe"]), c["lenient"], recipe=c["recipe"])]],
                 cases=[c], name="replay")
    ctx.drift.pop("H.recipe.not_wellformed", None)
