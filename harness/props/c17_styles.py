"""C17 (second half)  style objects and repeated renders.  Exposes run_styles(ctx) and replay_styles(ctx, case) for
harness/props/c17.py.  Drives the real TableStyle / BorderStyle factories and the renderable components along
behaviours emitted by TLC (specs/Styles) and along seeded random sequences; rendered texts are interned to numbers
(equal number <=> equal text); every verdict is StylesTrace's."""
import json
import os
import subprocess
import sys

from harness.engine import tlc as T
from harness.engine.core import chunks

SPEC = os.path.join(T.SPECS, "Styles")
GLYPH = {"─": "H", "│": "V", "┌": "A", "┐": "B", "└": "C", "┘": "D", "┼": "X", "├": "L", "┬": "T", "┤": "R", "┴": "U"}
OWN = ["padding_char", "cell_format", "header_cell_format", "cell_style", "header_cell_style"]
STYLED = ["cell_style", "header_cell_style", "style"]  # attributes holding a formatter Style (or None)
BORDER = ["line_ht_char", "line_hc_char", "line_hb_char", "line_vl_char", "line_vc_char", "line_vr_char",
          "corner_tl_char", "corner_tr_char", "corner_bl_char", "corner_br_char",
          "crossing_c_char", "crossing_l_char", "crossing_t_char", "crossing_r_char", "crossing_b_char", "style"]
ALIGN_OPS = ["set_column_alignment", "column_alignments", "default_column_alignment"]
ANSI_IO = {"utf8": True, "ansi": True, "verb": "normal", "width": 40, "ind": 0}


TAGGED = {"bold": lambda st: st.bold(), "red": lambda st: st.fg("red"), "blue": lambda st: st.bg("blue"),
          "under": lambda st: st.underlined()}


def style_value(v):
    """symbolic value of a cell / rule style -> formatter Style.  "tag:attr" is a Style carrying that tag: two values
    with the same tag and different attributes are two different styles that happen to share a name"""
    from clikit.api.formatter import Style

    if v == "":
        return None
    if ":" in v:
        tag, attr = v.split(":", 1)
        return TAGGED[attr](Style(tag))
    return Style().bold() if v == "bold" else Style().underlined()


def style_name(st):
    if st is None:
        return ""
    if st.tag:
        attr = "bold" if st.is_bold() else "under" if st.is_underlined() else "red" if st.foreground_color == "red" else \
            "blue" if st.background_color == "blue" else "?"
        return st.tag + ":" + attr
    return "bold" if st.is_bold() else "#"


NOIO = {"utf8": True, "ansi": False, "verb": "normal", "width": 60, "ind": 0}
KINDS = ["borderless", "compact", "ascii", "solid"]
COMPONENTS = ["table", "para", "parared", "labeled", "labels", "block", "namever", "empty", "apphelp", "cmdhelp", "trace", "trace2"]
LOREM = ("<b>Lorem</b> ipsum dolor sit amet, consetetur sadipscing elitr, sed diam nonumy eirmod tempor invidunt ut "
         "labore et dolore magna aliquyam erat, sed diam voluptua.")


def fresh_process_state():
    """behaviours of the specification start in a fresh process: forget class-level caches (if present)"""
    from clikit.ui.components.exception_trace import ExceptionTrace
    from clikit.ui.style.border_style import BorderStyle

    from clikit.ui.style.table_style import TableStyle

    for cls in (BorderStyle, TableStyle):  # cached style objects held in class attributes
        for a, v in list(vars(cls).items()):
            if isinstance(v, (BorderStyle, TableStyle)):
                setattr(cls, a, None)
    cache = getattr(ExceptionTrace, "_FRAME_SNIPPET_CACHE", None)
    if isinstance(cache, dict):
        cache.clear()


def _site_a():
    raise RuntimeError("first <failure> site")


def _site_b():
    values = {"k": 1}
    return values["missing"]


def _caught(fn):
    try:
        fn()
    except Exception as e:  # noqa
        return e


class AlignedLabels(object):
    """ONE LabelAlignment with aligned LabeledParagraphs, rendered the way BlockLayout does: align, then every paragraph"""

    def __init__(self):
        from clikit.ui.alignment import LabelAlignment
        from clikit.ui.components import LabeledParagraph

        self.alignment = LabelAlignment()
        self.paragraphs = [LabeledParagraph("<c1>--name</c1>", "The name of the thing that is " + LOREM),
                           LabeledParagraph("<c1>-v</c1>", "short"), LabeledParagraph("<c1>--a-longer-label</c1>", "another text")]
        for p in self.paragraphs:
            self.alignment.add(p)
            p.set_alignment(self.alignment)

    def render(self, io, indentation=0):
        self.alignment.align(io, indentation)
        for p in self.paragraphs:
            p.render(io, indentation)


class RefilledBlock(object):
    """ONE BlockLayout; before every render it is filled with the same paragraph and labeled paragraphs (render empties it)"""

    def __init__(self):
        from clikit.ui.layout import BlockLayout

        self.layout = BlockLayout()

    def render(self, io, indentation=0):
        from clikit.ui.components import EmptyLine, LabeledParagraph, Paragraph

        self.layout.add(Paragraph("<b>OPTIONS</b>"))
        with self.layout.block():
            self.layout.add(LabeledParagraph("<c1>--name</c1>", "The name of the thing that is " + LOREM))
            self.layout.add(LabeledParagraph("<c1>-v</c1>", "short"))
        self.layout.add(EmptyLine())
        self.layout.render(io, indentation)


TABLE_HEADER = ["<b>Name</b>", "Text"]


def table_rows():
    return [["one", LOREM.replace("<b>", "").replace("</b>", "")], ["two", "short"]]


class RefilledTable(object):
    """ONE Table that shows other content in between: before every render it is given another header and other rows of the
    same shape, rendered aside, and given its own content back through the setters (what it then shows is its content,
    not what it showed before)"""

    def __init__(self):
        from clikit.ui.components import Table
        from clikit.ui.style import TableStyle

        self.table = Table(TableStyle.ascii())
        self.table.set_header_row(list(TABLE_HEADER))
        self.table.add_rows(table_rows())
        self.n = 0

    def render(self, io, indentation=0):
        from clikit.io import BufferedIO

        self.n += 1
        t = self.table
        # the three setters in turn: header alone, header + all rows, header + one row
        how = self.n % 3
        t.set_header_row(["A much wider header than before", "T"])
        if how == 2:
            t.set_rows([["x", "y"], ["1", "2"]])
        elif how == 0:
            t.set_row(1, ["another second row", "z"])
        t.render(BufferedIO(), indentation)
        if how == 2:
            t.set_rows(table_rows())
        elif how == 0:
            t.set_row(1, table_rows()[1])
        t.set_header_row(list(TABLE_HEADER))
        t.render(io, indentation)


class Driver(object):
    """one behaviour: style objects, component instances, interned texts"""

    def __init__(self, refs=None):
        fresh_process_state()
        self.refs = refs or {}
        self.quiet = False  # True: style operations are not followed by renders
        self.styles = []
        self.own = []  # per style: its own operations (with s = 1), the key of its fresh-process reference
        self.instances = {}
        self.ios = {}
        self.texts = {}
        self._app = None

    def intern(self, text):
        return self.texts.setdefault(text, len(self.texts) + 1)

    # ------------------------------------------------------------ I/O
    def io(self, spec, width=None, redefined=False):
        """redefined: the formatter's style set gives the stock tag c1 other attributes (as an application does with
        config.add_style(Style("c1")...))"""
        from clikit.api.formatter import Style
        from clikit.api.io import flags
        from clikit.formatter import AnsiFormatter, DefaultStyleSet, PlainFormatter
        from clikit.io import BufferedIO
        from clikit.ui.rectangle import Rectangle

        width = width or spec.get("width", 60)
        key = (bool(spec["utf8"]), bool(spec["ansi"]), redefined)
        if key in self.ios:  # one I/O (and formatter) per capability is re-used by all renders of a behaviour
            io = self.ios[key]
            io.clear_output()
            io.clear_error()
            io.set_terminal_dimensions(Rectangle(width, 50))
            io.set_verbosity({"normal": flags.NORMAL, "verbose": flags.VERBOSE, "debug": flags.DEBUG}[spec["verb"]])
            return io
        style_set = None
        if redefined:
            style_set = DefaultStyleSet()
            style_set.add(Style("c1").fg("red").bold())
        fmt = AnsiFormatter(style_set, forced=True) if spec["ansi"] else PlainFormatter(style_set)
        io = BufferedIO(formatter=fmt, supports_utf8=bool(spec["utf8"]))
        io.set_terminal_dimensions(Rectangle(width, 50))
        io.set_verbosity({"normal": flags.NORMAL, "verbose": flags.VERBOSE, "debug": flags.DEBUG}[spec["verb"]])
        self.ios[key] = io
        return io

    # ------------------------------------------------------------ styles
    def table_text(self, style):
        from clikit.ui.components import Table

        t = Table(style)
        t.set_header_row(["h1", "h2", "h3"])
        t.add_rows([["a", "bb", "eeee"], ["ccc", "d", "f"]])
        io = self.io(ANSI_IO, 40)  # ANSI: cell and rule styles are part of what a table shows
        try:
            t.render(io)
            return io.fetch_output()
        except Exception as e:  # noqa
            return "EXC " + type(e).__name__

    def fields(self, style):
        b = style.border_style

        def val(o, f):
            v = getattr(o, f)
            return style_name(v) if f in STYLED else GLYPH.get(v, v)

        own = {f: val(style, f) for f in OWN}
        own["aligns"] = list(style.column_alignments)
        own["dflt"] = style.default_column_alignment
        return {"own": own, "border": {f: val(b, f) for f in BORDER}}

    def app(self):
        if self._app is None:
            from clikit import ConsoleApplication
            from clikit.api.args.format import Argument, Option
            from clikit.api.config import ApplicationConfig

            cfg = ApplicationConfig("app", "1.2.3")
            cfg.set_help("The <b>app</b> tool does things.")
            cfg.add_option("verbose", "v", Option.NO_VALUE, "More output")
            with cfg.command("greet") as c:
                c.set_description("Greets <b>someone</b>")
                c.add_argument("name", Argument.OPTIONAL, "Whom to greet", "world")
                c.add_option("yell", "y", Option.NO_VALUE, "Upper case")
                with c.sub_command("twice") as s:
                    s.set_description("Greets twice")
            with cfg.command("other") as c:
                c.set_description("Another command with a rather long description that needs to be wrapped at sixty columns")
            self._app = ConsoleApplication(cfg)
        return self._app

    def component(self, comp, inst):
        key = (comp, inst)
        if key not in self.instances:
            from clikit.ui.components import EmptyLine, ExceptionTrace, LabeledParagraph, NameVersion, Paragraph, Table
            from clikit.ui.help import ApplicationHelp, CommandHelp
            from clikit.ui.style import TableStyle

            if comp == "table" and inst == 2:
                c = RefilledTable()
            elif comp == "table":
                c = Table(TableStyle.ascii())
                c.set_header_row(list(TABLE_HEADER))
                c.add_rows(table_rows())
            elif comp == "labels":
                c = AlignedLabels()
            elif comp == "block":
                c = RefilledBlock()
            elif comp == "para":
                c = Paragraph(LOREM)
            elif comp == "parared":
                c = Paragraph("<c1>Lorem</c1> ipsum dolor <c2>sit</c2> amet")
            elif comp == "labeled":
                c = LabeledParagraph("<c1>label</c1>", LOREM)
            elif comp == "namever":
                c = NameVersion(self.app().config)
            elif comp == "empty":
                c = EmptyLine()
            elif comp == "apphelp":
                c = ApplicationHelp(self.app())
            elif comp == "cmdhelp":
                c = CommandHelp(self.app().get_command("greet"))
            elif comp == "trace":
                c = ExceptionTrace(_caught(_site_a))
            elif comp == "trace2":
                c = ExceptionTrace(_caught(_site_b))
            else:
                raise T.MachineryError("unknown component " + comp)
            self.instances[key] = c
        return self.instances[key]

    # ------------------------------------------------------------ one operation -> one event
    def step(self, op):
        from clikit.ui.style import TableStyle

        ev = {"op": op["op"], "kind": op.get("kind", ""), "s": op.get("s", 0), "field": op.get("field", ""),
              "value": op.get("value", ""), "comp": op.get("comp", ""), "inst": op.get("inst", 0), "io": op.get("io", NOIO),
              "col": op.get("col", 0), "a": op.get("a", 0), "seq": op.get("seq", []), "ids": [], "fields": [], "refs": [], "id": 0, "ref": 0, "exc": ""}
        k = op["op"]
        try:  # factories and setters may raise on a changed library: an observation, not a crash of the driver
            if k == "make":
                ev["s"] = len(self.styles) + 1
                self.styles.append(getattr(TableStyle, op["kind"])())
                self.own.append([dict(op)])
            elif k == "custom":
                st = self.styles[op["s"] - 1]
                v = style_value(op["value"]) if op["field"] in STYLED else op["value"]
                setattr(st if op["field"] in OWN else st.border_style, op["field"], v)
            elif k == "align":
                st = self.styles[op["s"] - 1]
                if op["field"] == "set_column_alignment":
                    st.set_column_alignment(op["col"], op["a"])
                elif op["field"] == "column_alignments":
                    st.column_alignments = list(op["seq"])
                else:
                    st.default_column_alignment = op["a"]
        except Exception as e:  # noqa
            ev["exc"] = type(e).__name__
        if k == "render":
            io = self.io(op["io"], redefined=(op["comp"] == "parared"))
            try:
                c = self.component(op["comp"], op["inst"])
                ind = op["io"].get("ind", 0)
                if op["comp"] in ("trace", "trace2"):  # the second parameter of an error trace is not an indentation
                    c.render(io)
                elif op["inst"] == 2:  # routes: indentation by keyword / positional / omitted
                    c.render(io, indentation=ind)
                elif ind:
                    c.render(io, ind)
                else:
                    c.render(io)
                text = io.fetch_output() + "\x00" + io.fetch_error()
            except Exception as e:  # noqa: an exception kind is an observation
                text = "EXC " + type(e).__name__
            ev["id"] = self.intern("R" + text)
            # what a fresh process shows for this component on this I/O (absent: no reference, compared with itself)
            ev["ref"] = self.intern("R" + self.refs.get(ref_key(op["comp"], op["io"]), text))
        if k in ("custom", "align") and not ev["exc"]:
            self.own[op["s"] - 1].append(dict(op, s=1))
        if k in ("make", "custom", "align") and not ev["exc"] and not self.quiet:
            ev["ids"] = [self.intern("T" + self.table_text(st)) for st in self.styles]
            ev["fields"] = [self.fields(st) for st in self.styles]
            # what a fresh process shows for a style with this own history alone (0: no reference taken)
            ev["refs"] = [self.intern("T" + self.refs[style_key(h)]) if style_key(h) in self.refs else 0 for h in self.own]
        return ev


def run_ops(ops, refs=None):
    d = Driver(refs)
    return [d.step(op) for op in ops]


def ref_key(comp, io):
    return "%s/%d%d%s%d/%d" % (comp, bool(io["utf8"]), bool(io["ansi"]), io["verb"], io.get("width", 60), io.get("ind", 0))


def style_key(history):
    return "S/" + json.dumps([[o["op"], o.get("kind", ""), o.get("field", ""), o.get("value", ""), o.get("col", 0), o.get("a", 0),
                               o.get("seq", [])] for o in history])


def own_histories(ops):
    """the own histories that occur in a sequence (every prefix per style), as lists of operations with s = 1"""
    own, out = [], []
    for op in ops:
        if op["op"] == "make":
            own.append([dict(op)])
            out.append(list(own[-1]))
        elif op["op"] in ("custom", "align"):
            own[op["s"] - 1].append(dict(op, s=1))
            out.append(list(own[op["s"] - 1]))
    return out


def wants_reference(history):
    """references are taken for styles that carry a tagged Style or whose default alignment was changed - state that an
    earlier render with the same style object may have frozen (an own history is rendered alone in a forked child)"""
    return any((o["op"] == "custom" and o["field"] in STYLED and ":" in o["value"])
               or (o["op"] == "align" and o["field"] == "default_column_alignment") for o in history)


def style_text(history):
    """the style is built by its own history and then used for its FIRST render"""
    d = Driver()
    d.quiet = True
    for op in history:
        d.step(op)
    return d.table_text(d.styles[0])


def render_text(comp, io):
    d = Driver()
    d.step({"op": "render", "comp": comp, "inst": 1, "io": io})
    return [t for t in d.texts][0][1:]


def fresh_references(pairs):
    """{ref_key: text that a fresh process shows}.  A helper process imports clikit, renders nothing itself and forks one
    child per (component, I/O); each child renders exactly once."""
    e = dict(os.environ)
    p = subprocess.run([sys.executable, "-m", "harness.props.c17_styles"], input=json.dumps(pairs), stdout=subprocess.PIPE,
                       stderr=subprocess.PIPE, text=True, timeout=900, env=e, cwd=T.VERIF)
    if p.returncode != 0:
        raise T.MachineryError("reference process failed: " + p.stderr[-400:])
    return json.loads(p.stdout)


def _ref_server():
    import clikit  # noqa: imported, nothing rendered

    pairs = json.loads(sys.stdin.read())
    out = {}
    for item in pairs:
        r, w = os.pipe()
        pid = os.fork()
        if pid == 0:
            os.close(r)
            try:
                data = json.dumps(style_text(item[1]) if item[0] == "S/" else render_text(item[0], item[1]))
            except BaseException as ex:  # noqa
                data = json.dumps("EXC-IN-REFERENCE " + type(ex).__name__)
            with os.fdopen(w, "w") as f:
                f.write(data)
            os._exit(0)
        os.close(w)
        with os.fdopen(r) as f:
            out[style_key(item[1]) if item[0] == "S/" else ref_key(item[0], item[1])] = json.loads(f.read())
        os.waitpid(pid, 0)
    sys.stdout.write(json.dumps(out))


ALL_IOS = [{"utf8": u, "ansi": a, "verb": v, "width": w, "ind": 0} for u in (True, False) for a in (True, False)
           for v in ("normal", "verbose", "debug") for w in (60, 40)]


def random_ops(rng, n, ios=None):
    ops, nstyles = [], 0
    ios = ios or ALL_IOS
    for _ in range(n):
        r = rng.random()
        if r < 0.25 and nstyles < 6 or (nstyles == 0 and r < 0.5):
            ops.append({"op": "make", "kind": rng.choice(KINDS)})
            nstyles += 1
        elif r < 0.4 and nstyles:
            f = rng.choice(OWN + BORDER)
            if f in ("cell_format", "header_cell_format"):
                v = rng.choice(["[{}]", "{}", " {} "])
            elif f in STYLED:
                v = rng.choice(["bold", "#", "", "hdr:bold", "hdr:red", "hdr:blue", "cel:under", "cel:red"])
            else:
                v = rng.choice(["#", "", "~", " ", "="])
            ops.append({"op": "custom", "s": rng.randint(1, nstyles), "field": f, "value": v})
        elif r < 0.55 and nstyles:
            how = rng.choice(ALIGN_OPS + ["set_column_alignment"])
            ops.append({"op": "align", "s": rng.randint(1, nstyles), "field": how, "col": rng.randint(0, 2), "a": rng.randint(0, 2),
                        "seq": [rng.randint(0, 2) for _ in range(rng.randint(0, 3))] if how == "column_alignments" else []})
        else:
            c = rng.choice(COMPONENTS + ["trace", "trace", "table", "labels", "labels", "block"])
            ops.append({"op": "render", "comp": c, "inst": rng.choice([1, 1, 2]), "io": dict(rng.choice(ios), ind=rng.choice([0, 0, 4, 4, 2, 6] if len(ios) > 8 else [0, 0, 4]))})
    return ops


def nontrivial(ops):
    """aliasing is possible (two styles from the same BorderStyle factory) or something is rendered twice"""
    bases = [{"borderless": "none", "compact": "none"}.get(o["kind"], o["kind"]) for o in ops if o["op"] == "make"]
    comps = [o["comp"] for o in ops if o["op"] == "render"]
    return len(bases) != len(set(bases)) or len(comps) != len(set(comps))


def _style_ops(beh):
    return [{"op": e["op"], "kind": e["kind"], "s": e["s"], "field": e["field"], "value": e["value"], "col": e["col"], "a": e["a"],
             "seq": e["seq"]} for e in beh]


def _render_ops(beh):
    return [{"op": "render", "comp": e["comp"], "inst": e["inst"], "io": e["io"]} for e in beh]


def run_styles(ctx):
    quick = ctx.tier == "quick"
    ctx.rule = (ctx.rule + " | " if ctx.rule else "") + (
        "styles: TLC enumerates every sequence of TableStyle factory calls / customisations up to Depth and every sequence of "
        "renders of 9 component kinds on 6 I/O capabilities up to Depth (plus -simulate for longer ones) on the heap model of "
        "specs/Styles (NoAliasing, RenderPure); every behaviour is replayed on the real classes, a fixed table is rendered with "
        "every style object after every step, all texts interned; StylesTrace decides P.noalias / P.rerender on all of them and "
        "on seeded random mixed sequences (<= 40 operations).  Non-trivial: two styles from the same BorderStyle factory, or a "
        "component rendered more than once"
    )
    ctx.assumptions += [
        "styles: customisation = every in-place change TableStyle / BorderStyle offer: assigning padding_char, cell_format, "
        "header_cell_format, cell_style, header_cell_style, default_column_alignment, column_alignments of a TableStyle, calling "
        "set_column_alignment(col, a) in any order (columns 0..2 of a 3-column table), assigning any of the 15 characters or the style of its border_style",
        "styles: cell / header / rule styles are untagged Style objects or tagged ones ('hdr:bold' = Style('hdr').bold()); equal tags "
        "with different attributes are different styles; a style carrying a tagged Style is also compared with a fresh process",
        "styles: 'component' = Table, Paragraph (also on a formatter whose style set redefines the stock tag c1), LabeledParagraph, "
        "one LabelAlignment with three aligned LabeledParagraphs (align + render, as a block layout does), one BlockLayout "
        "re-filled with the same elements before every render, EmptyLine, NameVersion, ApplicationHelp, CommandHelp, ExceptionTrace "
        "(a BlockLayout that is rendered again WITHOUT being re-filled shows nothing - it empties itself by design - and is not judged)",
        "styles: every behaviour starts from a fresh process (class-level caches are emptied by the driver between behaviours)",
        "styles: an I/O is characterised by UTF-8 support, ANSI/plain formatter, verbosity and a fixed width of 60",
    ]
    traces, cases = [], []
    notrep = 0
    todo = []

    def add(ops, origin, expect=None):
        todo.append((ops, origin, expect))

    # depth 3 with every attribute in the menu; thorough adds depth 4 with a reduced menu
    for tier in (["quick", "tags"] if quick else ["quick", "tags", "thorough"]):
        r = ctx.model(SPEC, "MC_Styles", "MC_Styles_styles_%s.cfg" % tier, name="styles-all-sequences-" + tier, workers=8)
        recs = T.emitted(r)
        if len(recs) < 300:
            raise T.MachineryError("MC_Styles styles family emitted only %d behaviours" % len(recs))
        for b in recs:
            add(_style_ops(b), "tlc-styles", b)
    if not quick:  # longer behaviours by simulation (the quick tier relies on the random mixed sequences below)
        r = ctx.model(SPEC, "MC_Styles", "MC_Styles_styles_sim.cfg", name="styles-simulate", simulate="num=60", depth=8, workers=1,
                      seed=ctx.seed % 100000)
        for b in T.emitted(r):
            add(_style_ops(b), "tlc-styles-sim", b)
    nstyle = len(todo)
    r = ctx.model(SPEC, "MC_Styles", "MC_Styles_renders_quick.cfg", name="renders-all-sequences", workers=8)
    recs = T.emitted(r)
    if len(recs) < 1000:
        raise T.MachineryError("MC_Styles renders family emitted only %d behaviours" % len(recs))
    if quick:  # every sixteenth pair, chosen by the seed: the full set is replayed in the thorough tier
        recs = recs[ctx.seed % 16 :: 16]
    for b in recs:
        add(_render_ops(b), "tlc-renders")
    # one LabelAlignment / one BlockLayout rendered three times at changing indentations: all sequences, both tiers
    r = ctx.model(SPEC, "MC_Styles", "MC_Styles_renders_align.cfg", name="renders-alignment-sequences", workers=8)
    recs = T.emitted(r)
    if len(recs) < 1000:
        raise T.MachineryError("MC_Styles alignment family emitted only %d behaviours" % len(recs))
    for b in recs:
        add(_render_ops(b), "tlc-renders-align")
    if not quick:
        r = ctx.model(SPEC, "MC_Styles", "MC_Styles_renders_sim.cfg", name="renders-simulate", simulate="num=150", depth=7, workers=1,
                      seed=ctx.seed % 100000)
        for b in T.emitted(r):
            add(_render_ops(b), "tlc-renders-sim")
    ntlc = len(todo)
    # ---- code -> spec: longer seeded random mixes
    for _ in range(100 if quick else 1500):
        add(random_ops(ctx.rng, ctx.rng.randint(4, 40), ALL_IOS[::3] if quick else ALL_IOS), "random")
    # ---- references: what a fresh process shows (components on every I/O; styles that carry tagged Style objects)
    wanted = {}
    for ops, _o, _e in todo:
        for h in own_histories(ops):
            if wants_reference(h):
                wanted.setdefault(style_key(h), h)
    pairs = {}
    for ops, _o, _e in todo:
        for o in ops:
            if o["op"] == "render":
                pairs.setdefault(ref_key(o["comp"], o["io"]), [o["comp"], o["io"]])
    refs = fresh_references(list(pairs.values()) + [["S/", h] for h in wanted.values()])
    if len(refs) != len(pairs) + len(wanted) or any(v.startswith("EXC-IN-REFERENCE") for v in refs.values()):
        raise T.MachineryError("reference renders incomplete")
    ctx.extra["styles_fresh_process_references"] = len(refs)
    for ops, origin, expect in todo:
        evs = run_ops(ops, refs)
        traces.append(evs)
        cases.append({"part": "styles", "origin": origin, "ops": ops})
        ctx.count()
        if nontrivial(ops):
            ctx.nontriv(json.dumps(ops, sort_keys=True))
        if expect is not None and any(e["fields"] != x["eff"] for e, x in zip(evs, expect)):
            notrep += 1
    ctx.extra["styles_tlc_behaviours_replayed"] = ntlc
    ctx.extra["styles_tlc_style_behaviours_with_other_attribute_values"] = notrep
    ctx.sample({"tlc_style_behaviour": cases[nstyle // 2]["ops"]})
    ctx.sample({"tlc_render_behaviour": cases[ntlc - 1]["ops"]})
    for part_t, part_c in zip(chunks(traces, 5000), chunks(cases, 5000)):
        ctx.validate(SPEC, "StylesTrace", "StylesTrace.cfg", part_t, cases=part_c, name="styles-recorded-sequences")


def replay_styles(ctx, case):
    ops = case["ops"]
    ctx.count()
    ctx.nontriv("replay")
    ctx.nontriv("replay2")
    ctx.sample({"ops": ops})
    refs = fresh_references([[o["comp"], o["io"]] for o in ops if o["op"] == "render"]
                            + [["S/", h] for h in own_histories(ops) if wants_reference(h)])
    ctx.validate(SPEC, "StylesTrace", "StylesTrace.cfg", [run_ops(ops, refs)], cases=[case], name="styles-replay")


if __name__ == "__main__":
    _ref_server()
