"""C08  Tokenizer: drives TokenParser / StringArgs / ArgvArgs.  No verdict logic here: observations are
compared for equality with TLC-emitted behaviours, everything else is decided by TokenizerTrace."""
import json
import os

from harness.engine import tlc as T
from harness.engine.core import chunks

SPEC = os.path.join(T.SPECS, "Tokenizer")
# TLC's output encoding mangles non-ASCII: the model uses stand-in symbols (opaque 'characters')
SYM = {"U": "\u00e9", "<VT>": "\x0b", "<FS>": "\x1c", "<NEL>": "\x85", "<NBSP>": "\xa0", "<EMSP>": "\u2003", "<IDSP>": "\u3000"}
WS_ALL = " \t\n\r\f\x0b\x1c\x85\xa0\u2003\u3000"


def chars(s):
    inv = {v: k for k, v in SYM.items()}
    return [inv.get(c, c) for c in s]


def text(cs):
    return "".join(SYM.get(c, c) for c in cs)


_APP = None
_DAPP = None


def _dapp():
    """application on the default configuration: help command + help resolver see the raw args too"""
    global _DAPP
    if _DAPP is None:
        from clikit import ConsoleApplication
        from clikit.api.args.format import Option
        from clikit.config import DefaultApplicationConfig

        c = DefaultApplicationConfig("app", "1.0")
        c.set_catch_exceptions(True)
        c.set_terminate_after_run(False)
        with c.command("a") as cmd:
            cmd.set_description("command a")
            cmd.add_alias("aa")
            cmd.add_argument("x", 0, "the x")
            cmd.add_option("opt", "o", Option.REQUIRED_VALUE, "the opt")
            cmd.add_option("flag", "f", Option.NO_VALUE, "the flag")
        _DAPP = ConsoleApplication(c)
    return _DAPP


def run_outcome(raw):
    from clikit.io.input_stream import StringInputStream
    from clikit.io.output_stream import BufferedOutputStream

    out, err = BufferedOutputStream(), BufferedOutputStream()
    try:
        st = _dapp().run(raw, StringInputStream(""), out, err)
        return json.dumps(["run", st, out.fetch(), err.fetch()])
    except BaseException as e:  # noqa
        return json.dumps(["run-exc", type(e).__name__])


def _app():
    """fixed command tree + formats used to compare how parser and resolver see the two raw-args forms"""
    global _APP
    if _APP is None:
        from clikit import ConsoleApplication
        from clikit.api.args.format import Option
        from clikit.api.config import ApplicationConfig as Base
        from clikit.resolver import DefaultResolver

        class Cfg(Base):
            @property
            def default_command_resolver(self):
                return DefaultResolver()

        c = Cfg()
        c.set_catch_exceptions(False)
        c.set_terminate_after_run(False)
        c.add_option("glob", "g", Option.NO_VALUE)
        with c.command("a") as cmd:
            cmd.add_alias("aa")
            cmd.add_argument("x", 0)
            cmd.add_argument("rest", 16 | 2)  # MULTI_VALUED | OPTIONAL  (flag values checked in C07)
            cmd.add_option("opt", "o", Option.REQUIRED_VALUE)
            cmd.add_option("flag", "f", Option.NO_VALUE)
            with cmd.sub_command("-") as sub:
                sub.add_argument("y", 0)
        with c.command("dflt") as cmd:
            cmd.default()
            cmd.add_argument("rest", 16 | 2)
        _APP = ConsoleApplication(c)
    return _APP


def outcome(raw):
    try:
        rc = _app().resolve_command(raw)
        a = rc.args
        return json.dumps(["ok", rc.command.name, a.arguments(), a.options()], sort_keys=True, default=str)
    except Exception as e:  # noqa
        return json.dumps(["exc", type(e).__name__, str(e)])


class Budget(BaseException):
    """tokenising took longer than the (very generous) budget: the scan does not terminate in practice"""


_TIMEOUTS = [0]


def _tokenise_within_budget(s, seconds=6):
    """StringArgs(s) under an alarm; a healthy scan of these inputs takes microseconds"""
    import signal

    from clikit.args import StringArgs

    if _TIMEOUTS[0] >= 3:  # after three budget overruns further probes would only burn time
        raise Budget()

    def on_alarm(signum, frame):
        raise Budget()

    old = signal.signal(signal.SIGALRM, on_alarm)
    signal.setitimer(signal.ITIMER_REAL, seconds)
    try:
        return StringArgs(s)
    except Budget:
        _TIMEOUTS[0] += 1
        raise
    finally:
        signal.setitimer(signal.ITIMER_REAL, 0)
        signal.signal(signal.SIGALRM, old)


def _fill(ev, s, intent, full_run):
    from clikit.args import ArgvArgs, StringArgs
    from clikit.args.token_parser import TokenParser

    try:
        sa = StringArgs(s)
        toks0, opt0 = [chars(t) for t in sa.tokens], [chars(t) for t in sa.option_tokens]
        other = StringArgs("zz 'q q' -- w")  # tokenising something else must not disturb the first object
        TokenParser().parse("k k")
        ev["obs"] = {"kind": "ok", "cls": "", "toks": toks0, "opt": opt0, "toksAfter": [chars(t) for t in sa.tokens]}
        del other
    except Exception as e:  # noqa: every exception kind is an observation
        ev["obs"] = {"kind": "exc", "cls": type(e).__name__, "toks": [], "opt": [], "toksAfter": []}
        sa = None
    if intent is not None:
        # a token with a blank inside: the line that has the same words as separate tokens ("say a b" before "say 'a b'") is
        # seen first by the long-lived applications, in the string form only - whatever they keep per text must not leak
        words_ = [w for t in intent for w in t.split()]
        if any(" " in t for t in intent) and words_ and all(w.replace("-", "").replace("=", "").isalnum() for w in words_):
            outcome(StringArgs(" ".join(words_)))
            if full_run:
                run_outcome(StringArgs(" ".join(words_)))
        argv = ["prog"] + list(intent)
        before = list(argv)
        ev["hasArgv"] = True
        ev["outStr"] = outcome(sa) if sa is not None else "exc"
        try:   # the argv route: every exception is an observation (an outcome that differs from the string route's)
            aa = ArgvArgs(argv)
            ev["argv"] = {"toks": [chars(t) for t in aa.tokens], "opt": [chars(t) for t in aa.option_tokens]}
            ev["outArgv"] = outcome(aa) + ("" if argv == before else "|argv-mutated")
            if full_run:
                ev["outArgv"] += run_outcome(ArgvArgs(argv))   # the caller's list handed in a second time
        except Exception as e:  # noqa
            ev["outArgv"] += "|exc:" + type(e).__name__
        if full_run:
            ev["outStr"] += run_outcome(StringArgs(s)) if sa is not None else "exc"


def observe(s, intent=None, styles=None, seps=None, lead="", trail="", full_run=False):
    """one event for TokenizerTrace"""
    from clikit.args import ArgvArgs, StringArgs
    from clikit.args.token_parser import TokenParser

    ev = {
        "s": chars(s),
        "hasIntent": intent is not None,
        "quoteKnown": styles is not None,
        "intent": [chars(t) for t in intent] if intent is not None else [],
        "styles": styles or [],
        "seps": [chars(x) for x in (seps or [])],
        "lead": chars(lead),
        "trail": chars(trail),
        "hasArgv": False,
        "argv": {"toks": [], "opt": []},
        "outStr": "",
        "outArgv": "",
    }
    # every call into the library runs under one time budget: a scan that does not terminate is an observation
    from harness.engine import budget

    if _TIMEOUTS[0] >= 3:   # the verdict is settled: the remaining inputs are not run (each would cost a whole budget)
        ev["obs"] = {"kind": "exc", "cls": "NotRun", "toks": [], "opt": [], "toksAfter": []}
        return ev
    try:
        budget.call(_fill, ev, s, intent, full_run, seconds=30)
    except budget.Budget:
        _TIMEOUTS[0] += 1
        ev["obs"] = {"kind": "exc", "cls": "DoesNotTerminate", "toks": [], "opt": [], "toksAfter": []}
        ev["outStr"] += "|does-not-terminate"
    return ev


def quote(tok, style):
    e = "".join("\\" + c if c in "'\"" else c for c in tok)
    return {"sq": "'" + e + "'", "dq": '"' + e + '"', "no": e}[style]


def expressible(tok, style, ws):
    for k, c in enumerate(tok):
        if c == "\\" and (k == len(tok) - 1 or tok[k + 1] in "'\""):
            return False
    if style == "no" and (tok == "" or any(c in ws for c in tok)):
        return False
    return True


def run(ctx):
    quick = ctx.tier == "quick"
    ctx.rule = (
        "TLC enumerates (A) every string up to length N over {a,SP,TAB,',\",\\,-} and (B) every quoted rendering of "
        "token lists; each emitted behaviour is replayed on TokenParser/StringArgs/ArgvArgs and compared; a case is "
        "non-trivial when the string contains a quote or backslash, or yields >= 2 tokens; plus seeded random lists/"
        "strings (shell punctuation, exotic whitespace), long plain runs and quotes alternating up to 1100/2500 levels deep "
        "validated by TokenizerTrace; word lists also run through a full application in string and argv form"
    )
    ctx.assumptions += [
        "whitespace = {SP,TAB,VT} in exhaustive runs; SP,TAB,LF,CR,FF,VT,FS,NEL,NBSP,EM SPACE,IDEOGRAPHIC SPACE in recorded traces (other str.isspace() characters are not exercised)",
        "expressible tokens: no backslash directly before a quote character or at the end of a token",
        "non-ASCII text is represented by one width-1 symbol",
    ]
    mism = []  # events that differ from the TLC behaviour -> TokenizerTrace decides
    sample_ev = []

    def replay(records, with_intent, full_run=False):
        n = 0
        for r in records:
            s = text(r["s"])
            intent = [text(t) for t in r["intent"]] if with_intent else None
            ev = observe(s, intent, full_run=full_run)
            if ev["obs"]["cls"] == "NotRun":
                continue
            exp_ok = not r["err"]
            same = (
                ev["obs"]["kind"] == ("ok" if exp_ok else "exc")
                and ev["obs"]["toks"] == r["toks"]
                and ev["obs"]["toksAfter"] == r["toks"]
                and ev["obs"]["opt"] == r["opt"]
                and (not with_intent or (ev["argv"]["toks"] == r["intent"] and ev["argv"]["opt"] == r["opt"] and ev["outStr"] == ev["outArgv"]))
            )
            ctx.count()
            if any(c in s for c in "'\"\\") or len(r["toks"]) >= 2:
                ctx.nontriv(s)
            if not same:
                mism.append((ev, with_intent))
            elif len(sample_ev) < 400 and ctx.rng.random() < 0.01:
                sample_ev.append((ev, with_intent))
            n += 1
        return n

    r = ctx.model(SPEC, "MC_Strings", "MC_Strings_%s.cfg" % ctx.tier, name="strings-exhaustive")
    recs = T.emitted(r)
    if len(recs) < 1000:
        raise T.MachineryError("MC_Strings emitted only %d behaviours" % len(recs))
    replay(recs, False)
    ctx.sample({"string": text(recs[len(recs) // 2]["s"]), "tokens": [text(t) for t in recs[len(recs) // 2]["toks"]]})
    ctx.extra["strings_replayed"] = len(recs)

    r = ctx.model(SPEC, "MC_Lists", "MC_Lists_%s.cfg" % ctx.tier, name="lists-exhaustive")
    recs = T.emitted(r)
    if len(recs) < 1000:
        raise T.MachineryError("MC_Lists emitted only %d behaviours" % len(recs))
    replay(recs, True)
    ctx.sample({"tokens": [text(t) for t in recs[-1]["intent"]], "quoted": text(recs[-1]["s"])})
    ctx.extra["lists_replayed"] = len(recs)

    r = ctx.model(SPEC, "MC_Lists", "MC_Words_%s.cfg" % ctx.tier, name="word-lists-exhaustive")
    recs = T.emitted(r)
    if len(recs) < 500:
        raise T.MachineryError("MC_Words emitted only %d behaviours" % len(recs))
    replay(recs, True, full_run=True)
    ctx.sample({"tokens": [text(t) for t in recs[-1]["intent"]], "quoted": text(recs[-1]["s"])})
    ctx.extra["word_lists_replayed"] = len(recs)
    ctx.exhaustive = True

    # ---- code -> spec: seeded random lists and strings, larger than TLC enumerates
    ws = WS_ALL
    # (punctuation that is special to shells but ordinary here: no character outside whitespace, quotes and backslash has a meaning)
    alpha = "ab \t'\"\\-=\u00e9\n\x0b\xa0" + "ab \t'\"\\-" + "#$;|&*~!,:@%^()[]{}<>?+./`"
    words = ["help", "a", "aa", "-h", "--", "x", "--opt", "-f", "-", "--help", "v", "--opt=v", "#x", "#", "$v", "a;b", "*", "~", "&&", "|", ">f", "`x`", "!1", "x y", "a b", "v w x"]
    traces, cases = [], []
    deep_traces, deep_cases = [], []
    nlists = 1500 if quick else 20000
    fixed = [["a", "x y"], ["a", "v w x"], ["aa", "a b"], ["help", "a b"], ["a", "x y", "-f"], ["x", "a b", "v"], ["a", "a b"], ["aa", "x y", "v w x"],
             # a backslash in front of a line break is two ordinary characters of the token
             ["a", "x\\\ny"], ["a\\\nb"], ["x", "\\\r\nz", "v"], ["a", "q\\\n"]]
    for it in range(nlists):
        n = ctx.rng.randint(0, 4)
        toks, styles = [], []
        wordy = ctx.rng.random() < 0.4 or it < len(fixed)
        if it < len(fixed):   # a command name followed by values with blanks inside, each list once
            n = len(fixed[it])
            toks, styles = list(fixed[it]), ["dq" if any(c in t for c in " \n\r") else "no" for t in fixed[it]]
        for _k in range(0 if it < len(fixed) else n):
            while True:
                t = ctx.rng.choice(words) if wordy else "".join(ctx.rng.choice(alpha) for _j in range(ctx.rng.randint(0, 5)))
                st = ctx.rng.choice(["sq", "dq", "no"])
                if expressible(t, st, ws):
                    break
            toks.append(t)
            styles.append(st)
        seps = ["".join(ctx.rng.choice(ws) for _j in range(ctx.rng.randint(1, 2))) for _k in range(max(n - 1, 0))]
        lead = ctx.rng.choice(["", " ", "\t", "\x0b", "\u2003"])
        trail = ctx.rng.choice(["", " ", "\n", "\x0c"])
        s = lead + "".join(quote(t, st) + (seps[k] if k < n - 1 else "") for k, (t, st) in enumerate(zip(toks, styles))) + trail
        traces.append([observe(s, toks, styles, seps, lead, trail, full_run=wordy)])
        cases.append({"kind": "list", "tokens": toks, "styles": styles, "seps": seps, "lead": lead, "trail": trail, "full_run": wordy})
        ctx.count()
        ctx.nontriv(s)
    nstr = 1500 if quick else 20000
    for _ in range(nstr):
        s = "".join(ctx.rng.choice(alpha) for _j in range(ctx.rng.randint(0, 14)))
        traces.append([observe(s)])
        cases.append({"kind": "string", "s": s})
        ctx.count()
        ctx.nontriv(s)
    # long tokens: termination in practice (a scan whose cost explodes with the length of a plain run shows only here)
    for k in range(60 if quick else 400):
        run = "".join(ctx.rng.choice("abcdefghijklmnopqrstuvwxyz-=") for _j in range(ctx.rng.randint(25, 70)))
        s = ctx.rng.choice(["", "x ", "--"]) + run + ctx.rng.choice(['"some value"', "'v'", "\\q", '"', "\\", " 'a b' c"])
        traces.append([observe(s)])
        cases.append({"kind": "string", "s": s})
        ctx.count()
        ctx.nontriv(s)
    # deep nesting: quotes alternating k levels deep (the scanner follows them on its stack; the input alone bounds the depth)
    deep = []
    for k in ((200, 520, 1100) if quick else (200, 520, 800, 1100, 1600, 2500)):
        deep += ["'\"" * k, "x \"'" * k + "y", "a'b\"" * (k // 2) + " z"]
    # ... and one token glued together from very many quoted pieces (repetition instead of nesting)
    for k in ((1500,) if quick else (1500, 4000)):
        deep += ["''" * k, "-a" + '"b c"' * k, "k='v'," * k + " z", "'" * k]
    for s in deep:
        deep_traces.append([observe(s)])
        deep_cases.append({"kind": "string", "s": s})
        ctx.count()
        ctx.nontriv(s[:40] + str(len(s)))
    for ev, wi in mism + sample_ev:
        traces.append([ev])
        cases.append({"kind": "tlc-behaviour", "s": text(ev["s"])})
    ctx.extra["tlc_behaviours_not_reproduced"] = len(mism)
    keep = [k for k, t in enumerate(traces) if t[0]["obs"]["cls"] != "NotRun"]
    traces, cases = [traces[k] for k in keep], [cases[k] for k in keep]
    keep = [k for k, t in enumerate(deep_traces) if t[0]["obs"]["cls"] != "NotRun"]
    deep_traces, deep_cases = [deep_traces[k] for k in keep], [deep_cases[k] for k in keep]
    ctx.extra["inputs_not_terminating"] = _TIMEOUTS[0]
    ctx.validate(SPEC, "TokenizerTrace", "TokenizerTrace.cfg", traces, cases=cases, name="recorded-calls")
    if deep_traces:
        ctx.validate(SPEC, "TokenizerTrace", "TokenizerTrace.cfg", deep_traces, cases=deep_cases, name="deep-nesting", chunk=3, timeout=1500)
    ctx.sample(cases[0])


def replay(ctx, path):
    d = json.load(open(path))
    c = d.get("case") or {}
    if c.get("kind") == "list":
        toks, styles, seps = c["tokens"], c["styles"], c["seps"]
        n = len(toks)
        s = c["lead"] + "".join(quote(t, st) + (seps[k] if k < n - 1 else "") for k, (t, st) in enumerate(zip(toks, styles))) + c["trail"]
        ev = observe(s, toks, styles, seps, c["lead"], c["trail"], full_run=c.get("full_run", False))
    else:
        ev = observe(c.get("s", ""))
    ctx.count()
    ctx.nontriv("replay")
    ctx.nontriv("replay2")
    ctx.sample(c)
    ctx.validate(SPEC, "TokenizerTrace", "TokenizerTrace.cfg", [[ev]], cases=[c], name="replay")
