"""C02  malformed command lines: documented errors only, lenient total and agreeing with strict."""
import json
import os

from harness.engine import tlc as T
from harness.props import argslib as L

SPEC = os.path.join(T.SPECS, "ArgsParser")


event = L.event


def run(ctx):
    try:
        _run(ctx)
    except L.GiveUp:   # parses that do not terminate: judged, nothing more is generated
        L.judge_hangs(ctx, SPEC)


def _run(ctx):
    quick = ctx.tier == "quick"
    ctx.rule = (
        "TLC enumerates every token list up to MaxLen over a 27-token adversarial alphabet x 7 small formats, parsing each "
        "strictly then leniently on one parser object in the model (invariants Allowed, LenientTotal, StrictOkImpliesLenientSame); "
        "every emitted outcome is replayed on the real parser (formats built with and without a base format); non-trivial = the "
        "line contains an option-like token; random soups up to length 6 and eight kinds of single-fault mutations of valid lines "
        "are decided by ArgsParserTrace; on every observed parse: faults readable off the line alone are rejected in strict mode "
        "(P.strict.rejects_*; MalformedRejected has TLC confirm the same of the model on every soup) and Command.parse(raw, "
        "True / False / nothing) on the same format declared through command configurations agrees (P.route.command)"
    )
    ctx.assumptions += [
        "formats: <= 1 command name, <= 2 arguments, <= 2 options, types str/int/bool (float conversion is CPython's)",
        "an error outside {cannot-parse, no-such-option, ValueError} in either mode is a violation; the exact error class for soup is an A-clause",
    ]
    from clikit.args import DefaultArgsParser

    r = ctx.model(SPEC, "MC_ArgsSoup", "MC_ArgsSoup_%s.cfg" % ctx.tier, name="soup-exhaustive")
    formats = L.formats_from(r)
    recs = T.emitted(r)
    if len(recs) < 5000:
        raise T.MachineryError("soup model emitted %d" % len(recs))
    fobjs = [(L.build_format(f), L.build_format(f, True)) for f in formats]
    traces, cases = [], []
    nmis = 0
    for m in recs:
        f = formats[m["f"] - 1]
        toks = ["".join(t) for t in m["line"]]
        bad = False
        for wb in (0, 1):
            err, res, _ = L.parse_once(DefaultArgsParser(), fobjs[m["f"] - 1][wb], f, toks, m["lenient"], form=("string" if wb else "argv"))
            ctx.count()
            if err != m["err"] or (err == "none" and res != m["result"]):
                bad = True
                traces.append([event(f, fobjs[m["f"] - 1][wb], m["line"], m["lenient"])])
                cases.append({"f": m["f"], "base": wb, "line": toks, "lenient": m["lenient"], "formats": "soup"})
        nmis += bad
        if any(t.startswith("-") and t != "-" for t in toks):
            ctx.nontriv((m["f"], tuple(toks), m["lenient"]))
    ctx.extra["tlc_outcomes_replayed"] = len(recs) * 2
    ctx.extra["tlc_outcomes_not_reproduced"] = nmis
    ctx.sample({"format": m["f"], "line": toks, "lenient": m["lenient"], "err": m["err"]})
    ctx.exhaustive = True

    # ---- code -> spec: longer random soups; every event carries both modes
    alpha = ["", "-", "--", "---", "--=", "-=", "--aa", "--aa=x", "--aa=", "--aa=7", "--zz", "-a", "-ax", "-ab", "-ba", "-z", "-5",
             "null", "x", "7", "srv", "s", "--bb", "-b", "--a", "--bb=1", "-a7", "-b=", "true", "--aa=null", "--aa=x=y", "--aa==", "-a=", "--bb=",
             "-", "-ab7", "--aa=-5", "---aa", "---aa=7", "----bb", "---a", "---"]
    n = 800 if quick else 20000
    for k in range(n):
        fi = ctx.rng.randrange(len(formats))
        toks = [ctx.rng.choice(alpha) for _ in range(ctx.rng.randint(0, 6))]
        wb = k % 2
        traces.append([event(formats[fi], fobjs[fi][wb], toks, bool(ctx.rng.getrandbits(1)))])
        cases.append({"f": fi + 1, "base": wb, "line": toks, "lenient": traces[-1][0]["lenient"], "formats": "soup"})
        ctx.count()
        ctx.nontriv(("r", k))
    ctx.sample(cases[-1])
    # ---- single-fault mutations of well-formed lines: TLC decides applicability and the expected error class
    from harness.props import c01

    nm = 600 if quick else 15000
    for k in range(nm):
        f = c01.rand_format(ctx.rng)
        kind = ctx.rng.choice(["surplus", "unknown", "flagvalue", "stripvalue", "dropreq", "unknownval", "overdash", "unkshort", "surplussep"])
        # the shape is a hint that makes the mutation applicable more often; TLC decides applicability (MutPre)
        rc = c01.rand_recipe(ctx.rng, f, {"surplus": "allpos", "surplussep": "allpos", "dropreq": "reqlast"}.get(kind))
        j = ctx.rng.randint(1, max(1, len(f["opts"])))
        want = {"flagvalue": ("none",), "stripvalue": ("req", "multi")}.get(kind)
        if want:  # a hint only: TLC decides applicability (MutPre)
            js = [i + 1 for i, o in enumerate(f["opts"]) if o["mode"] in want]
            if js:
                j = ctx.rng.choice(js)
        toks = c01.render(f, rc)
        if kind == "surplus":
            toks = toks + ["zz9"]
        elif kind == "surplussep":
            toks = toks + (["--"] if any(it["k"] == "sep" for it in rc) else ["--", "--"])
        elif kind == "unknown":
            toks = toks + ["--zz9"]
        elif kind == "unknownval":
            toks = toks + ["--zz9=v"]
        elif kind == "unkshort":
            toks = toks + ["-Q"]
        elif kind == "overdash":
            if not f["opts"]:
                continue
            toks = toks + ["---" + L.txt(f["opts"][j - 1]["long"])]
        elif kind in ("flagvalue", "stripvalue"):
            if not f["opts"]:
                continue
            toks = toks + ["--" + L.txt(f["opts"][j - 1]["long"]) + ("=v" if kind == "flagvalue" else "")]
        else:
            if not rc:
                continue
            toks = c01.render(f, rc[:-1])
        fobj = L.build_format(f, bool(k % 2))
        traces.append([L.event(f, fobj, toks, False, recipe=rc, mut={"kind": kind, "j": j})])
        cases.append({"fmt": f, "base": k % 2, "line": toks, "lenient": False, "formats": "random", "recipe": rc, "mut": {"kind": kind, "j": j}})
        ctx.count()
        ctx.nontriv(("m", k))
    ctx.extra["formats"] = "MC_ArgsSoup.Formats"
    ctx.validate(SPEC, "ArgsParserTrace", "ArgsParserTrace.cfg", traces, cases=cases, name="recorded-parses", chunk=500)
    ctx.extra["mutations_not_applicable"] = ctx.drift.pop("H.mutation.not_applicable", 0)
    ctx.extra["mutations_tried"] = nm
    ctx.drift.pop("H.recipe.not_wellformed", None)
    if ctx.extra["mutations_not_applicable"] > 0.85 * nm:
        raise T.MachineryError("almost no mutation applicable")


def replay(ctx, path):
    d = json.load(open(path))
    c = d["case"]
    ev0 = d["trace"][0]
    f = ev0["f"]
    fobj = L.build_format(f, bool(c.get("base")))
    ctx.count()
    ctx.nontriv(1)
    ctx.nontriv(2)
    ctx.sample(c)
    ctx.validate(SPEC, "ArgsParserTrace", "ArgsParserTrace.cfg",
                 [[event(f, fobj, c["line"], c["lenient"], mut=ev0.get("mut"), recipe=ev0.get("recipe") if ev0.get("hasRecipe") else None)]],
                 cases=[c], name="replay")
    ctx.drift.pop("H.mutation.not_applicable", None)
    ctx.drift.pop("H.recipe.not_wellformed", None)
