"""Shared by C01 / C02 / C05: build real ArgsFormat objects from the model's format records, run the real
DefaultArgsParser, project the Args object into the model's result shape.  No verdicts here."""
import json
import os

from harness.engine import budget


class DoesNotTerminate(Exception):
    """a parse that did not return within its budget (an observation like any other exception)"""


class GiveUp(BaseException):
    """three parses did not terminate: the verdict is settled, the driver stops generating and has the recorded ones judged"""


HANGS = []          # (format record, tokens, lenient, form) of the parses that did not terminate
_GIVE_UP = [True]


def guarded(fn, *args, what=None):
    try:
        return budget.call(fn, *args, seconds=30)
    except budget.Budget:
        if what is not None and _GIVE_UP[0]:
            HANGS.append(what)
            if len(HANGS) >= 3:
                raise GiveUp()
        raise DoesNotTerminate()


def judge_hangs(ctx, spec):
    """called by a driver that caught GiveUp: the recorded inputs once more as full events, decided by ArgsParserTrace"""
    _GIVE_UP[0] = False
    traces = [[event(f, build_format(f), toks, lenient, form=form)] for f, toks, lenient, form in HANGS[:3]]
    ctx.count(len(traces))
    ctx.extra["parses_not_terminating"] = len(HANGS)
    ctx.validate(spec, "ArgsParserTrace", "ArgsParserTrace.cfg", traces,
                 cases=[{"fmt": f, "line": list(toks), "lenient": lenient, "formats": "random", "base": 0} for f, toks, lenient, form in HANGS[:3]], name="does-not-terminate")


TYPE_OPT = {"str": 128, "bool": 256, "int": 512, "float": 1024}
TYPE_ARG = {"str": 16, "bool": 32, "int": 64, "float": 128}
MODE = {"none": 4, "req": 8, "opt": 16, "multi": 32}
ERR = {"CannotParseArgsException": "CannotParse", "NoSuchOptionException": "NoSuchOption", "ValueError": "ValueError"}


def txt(cs):
    return "".join(cs)


def raw_default(d):
    if d["t"] == "N":
        return None
    if d["t"] == "s":
        return txt(d["v"])
    if d["t"] == "T":      # defaults that are Python values, not texts
        return True
    if d["t"] == "I":
        return int(txt(d["v"]))
    return [txt(x["v"]) for x in d["v"]]


def build_format(f, with_base=False):
    """f: the model's format record.  with_base: first argument / first option / first command name go to a base format"""
    from clikit.api.args.format import ArgsFormat, ArgsFormatBuilder, Argument, CommandName, Option

    # every second element is an instance of an application's own subclass (a subclass instance is an element like any other)
    class AppArgument(Argument):
        pass

    class AppOption(Option):
        pass

    names = [CommandName(txt(c["n"]), [txt(a) for a in c["al"]]) for c in f["cnames"]]
    args = []
    for a in f["args"]:
        flags = (Argument.REQUIRED if a["req"] else Argument.OPTIONAL) | (Argument.MULTI_VALUED if a["multi"] else 0)
        flags |= TYPE_ARG[a["type"]] | (Argument.NULLABLE if a["nullable"] else 0)
        d = raw_default(a["dflt"])
        A_ = AppArgument if len(args) % 2 == 1 else Argument
        args.append(A_(a["name"], flags, None, d) if d is not None else A_(a["name"], flags))
    opts = []
    for o in f["opts"]:
        flags = MODE[o["mode"]] | TYPE_OPT[o["type"]] | (Option.NULLABLE if o["nullable"] else 0)
        d = raw_default(o["dflt"])
        short = o["short"] or None
        O_ = AppOption if len(opts) % 2 == 0 else Option
        opts.append(O_(txt(o["long"]), short, flags, None, d) if d is not None else O_(txt(o["long"]), short, flags))
    if not with_base:
        b = ArgsFormatBuilder()
        b.add_command_names(*names)
        b.add_arguments(*args)
        b.add_options(*opts)
        return b.format
    bb = ArgsFormatBuilder()
    bb.add_command_names(*names[:1])
    bb.add_arguments(*args[:1])
    bb.add_options(*opts[:1])
    b = ArgsFormatBuilder(bb.format)
    b.add_command_names(*names[1:])
    b.add_arguments(*args[1:])
    b.add_options(*opts[1:])
    return b.format


_COMMANDS = {}


def build_command(f, fobj, cfg_lenient, keep=True):
    """the same format declared through the configuration route: a chain of CommandConfigs (one per command name, or an
    anonymous one), arguments and options added with Config.add_argument / add_option; returns the leaf Command.
    One Command per format object and configuration mode, kept for the whole run (a history on one object)."""
    from clikit.api.command import Command
    from clikit.api.config.command_config import CommandConfig
    from clikit.api.args.format import Argument, Option

    key = (id(fobj), cfg_lenient)
    if key in _COMMANDS:
        return _COMMANDS[key][1]
    cfgs = []
    for c in f["cnames"]:
        cc = CommandConfig(txt(c["n"]))
        cc.add_aliases([txt(a) for a in c["al"]])
        if cfgs:
            cfgs[-1].add_sub_command_config(cc)
        cfgs.append(cc)
    if not cfgs:
        cfgs.append(CommandConfig("anon").anonymous())
    leaf = cfgs[-1]
    for a in f["args"]:
        flags = (Argument.REQUIRED if a["req"] else Argument.OPTIONAL) | (Argument.MULTI_VALUED if a["multi"] else 0)
        flags |= TYPE_ARG[a["type"]] | (Argument.NULLABLE if a["nullable"] else 0)
        leaf.add_argument(a["name"], flags, None, raw_default(a["dflt"]))
    for o in f["opts"]:
        flags = MODE[o["mode"]] | TYPE_OPT[o["type"]] | (Option.NULLABLE if o["nullable"] else 0)
        leaf.add_option(txt(o["long"]), o["short"] or None, flags, None, raw_default(o["dflt"]))
    if cfg_lenient:
        leaf.enable_lenient_args_parsing()
        # ... and this configuration is given its own parser object (Config.set_args_parser), which then serves every parse
        # of the command; the other one uses the default parser of the configuration
        from clikit.args import DefaultArgsParser

        leaf.set_args_parser(DefaultArgsParser())
    cmd = Command(cfgs[0])
    for c in f["cnames"][1:]:
        cmd = cmd.get_sub_command(txt(c["n"]))
    if keep:
        _COMMANDS[key] = (fobj, cmd)   # keeps fobj alive so that its id is not reused
    return cmd


def command_route(f, fobj, toks, form, keep=True):
    """Command.parse(raw, lenient) for lenient = True, False, None on ONE raw-args object, on a command whose configuration
    enables lenient parsing or not (alternating by the line)"""
    import zlib

    cfg_lenient = zlib.crc32(repr(toks).encode()) % 2 == 1
    out = {"cfgLenient": cfg_lenient, "built": True}
    try:
        cmd = build_command(f, fobj, cfg_lenient, keep)
    except Exception as e:  # noqa
        bad = {"err": "EXC:build:" + type(e).__name__, "result": dict(NORES)}
        out.update({"built": False, "yes": bad, "no": bad, "dflt": bad})
        return out
    raw, _ = make_raw(list(toks), form)
    for key, mode in (("yes", True), ("no", False), ("dflt", None)):
        try:
            parsed = guarded(cmd.parse, raw, mode) if mode is not None else guarded(cmd.parse, raw)
            res, _x = project_args(f, parsed)
            out[key] = {"err": "none", "result": res}
        except Exception as e:  # noqa
            out[key] = {"err": ERR.get(type(e).__name__, "EXC:" + type(e).__name__), "result": dict(NORES)}
    return out


def pv(v):
    """project a Python value into the model's value records"""
    if v is None:
        return {"k": "none"}
    if isinstance(v, bool):
        return {"k": "bool", "v": v}
    if isinstance(v, int):
        return {"k": "int", "neg": v < 0, "digits": list(str(abs(v)))}
    if isinstance(v, float):
        return {"k": "float"}
    if isinstance(v, str):
        return {"k": "str", "v": list(v)}
    if isinstance(v, list):
        if len(v) > 40:   # (a library that lets a list grow from parse to parse must not exhaust the harness: the tail is cut)
            return {"k": "list", "v": [pv(x) for x in v[:40]] + [{"k": "other:truncated"}]}
        return {"k": "list", "v": [pv(x) for x in v]}
    return {"k": "other:" + type(v).__name__}


def call(fn, *a):
    try:
        return fn(*a)
    except Exception as e:  # noqa
        return "EXC:" + type(e).__name__


def project_args(f, parsed):
    """the model's result record + the access-agreement observations"""
    an = [a["name"] for a in f["args"]]
    longs = [txt(o["long"]) for o in f["opts"]]
    res = {
        "aset": [bool(parsed.is_argument_set(n)) for n in an],
        "aval": [pv(call(parsed.argument, n)) for n in an],
        "oset": [bool(parsed.is_option_set(n)) for n in longs],
        "oval": [pv(call(parsed.option, n)) for n in longs],
    }
    a_all, a_set = parsed.arguments(True), parsed.arguments(False)
    o_all, o_set = parsed.options(True), parsed.options(False)
    extra = {
        # by position / by short name
        "asetPos": [bool(call(parsed.is_argument_set, i)) is True for i in range(len(an))],
        "avalPos": [pv(call(parsed.argument, i)) for i in range(len(an))],
        "osetShort": [bool(call(parsed.is_option_set, o["short"])) is True if o["short"] else res["oset"][j] for j, o in enumerate(f["opts"])],
        "ovalShort": [pv(call(parsed.option, o["short"])) if o["short"] else res["oval"][j] for j, o in enumerate(f["opts"])],
        # the dictionaries: with defaults = every name; without = exactly what was set
        "allA": [pv(a_all.get(n, "MISSING")) for n in an],
        "allO": [pv(o_all.get(n, "MISSING")) for n in longs],
        "setA": [n in a_set for n in an],
        "setO": [n in o_set for n in longs],
        "extraKeys": sorted(set(a_all) - set(an)) + sorted(set(o_all) - set(longs)),
    }
    return res, extra


NORES = {"aset": [], "aval": [], "oset": [], "oval": []}


def parse_once(parser, fmt_obj, f, tokens, lenient, form="argv"):
    """returns (err, result, extra)"""
    raw, _ = make_raw(list(tokens), form)
    try:
        parsed = guarded(parser.parse, raw, fmt_obj, lenient, what=(f, list(tokens), lenient, form))
    except Exception as e:  # noqa
        return ERR.get(type(e).__name__, "EXC:" + type(e).__name__), dict(NORES), None
    res, extra = project_args(f, parsed)
    return "none", res, extra


def formats_from(r):
    from harness.engine import tlc as T

    for tag, a in T.tuples(r, ("FORMATS",)):
        return json.loads(a[0])
    raise T.MachineryError("model did not print its FORMATS")


NOEXTRA = {"asetPos": [], "avalPos": [], "osetShort": [], "ovalShort": [], "allA": [], "allO": [], "setA": [], "setO": [], "extraKeys": []}


def listing(fobj):
    return json.dumps([[(o.long_name, o.short_name, o.flags, repr(o.default)) for o in fobj.get_options().values()],
                       [(a.name, a.flags, repr(a.default)) for a in fobj.get_arguments().values()],
                       [(c.string, list(c.aliases)) for c in fobj.get_command_names()],
                       [c.long_name for c in fobj.get_command_options()]])


def make_raw(toks, form):
    """argv form, or - when every token can be double-quoted literally - the equivalent command string"""
    from clikit.args import ArgvArgs, StringArgs

    if form == "string" and not any(c in t for t in toks for c in "'\"\\"):
        return StringArgs(" ".join('"%s"' % t for t in toks)), None
    argv = ["prog"] + list(toks)
    before = list(argv)
    return ArgvArgs(argv), (argv, before)


_SERVER = []


def pristine(f, toks, lenient, form):
    """the same request answered by harness/props/pristine.py (fresh child process, other hash seed)"""
    # (the answer to a request is a function of the request: asked once per distinct request)
    key = json.dumps([f, list(toks), lenient, form], sort_keys=True)
    if key not in _PRISTINE_MEMO:
        if len(_PRISTINE_MEMO) > 200000:
            _PRISTINE_MEMO.clear()
        _PRISTINE_MEMO[key] = pristine_request({"f": f, "toks": list(toks), "lenient": lenient, "form": form})
    return _PRISTINE_MEMO[key]


_PRISTINE_MEMO = {}


def pristine_call(module, function, *args):
    return pristine_request({"call": [module, function], "args": list(args)})


def pristine_request(req):
    import atexit
    import subprocess
    import sys

    from harness.engine import tlc as T

    if not _SERVER:
        env = dict(os.environ, PYTHONHASHSEED="1")
        p = subprocess.Popen([sys.executable, "-m", "harness.props.pristine"], stdin=subprocess.PIPE, stdout=subprocess.PIPE, env=env, text=True,
                             cwd=T.VERIF)
        _SERVER.append(p)
        atexit.register(lambda: (p.stdin.close(), p.wait(timeout=10)))
    p = _SERVER[0]
    try:
        p.stdin.write(json.dumps(req) + "\n")
        p.stdin.flush()
        line = p.stdout.readline()
        return json.loads(line)
    except Exception as e:  # noqa
        raise T.MachineryError("pristine reference server failed: %r" % (e,))


def event_light(f, fobj, tokens, lenient, parser, form="argv"):
    """the part of an event that the comparison with a TLC-generated behaviour needs (outcome on the given parser, on a
    fresh one, inputs untouched); the full event is built only for the sequences that go to the trace module"""
    from clikit.args import DefaultArgsParser

    toks = ["".join(t) for t in tokens]
    before = listing(fobj)
    raw, pair = make_raw(toks, form)
    argv, argv0 = pair if pair is not None else (None, None)
    tok0 = list(raw.tokens)
    try:
        parsed = guarded(parser.parse, raw, fobj, lenient, what=(f, list(toks), lenient, form))
        res, _extra = project_args(f, parsed)
        err = "none"
    except Exception as e:  # noqa
        err, res = ERR.get(type(e).__name__, "EXC:" + type(e).__name__), dict(NORES)
    untouched = argv == argv0 and list(raw.tokens) == tok0 and listing(fobj) == before
    ferr, fres, _ = parse_once(DefaultArgsParser(), fobj, f, toks, lenient)
    return {"obs": {"err": err, "result": res}, "fresh": {"err": ferr, "result": fres}, "untouched": untouched}


def event(f, fobj, tokens, lenient, parser=None, mut=None, recipe=None, form="argv", keep=True):
    """one request for ArgsParserTrace: observed on `parser` (fresh if None), on a fresh parser, in the other mode;
    also whether argv list / raw tokens / format listings survived the call untouched"""
    from clikit.args import ArgvArgs, DefaultArgsParser

    toks = ["".join(t) for t in tokens]
    before = listing(fobj)
    raw, pair = make_raw(toks, form)
    argv, argv0 = pair if pair is not None else (None, None)   # the caller's list as handed in / as it was before
    tok0 = list(raw.tokens)
    p = parser or DefaultArgsParser()
    extra = None
    from harness.props.pristine import digest

    msg = digest("")
    try:
        parsed = guarded(p.parse, raw, fobj, lenient, what=(f, list(toks), lenient, form))
        res, extra = project_args(f, parsed)
        err = "none"
    except Exception as e:  # noqa
        err, res, msg = ERR.get(type(e).__name__, "EXC:" + type(e).__name__), dict(NORES), digest(str(e))
    untouched = argv == argv0 and list(raw.tokens) == tok0 and listing(fobj) == before
    ferr, fres, _ = parse_once(DefaultArgsParser(), fobj, f, toks, lenient)
    oerr, ores, _ = parse_once(DefaultArgsParser(), fobj, f, toks, not lenient)
    return {"pristine": pristine(f, toks, lenient, form), "msg": msg, "cmd": command_route(f, fobj, toks, form, keep), "f": f, "line": [list(t) for t in toks], "lenient": lenient, "obs": {"err": err, "result": res},
            "fresh": {"err": ferr, "result": fres}, "other": {"err": oerr, "result": ores}, "mut": mut or {"kind": "", "j": 0},
            "untouched": untouched, "hasRecipe": recipe is not None, "recipe": recipe or [],
            "hasExtra": extra is not None, "extra": extra or dict(NOEXTRA)}
