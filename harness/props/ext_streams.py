"""Extension (no listed property): streams, terminal size and two small utilities, bound to specs/Streams.

run_ext(ctx) is called at the end of a property check's run().  Only A-clauses exist here: TLC-emitted operation
sequences / table rows are replayed on the real objects and compared; what differs, seeded random sequences and the
exhaustive format_time table are sent through StreamsTrace, whose Note clauses can only produce DRIFT lines.

Nothing real is touched: sys.std*, os and platform are substituted as attributes of the clikit modules that use them
(and put back), streams are fakes, the platform queries of Terminal are stubbed on the instance.
"""
import io
import os
import re

from harness.engine import tlc as T

SPEC = os.path.join(T.SPECS, "Streams")
NLS = "N"  # the model's stand-in for the newline character
DEFAULT = object()


def chars(s):
    return [NLS if c == "\n" else c for c in s]


def text(cs):
    return "".join("\n" if c == NLS else c for c in cs)


RNONE = {"k": "none", "v": [], "b": False, "i": 0, "x": ""}
NOUNDER = {"text": [], "flushes": 0, "closed": False}
ENV0 = {"set": False, "blank": False, "numeric": False, "num": 0}
QNONE = {"none": True, "w": 0, "h": 0}
PAR0 = {"kind": "", "via": "", "init": [], "plat": "", "q1": QNONE, "q2": QNONE}
ROW0 = {"tbl": "", "lo": 0, "hi": 0, "out": {"none": False, "n": 0, "unit": ""}, "plat": "", "ansicon": False, "conemu": "",
        "term": "", "hasfileno": False, "isatty": 0, "outs": "", "enc": "", "outb": False, "q": [], "names": [], "dist": [], "outl": []}


def res(k="none", v="", b=False, i=0, x=""):
    return {"k": k, "v": chars(v), "b": bool(b), "i": int(i), "x": x}


def proj(call):
    """result of a call -> record; every exception kind is an observation"""
    try:
        r = call()
    except KeyboardInterrupt:
        raise
    except BaseException as e:  # noqa
        return res("exc", x=type(e).__name__)
    if r is DEFAULT:
        return res("default")
    if r is None:
        return res("none")
    if isinstance(r, bool):
        return res("bool", b=r)
    if isinstance(r, int):
        return res("int", i=r)
    if isinstance(r, bytes):
        return res("bytes", v=r.decode("ascii", "replace"))
    if isinstance(r, str):
        return res("str", v=r)
    return res("other", x=type(r).__name__)


class Patched(object):
    """module attribute substitution, undone on exit"""

    def __init__(self, module, **attrs):
        self.module, self.attrs, self.saved = module, attrs, {}

    def __enter__(self):
        for k, v in self.attrs.items():
            self.saved[k] = getattr(self.module, k)
            setattr(self.module, k, v)
        return self

    def __exit__(self, *a):
        for k, v in self.saved.items():
            setattr(self.module, k, v)


class Ns(object):
    def __init__(self, **kw):
        self.__dict__.update(kw)


class FakeText(object):
    """what a StreamOutputStream writes to"""

    encoding = "utf-8"

    def __init__(self):
        self.text, self.flushes, self.closed = "", 0, False

    def write(self, s):
        self.text += s

    def flush(self):
        self.flushes += 1

    def close(self):
        self.closed = True


# ---------------------------------------------------------------------------------- machines
class InDriver(object):
    def __init__(self, par):
        from clikit.api.io import Input
        from clikit.io.input_stream import NullInputStream, StandardInputStream, StreamInputStream, StringInputStream
        import clikit.io.input_stream.standard_input_stream as mod

        t = text(par["init"])
        if par["kind"] == "string":
            stream = StringInputStream(t)
        elif par["kind"] == "null":
            stream = NullInputStream()
        elif par["via"] == "stdin":
            with Patched(mod, sys=Ns(stdin=io.StringIO(t))):
                stream = StandardInputStream()
        else:
            stream = StreamInputStream(io.StringIO(t))
        self.inp = Input(stream)

    def step(self, op):
        i, k = self.inp, op["op"]
        if k == "read":
            r = proj(lambda: i.read(op["n"], default=DEFAULT))
        elif k == "read_line":
            r = proj(lambda: i.read_line(None if op["n"] < 0 else op["n"], default=DEFAULT))
        elif k == "close":
            r = proj(i.close)
        elif k == "is_closed":
            r = proj(i.is_closed)
        elif k == "set":
            r = proj(lambda: i.stream.set(text(op["t"])))
        elif k == "append":
            r = proj(lambda: i.stream.append(text(op["t"])))
        elif k == "clear":
            r = proj(i.stream.clear)
        elif k == "set_interactive":
            r = proj(lambda: i.set_interactive(op["b"]))
        else:
            r = proj(i.is_interactive)
        return r, dict(NOUNDER)


class OutDriver(object):
    def __init__(self, par):
        from clikit.io.output_stream import BufferedOutputStream, ErrorOutputStream, NullOutputStream, StandardOutputStream, StreamOutputStream
        import clikit.io.output_stream.error_output_stream as emod
        import clikit.io.output_stream.standard_output_stream as smod

        self.fake = None
        if par["kind"] == "buffered":
            self.s = BufferedOutputStream()
        elif par["kind"] == "null":
            self.s = NullOutputStream()
        else:
            self.fake = FakeText()
            if par["via"] == "stdout":
                with Patched(smod, sys=Ns(stdout=self.fake)):
                    self.s = StandardOutputStream()
            elif par["via"] == "stderr":
                with Patched(emod, sys=Ns(stderr=self.fake)):
                    self.s = ErrorOutputStream()
            else:
                self.s = StreamOutputStream(self.fake)

    def step(self, op):
        s, k = self.s, op["op"]
        if k == "write":
            r = proj(lambda: s.write(text(op["t"])))
        elif k in ("flush", "fetch", "clear", "close", "is_closed"):
            r = proj(getattr(s, k))
        else:
            r = res("exc", x="no-such-op")
        f = self.fake
        return r, (dict(NOUNDER) if f is None else {"text": chars(f.text), "flushes": f.flushes, "closed": bool(f.closed)})


PLAT = {"linux": "Linux", "darwin": "Darwin", "cygwin_nt-10.0": "CYGWIN_NT-10.0", "windows": "Windows", "freebsd": "FreeBSD"}


def env_text(e):
    if not e["set"]:
        return None
    if e["blank"]:
        return "  "
    return " %d " % e["num"] if e["numeric"] else "wide"


class TermDriver(object):
    def __init__(self, par):
        from clikit.utils.terminal import Terminal
        import clikit.utils.terminal as mod

        self.mod, self.par = mod, par
        self.t = Terminal()

        def q(rec):
            return None if rec["none"] else (rec["w"], rec["h"])

        self.t._get_terminal_size_windows = lambda: q(par["q1"])
        self.t._get_terminal_size_tput = lambda: q(par["q2"])
        self.t._get_terminal_size_linux = lambda: q(par["q1"])

    def step(self, op):
        name = "COLUMNS" if op["op"] == "width" else "LINES"
        val = env_text(op["env"])
        env = {} if val is None else {name: val}
        fake_os = Ns(getenv=lambda k, d=None: env.get(k, d), environ=env)
        fake_pf = Ns(system=lambda: PLAT[self.par["plat"]])
        with Patched(self.mod, os=fake_os, platform=fake_pf):
            r = proj(lambda: self.t.width if op["op"] == "width" else self.t.height)
        return r, dict(NOUNDER)


DRIVERS = {"in": InDriver, "out": OutDriver, "term": TermDriver}


def run_seq(mk, par, ops):
    """-> trace (events with the observations of the real object)"""
    p = dict(PAR0)
    p.update(par)
    p["init"] = chars(par["init"]) if isinstance(par.get("init"), str) else p["init"]
    try:
        d, broken = DRIVERS[mk](p), None
    except KeyboardInterrupt:
        raise
    except BaseException as e:  # noqa: building the object is a step like any other - every operation then reports it
        d, broken = None, res("exc", x=type(e).__name__)
    tr = [event("new", mk, par=p)]
    for op in ops:
        o = {"op": op["op"], "n": op.get("n", 0), "t": chars(op["t"]) if isinstance(op.get("t"), str) else op.get("t", []),
             "b": op.get("b", False), "env": op.get("env", ENV0)}
        r, under = d.step(o) if d is not None else (broken, dict(NOUNDER))
        tr.append(event(o["op"], mk, n=o["n"], t=o["t"], b=o["b"], env=o["env"], r=r, under=under))
    return tr


def event(op, mk, par=None, n=0, t=(), b=False, env=None, r=None, under=None, row=None):
    rw = dict(ROW0)
    if row:
        rw.update(row)
    return {"op": op, "mk": mk, "par": par or PAR0, "n": n, "t": list(t), "b": b, "env": env or ENV0, "r": r or RNONE,
            "under": under or NOUNDER, "row": rw}


# ---------------------------------------------------------------------------------- tables
TIME = re.compile(r"^(\d+) (secs|mins|hrs|days)$")


def time_out(t):
    from clikit.utils.time import format_time

    s = format_time(t)
    if s is None:
        return {"none": True, "n": 0, "unit": ""}
    m = TIME.match(s)
    return {"none": False, "n": int(m.group(1)), "unit": m.group(2)} if m else {"none": False, "n": 0, "unit": s}


def ansi_out(r):
    import clikit.io.output_stream.stream_output_stream as mod
    from clikit.io.output_stream import StreamOutputStream

    class WithFileno(FakeText):
        def fileno(self):
            if r["isatty"] == 2:
                raise io.UnsupportedOperation("fileno")
            return 7

    env = {}
    if r["ansicon"]:
        env["ANSICON"] = "1"
    if r["conemu"]:
        env["ConEmuANSI"] = r["conemu"]
    if r["term"]:
        env["Term"] = r["term"]
    fake_os = Ns(getenv=lambda k, d=None: env.get(k, d), isatty=lambda fd: r["isatty"] == 1)
    fake_pf = Ns(system=lambda: "Windows" if r["plat"] == "windows" else "Linux")
    s = StreamOutputStream(WithFileno() if r["hasfileno"] else FakeText())
    with Patched(mod, os=fake_os, platform=fake_pf):
        p = proj(s.supports_ansi)
    return ("yes" if p["b"] else "no") if p["k"] == "bool" else "exc:" + p["x"]


def utf8_out(enc):
    from clikit.io.output_stream import StreamOutputStream

    f = FakeText()
    f.encoding = enc
    p = proj(StreamOutputStream(f).supports_utf8)
    return p["b"] if p["k"] == "bool" else None


def similar_out(q, names):
    """names: list of str; the first is a command, the others alternate command / alias of the first"""
    from clikit.api.command import Command, CommandCollection
    from clikit.api.config.command_config import CommandConfig
    from clikit.utils.command import find_similar_command_names
    from pylev import levenshtein

    first = CommandConfig(names[0])
    cfgs = [first]
    for k, n in enumerate(names[1:]):
        if k % 2:
            first.add_alias(n)
        else:
            cfgs.append(CommandConfig(n))
    coll = CommandCollection([Command(c) for c in cfgs])
    return list(find_similar_command_names(q, coll)), [levenshtein(q, n) for n in names]


# ---------------------------------------------------------------------------------- random sequences
def rand_text(rng):
    return "".join(rng.choice("abc \n") for _ in range(rng.randint(0, 6)))


def rand_seq(rng):
    mk = rng.choice(["in", "in", "out", "out", "term"])
    n = rng.randint(4, 16)
    ops = []
    if mk == "in":
        kind, via = rng.choice([("string", "direct"), ("string", "direct"), ("text", "direct"), ("text", "stdin"), ("null", "direct")])
        par = {"kind": kind, "via": via, "init": "" if kind == "null" else rand_text(rng) + rng.choice(["", "\n", "ab\ncd"])}
        for _ in range(n):
            x = rng.random()
            if x < 0.3:
                ops.append({"op": "read", "n": rng.choice([-1, 0, 1, 2, 3, 7])})
            elif x < 0.6:
                ops.append({"op": "read_line", "n": rng.choice([-1, -1, 0, 1, 2, 4096])})
            elif x < 0.66:
                ops.append({"op": "close"})
            elif x < 0.74:
                ops.append({"op": "is_closed"})
            elif x < 0.8:
                ops.append({"op": "set_interactive", "b": rng.random() < 0.5})
            elif x < 0.84:
                ops.append({"op": "is_interactive"})
            elif kind == "string":
                ops.append(rng.choice([{"op": "set", "t": rand_text(rng)}, {"op": "append", "t": rand_text(rng)}, {"op": "clear"}]))
    elif mk == "out":
        kind, via = rng.choice([("buffered", "direct"), ("buffered", "direct"), ("stream", "direct"), ("stream", "stdout"), ("stream", "stderr"), ("null", "direct")])
        par = {"kind": kind, "via": via}
        for _ in range(n):
            x = rng.random()
            if x < 0.5:
                ops.append({"op": "write", "t": rand_text(rng)})
            elif x < 0.6:
                ops.append({"op": "flush"})
            elif x < 0.67:
                ops.append({"op": "close"})
            elif x < 0.77:
                ops.append({"op": "is_closed"})
            elif kind == "buffered":
                ops.append({"op": rng.choice(["fetch", "fetch", "clear"])})
    else:
        qs = [QNONE, {"none": False, "w": 132, "h": 43}, {"none": False, "w": 0, "h": 0}, {"none": False, "w": -3, "h": 50}, {"none": False, "w": 77, "h": 0}]
        plat = rng.choice(list(PLAT))
        par = {"plat": plat, "q1": rng.choice(qs), "q2": rng.choice(qs) if plat == "windows" else QNONE}
        envs = [ENV0, ENV0, {"set": True, "blank": True, "numeric": False, "num": 0}, {"set": True, "blank": False, "numeric": False, "num": 0}] + \
               [{"set": True, "blank": False, "numeric": True, "num": v} for v in (200, 1, 0, -4)]
        for _ in range(n):
            ops.append({"op": rng.choice(["width", "height"]), "env": rng.choice(envs)})
    return mk, par, ops


# ---------------------------------------------------------------------------------- entry
def same_op(exp, ev):
    r = exp["r"]
    return ev["r"] == {"k": r["k"], "v": list(r["v"]), "b": r["b"], "i": r["i"], "x": r["x"]} and \
        ev["under"] == {"text": list(exp["under"]["text"]), "flushes": exp["under"]["flushes"], "closed": exp["under"]["closed"]}


class Replayer(object):
    def __init__(self, ctx):
        self.ctx = ctx
        self.n = {"in": 0, "out": 0, "term": 0, "time": 0, "ansi": 0, "utf8": 0, "similar": 0}
        self.mism = []
        self.nmism = 0
        self.sample = []

    def keep(self, tr, bad):
        if bad:
            self.nmism += 1
            if len(self.mism) < 500:
                self.mism.append(tr)
        elif len(self.sample) < 300 and sum(self.n.values()) % 61 == 0:
            self.sample.append(tr)

    def __call__(self, line):
        rec = T.parse_emit(line)
        if rec is None:
            return False
        self.ctx.count()
        if "mk" in rec:
            mk = rec["mk"]
            self.n[mk] += 1
            ops = [{"op": o["op"], "n": o["n"], "t": o["t"], "b": o["b"], "env": o["env"]} for o in rec["ops"]]
            tr = run_seq(mk, rec["par"], ops)
            self.keep(tr, not all(same_op(x, ev) for x, ev in zip(rec["ops"], tr[1:])))
            return True
        tbl = rec["tbl"]
        self.n[tbl] += 1
        if tbl == "time":
            out = time_out(rec["t"])
            self.keep([event("row", "tbl", row={"tbl": "time", "lo": rec["t"], "hi": rec["t"], "out": out})], out != rec["out"])
        elif tbl == "ansi":
            if rec["out"] == "n/a":  # the console-mode part of the Windows branch is not modelled and not run
                return True
            out = ansi_out(rec)
            row = {k: rec[k] for k in ("plat", "ansicon", "conemu", "term", "hasfileno", "isatty")}
            row.update(tbl="ansi", outs=out)
            self.keep([event("row", "tbl", row=row)], out != rec["out"])
        elif tbl == "utf8":
            out = utf8_out(rec["enc"])
            self.keep([event("row", "tbl", row={"tbl": "utf8", "enc": rec["enc"], "outb": bool(out)})], out != rec["out"])
        else:
            names = [n for n in rec["names"] if n]
            out, dist = similar_out(rec["q"], names)
            row = {"tbl": "similar", "q": list(rec["q"]), "names": [list(n) for n in names], "dist": dist, "outl": [list(n) for n in out]}
            self.keep([event("row", "tbl", row=row)], out != rec["out"])
        return True


def time_segments(upto):
    """format_time for every second 0..upto, as maximal runs with the same text"""
    segs = []
    cur, lo = None, 0
    for t in range(upto + 1):
        o = time_out(t)
        if o != cur:
            if cur is not None:
                segs.append((lo, t - 1, cur))
            cur, lo = o, t
    segs.append((lo, upto, cur))
    return [event("row", "tbl", row={"tbl": "time", "lo": a, "hi": b, "out": o}) for a, b, o in segs]


def run_ext(ctx):
    quick = ctx.tier == "quick"
    rp = Replayer(ctx)
    ctx.model(SPEC, "MC_Streams", "MC_Streams_%s.cfg" % ctx.tier, name="ext-streams: sequences + tables", workers=8, line_sink=rp,
              timeout=900)
    for k, least in (("in", 1000), ("out", 300), ("term", 1000), ("time", 20), ("ansi", 50), ("utf8", 5), ("similar", 100)):
        if rp.n[k] < least:
            raise T.MachineryError("ext_streams: only %d '%s' behaviours emitted" % (rp.n[k], k))
    traces = rp.mism + rp.sample
    traces.append(time_segments(700000))
    for _ in range(300 if quick else 6000):
        mk, par, ops = rand_seq(ctx.rng)
        traces.append(run_seq(mk, par, ops))
        ctx.count()
    ctx.validate(SPEC, "StreamsTrace", "StreamsTrace.cfg", traces, name="ext-streams: recorded sequences and tables", chunk=4000)
    ctx.extra["ext_streams"] = {"tlc_behaviours_replayed": dict(rp.n), "not_reproduced": rp.nmism,
                                "format_time_seconds_checked": 700001, "random_sequences": 300 if quick else 6000}
