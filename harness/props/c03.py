"""C03  DefaultResolver: which command a line selects."""
import json
import os
import re
import zlib

from harness.engine import tlc as T
from harness.engine.core import run_extension

SPEC = os.path.join(T.SPECS, "Resolver")
_APPS = {}


def txt(cs):
    return "".join(cs)


def build_app(tree):
    """tree: list of node records (model shape).  Returns (app, {id: Command})"""
    key = json.dumps(tree, sort_keys=True)
    if key in _APPS:
        return _APPS[key]
    from clikit import ConsoleApplication
    from clikit.api.args.format import Option
    from clikit.api.config import ApplicationConfig as Base
    from clikit.api.config import CommandConfig
    from clikit.resolver import DefaultResolver

    class Cfg(Base):
        @property
        def default_command_resolver(self):
            return DefaultResolver()

    c = Cfg()
    c.set_catch_exceptions(False)
    c.set_terminate_after_run(False)
    c.add_option("glob", "g", Option.NO_VALUE)
    c.add_option("opt", "o", Option.REQUIRED_VALUE)
    cfgs = {}   # node id -> CommandConfig  (+ "scratch": the re-used alias list)
    for i, nd in enumerate(tree):
        # equivalent routes to a (sub-)command configuration: add_*_config(CommandConfig), create_*(name), the context manager
        how = (zlib.crc32(key.encode()) // 7 + i) % 3
        parent = c if nd["parent"] == 0 else cfgs[nd["parent"]]
        if nd.get("same_as"):   # ONE CommandConfig object attached in a second place of the tree (a leaf identical to node same_as)
            cc = cfgs[nd["same_as"]]
            cfgs[i + 1] = cc
            c.add_command_config(cc) if nd["parent"] == 0 else parent.add_sub_command_config(cc)
            continue
        if how == 0:
            cc = CommandConfig(txt(nd["name"]))
        elif nd["parent"] == 0:
            cc = c.create_command(txt(nd["name"])) if how == 1 else c.command(txt(nd["name"])).__enter__()
        else:
            cc = parent.create_sub_command(txt(nd["name"])) if how == 1 else parent.sub_command(txt(nd["name"])).__enter__()
        # aliases: one by one, or through set_aliases with ONE scratch list that every node of this application re-uses
        # (the configuration must keep its own copy)
        if (zlib.crc32(key.encode()) // 11 + i) % 3 == 0:
            scratch = cfgs.setdefault("scratch", [])
            scratch[:] = [txt(a) for a in nd["aliases"]]
            cc.set_aliases(scratch)
        else:
            for a in nd["aliases"]:
                cc.add_alias(txt(a))
        # the same kind is reached through different sequences of the configuration calls (the flags are a little
        # state machine: default() clears the anonymous mark, anonymous() sets both, default(False) clears both)
        route = (zlib.crc32(key.encode()) + i) % 3
        if nd["kind"] == "default":
            if route == 1:
                cc.anonymous()
            elif route == 2:
                cc.default(False)
            cc.default()
        elif nd["kind"] == "anon":
            if route == 1:
                cc.default()
            cc.anonymous()
        else:
            if route == 1:
                cc.default()
                cc.default(False)
            elif route == 2:
                cc.anonymous()
                cc.default(False)
        if not nd["enabled"]:
            cc.disable()
        if nd["hidden"]:
            cc.hide()
        if nd["strict"]:
            cc.disable_lenient_args_parsing()
        else:
            cc.enable_lenient_args_parsing()
        cfgs[i + 1] = cc
        if how == 0:
            # ... one by one, or through the bulk adders (which add to what is there)
            bulk = (zlib.crc32(key.encode()) // 13 + i) % 2 == 1
            if nd["parent"] == 0:
                c.add_command_configs([cc]) if bulk else c.add_command_config(cc)
            else:
                parent.add_sub_command_configs([cc]) if bulk else parent.add_sub_command_config(cc)
    app = ConsoleApplication(c)
    cmds = {}

    def walk(coll, parent_id):
        for cmd in coll:
            for i, nd in enumerate(tree):
                if nd["parent"] == parent_id and txt(nd["name"]) == cmd.name and (i + 1) not in cmds:
                    cmds[i + 1] = cmd
                    walk(cmd.sub_commands, i + 1)
                    break

    walk(app.commands, 0)
    _APPS[key] = (app, cmds)
    if len(_APPS) > 3000:
        _APPS.clear()
    return app, cmds


def observe(tree, line, form="argv"):
    from clikit.args import ArgvArgs, StringArgs
    from clikit.resolver.resolve_result import ResolveResult

    app, cmds = build_app(tree)
    toks = [txt(t) for t in line]

    def raw():
        return ArgvArgs(["prog"] + toks) if form == "argv" else StringArgs(" ".join("'%s'" % t for t in toks))

    parsable = []
    for i in range(len(tree)):
        cmd = cmds.get(i + 1)
        try:
            parsable.append(bool(cmd is not None and ResolveResult(cmd, raw()).is_parsable()))
        except Exception:  # noqa
            parsable.append(False)
    obs = {"kind": "", "id": 0, "tok": []}
    try:
        rc = app.resolve_command(raw())
        ids = [k for k, v in cmds.items() if v is rc.command]
        obs.update(kind="sel", id=ids[0] if ids else -1)
    except Exception as e:  # noqa
        name, msg = type(e).__name__, str(e)
        m = re.match(r'The command "(.*?)" is not defined\.', msg, re.S)
        if name == "CannotResolveCommandException" and m:
            obs.update(kind="undefined", tok=list(m.group(1)))
        elif name == "CannotResolveCommandException" and msg.startswith("No default command"):
            obs.update(kind="nodefault")
        elif name == "CannotParseArgsException":
            obs.update(kind="parse", id=-1)
        else:
            obs.update(kind="exc:" + name)
    return {"tree": tree, "line": [list(t) for t in toks], "obs": obs, "parsable": parsable}


def same(m, ev):
    o, e = m["outcome"], ev["obs"]
    if o["kind"] != e["kind"]:
        return False
    if o["kind"] == "sel":
        return o["id"] == e["id"]
    if o["kind"] == "undefined":
        return o["tok"] == e["tok"]
    return True


def run(ctx):
    quick = ctx.tier == "quick"
    ctx.rule = (
        "TLC enumerates command trees on the skeleton a(a1){c(c1){e(e1)}, d}, b with kinds plain/default/anonymous, enabled/"
        "disabled, hidden, strict/lenient varied x every line made of a path prefix up to MaxPath tokens over names, aliases and an "
        "unknown word plus a suffix (argument, option, option+argument, '--' + command name, '--' + word); invariants: the selected "
        "command is the one the statement names, alias / trailing-option / separator / hidden laws; every case is replayed on "
        "ConsoleApplication.resolve_command (argv and string form alternating); simulated cases on the full family (depth 3, all "
        "attributes) and random trees/lines (three configuration routes, a sub-command named like a global option, one configuration "
        "object under two parents, empty tokens, several options in a row) are decided by ResolverTrace with the observed "
        "parsability of every command; extensions run with it (DRIFT only): CommandCollection, Config, Suggest; "
        "non-trivial = the line has >= 2 tokens"
    )
    ctx.assumptions += [
        "sibling names and aliases are unique; the leading tokens end at the first empty token, option token or '--'",
        "with several default sub-commands any of them is an allowed selection (the code takes the first that parses)",
        "whether a command parses a line is an observed input (the parser is C01/C02's subject)",
    ]
    traces, cases = [], []
    nmis = 0

    def replay(recs, label):
        nonlocal nmis
        for k, m in enumerate(recs):
            ev = observe(m["tree"], m["line"], "argv" if k % 2 == 0 else "string")
            ctx.count()
            if len(m["line"]) >= 2:
                ctx.nontriv((json.dumps(m["tree"]), json.dumps(m["line"])))
            ok = same(m, ev) and all(p == q for p, q, al in zip(m["parsable"], ev["parsable"], m["alive"]) if al)
            if not ok:
                nmis += not same(m, ev)
                traces.append([ev])
                cases.append({"tree": m["tree"], "line": m["line"], "form": "argv" if k % 2 == 0 else "string", "from": label})
            elif ctx.rng.random() < 0.002:
                traces.append([ev])
                cases.append({"tree": m["tree"], "line": m["line"], "form": "argv" if k % 2 == 0 else "string", "from": label})

    r = ctx.model(SPEC, "MC_Resolver", "MC_Resolver_%s.cfg" % ctx.tier, name="trees-x-lines-exhaustive", timeout=2400)
    recs = T.emitted(r)
    if len(recs) < 30000:
        raise T.MachineryError("resolver model emitted %d" % len(recs))
    replay(recs, "exhaustive")
    ctx.sample({"line": [txt(t) for t in recs[len(recs) // 2]["line"]], "outcome": recs[len(recs) // 2]["outcome"]})
    n1 = len(recs)
    r = ctx.model(SPEC, "MC_Resolver", "MC_Resolver_sim.cfg", name="full-family-simulated", simulate="num=%d" % (800 if quick else 40000),
                  depth=12, workers=1, seed=ctx.seed % 100000)
    recs = list({json.dumps(m, sort_keys=True): m for m in T.emitted(r)}.values())
    replay(recs, "simulate")
    ctx.extra["tlc_cases_replayed"] = n1 + len(recs)
    ctx.extra["tlc_cases_not_reproduced"] = nmis
    ctx.exhaustive = True

    # ---- random trees (depth <= 3, fan-out <= 3) and lines
    n = 600 if quick else 12000
    for k in range(n):
        tree = rand_tree(ctx.rng)
        line = rand_line(ctx.rng, tree)
        form = "argv" if k % 2 else "string"
        traces.append([observe(tree, line, form)])
        cases.append({"tree": tree, "line": line, "form": form, "from": "random"})
        ctx.count()
        ctx.nontriv(("r", k))
    ctx.sample({"random_line": [txt(t) for t in cases[-1]["line"]]})
    ctx.validate(SPEC, "ResolverTrace", "ResolverTrace.cfg", traces, cases=cases, name="recorded-resolutions", chunk=600)

    # ---- extension beyond the listed property: the CommandCollection index itself (deviations are DRIFT)
    r = ctx.model(SPEC, "MC_Collection", "MC_Collection_%s.cfg" % ctx.tier, name="command-collection-sequences", workers=4)
    hs = T.emitted(r)
    if len(hs) < 1000:
        raise T.MachineryError("collection model emitted %d" % len(hs))
    ctraces = [run_collection(h) for h in hs]
    ctx.count(len(hs))
    ctx.extra["collection_sequences_replayed"] = len(hs)
    ctx.validate(SPEC, "CollectionTrace", "CollectionTrace.cfg", ctraces, cases=[{"collection_ops": h} for h in hs], name="collection-sequences", chunk=2500)
    # ---- extension: the configuration layer (specs/Config; A-clauses only)
    from harness.props import ext_config

    run_extension(ctx, "config", ext_config.run_ext)
    from harness.props import ext_suggest

    run_extension(ctx, "suggest", ext_suggest.run_ext)


COLL = {"c1": ("a", ["x"]), "c2": ("b", ["x", "y"]), "c3": ("a", ["y"]), "c4": ("c", []), "c5": ("x", ["b"])}


def run_collection(ops):
    """CommandCollection with stand-in commands (name, short_name, aliases is all the collection looks at)"""
    from clikit.api.command import CommandCollection

    class Cmd(object):
        def __init__(self, cid):
            self.cid, self.name, self.short_name, self.aliases = cid, COLL[cid][0], None, list(COLL[cid][1])

    coll = CommandCollection()
    out = []
    for op in ops:
        ev = {"op": op["op"], "c": op.get("c", ""), "t": op.get("t", ""), "r": "none", "has": False, "order": [], "n": 0, "names": [], "aliases": []}
        if op["op"] == "add":
            coll.add(Cmd(op["c"]))
        elif op["op"] == "get":
            try:
                ev["r"] = coll.get(op["t"]).cid
            except Exception:  # noqa
                ev["r"] = "none"
            ev["has"] = op["t"] in coll
        else:
            ev["order"] = [c.cid for c in coll]
            ev["n"] = len(coll)
            ev["names"] = coll.get_names()
            ev["aliases"] = [x for x in coll.get_names(True) if x not in ev["names"] or coll.get_names(True).count(x) > 1]
        out.append(ev)
    return out


NAMES = ["srv", "add", "rm", "ls", "cfg", "get", "set", "run", "new"]


def rand_tree(rng):
    tree = []
    pool = list(NAMES)
    rng.shuffle(pool)
    aliases = ["s1", "a2", "r3", "l4", "c5", "g6", "t7", "u8", "n9"]
    rng.shuffle(aliases)

    def node(parent):
        nm = pool.pop()
        al = [list(aliases.pop())] if rng.random() < 0.6 else []
        tree.append({"parent": parent, "name": list(nm), "aliases": al, "kind": rng.choice(["plain", "plain", "default", "anon"]),
                     "enabled": rng.random() < 0.85, "hidden": rng.random() < 0.2, "strict": rng.random() < 0.5})
        return len(tree)

    for _ in range(rng.randint(1, 3)):
        if not pool:
            break
        r = node(0)
        for _ in range(rng.randint(0, 2)):
            if not pool:
                break
            c = node(r)
            if pool and rng.random() < 0.5:
                node(c)
    for nd in tree:
        nd["same_as"] = 0
        if rng.random() < 0.15:   # names and aliases are case-sensitive: "Srv" is not "srv"
            nd["name"] = [nd["name"][0].upper()] + nd["name"][1:]
        if nd["aliases"] and rng.random() < 0.15:
            nd["aliases"] = [[c.upper() for c in nd["aliases"][0]]]
    # a sub-command named like a global option (--glob / -g): option tokens after the path must still not select it
    subs = [nd for nd in tree if nd["parent"] != 0]
    if subs and rng.random() < 0.35:
        nd = rng.choice(subs)
        nd["name"] = list("glob")
        nd["aliases"] = [list("g")] if rng.random() < 0.7 else nd["aliases"]
    # one configuration object attached in two places: a leaf is attached again under another parent
    leaves = [k + 1 for k, nd in enumerate(tree) if not any(x["parent"] == k + 1 for x in tree)]
    if leaves and rng.random() < 0.35:
        src = rng.choice(leaves)
        others = [q for q in [0] + [k + 1 for k in range(len(tree)) if tree[k]["parent"] == 0 or tree[tree[k]["parent"] - 1]["parent"] == 0]
                  if q != tree[src - 1]["parent"] and q != src and (q == 0 or not tree[q - 1].get("same_as"))]
        if others:
            q = rng.choice(others)
            tree.append(dict(tree[src - 1], parent=q, same_as=src))
    return tree


def rand_line(rng, tree):
    words = [nd["name"] for nd in tree] + [a for nd in tree for a in nd["aliases"]] + [list("zzz")]
    line = []
    # a (possibly partial or wrong) path
    cur = 0
    for _ in range(rng.randint(0, 3)):
        kids = [nd for nd in tree if nd["parent"] == cur]
        if kids and rng.random() < 0.8:
            nd = rng.choice(kids)
            line.append(rng.choice([nd["name"]] + nd["aliases"]))
            cur = tree.index(nd) + 1
        else:
            line.append(rng.choice(words))
    if line and rng.random() < 0.12:   # a case variant of a path token names nothing (unless the tree happens to hold it)
        k = rng.randrange(len(line))
        line[k] = [c.swapcase() for c in line[k]]
    for _ in range(rng.randint(0, 2)):
        line.append(rng.choice(words + [list("-g"), list("--glob"), list("--opt=v"), list("-ov"), []]))   # [] = an empty token
    if rng.random() < 0.3:   # several option tokens in a row (the first one is looked at differently from the following ones)
        line += rng.choice([[list("-g"), list("--glob")], [list("--glob"), list("-g")], [list("--opt=v"), list("--glob"), list("-g")], [list("-g"), list("-g")]])
    if rng.random() < 0.3:
        line.append(list("--"))
        for _ in range(rng.randint(0, 2)):
            line.append(rng.choice(words + [list("-g")]))
    return line


def replay(ctx, path):
    c = json.load(open(path))["case"]
    ctx.count()
    ctx.nontriv(1)
    ctx.nontriv(2)
    ctx.sample({"line": [txt(t) for t in c["line"]]})
    ctx.validate(SPEC, "ResolverTrace", "ResolverTrace.cfg", [[observe(c["tree"], c["line"], c.get("form", "argv"))]], cases=[c], name="replay")
