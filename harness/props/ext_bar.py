"""Extension of C16 (no listed property): format_time, the elapsed / remaining / estimated / percent placeholders with
their width suffixes, set_redraw_frequency, and messages with a line break in a one-line format.

run_ext(ctx) replays every instance TLC enumerates from specs/BarExt/MC_BarExt (four families) on the real
clikit.utils.time.format_time / ProgressBar under the virtual clock of c16.py, and has random instances judged by
BarExtTrace.  Every clause of that module is an A-clause (Note): a difference between model and code is DRIFT."""
import os

from harness.engine import termbytes
from harness.engine import tlc as T
from harness.props import c16

SPEC = os.path.join(T.SPECS, "BarExt")
SEP = "|"


class _Env(object):
    """virtual clock + an ANSI output on a recording stream"""

    def __enter__(self):
        import clikit.ui.components.progress_bar as pbmod
        from clikit.api.io import Output
        from clikit.formatter import AnsiFormatter

        self.pbmod, self.old = pbmod, pbmod.time
        self.clock = c16.Clock()
        pbmod.time = self.clock
        self.stream = c16._recording_stream()
        self.out = Output(self.stream, AnsiFormatter(forced=True))
        return self

    def __exit__(self, *a):
        self.pbmod.time = self.old


def obs_time(t):
    from clikit.utils.time import format_time

    try:
        return list(str(format_time(t / c16.TICKS_PER_S)))
    except Exception as e:  # noqa
        return list("!" + type(e).__name__)


def _suffix(n):
    return "" if n == 0 else ":%ds" % n


def obs_place(e, step, mx, spec):
    """the placeholder texts of the frame displayed e ticks after start() at step `step`"""
    from clikit.ui.components import ProgressBar

    out = {"exc": "", "elapsed": [], "remaining": [], "estimated": [], "percent": [], "unknown1": [], "unknown2": [], "getter": [0, 1]}
    with _Env() as env:
        try:
            bar = ProgressBar(env.out, mx, 0)
            bar.set_format("%current%/%max%" + SEP + SEP.join("%" + n + _suffix(s) + "%" for n, s in
                           zip(("elapsed", "remaining", "estimated", "percent"), spec)) + SEP + "%nosuch%" + SEP + "%nosuch:4s%" + SEP)
            bar.start()
            env.clock.ticks += e
            bar.set_progress(step)
            mark = len(env.stream.chunks)
            bar.display()
            text = c16._ESC.sub("", "".join(env.stream.chunks[mark:]))
            parts = text.split(SEP)
            for k, name in enumerate(("elapsed", "remaining", "estimated", "percent", "unknown1", "unknown2")):
                out[name] = list(parts[k + 1]) if len(parts) > k + 1 else ["?"]
            from fractions import Fraction

            fr = Fraction(bar.get_progress_percent()).limit_denominator(100000)
            out["getter"] = [fr.numerator, fr.denominator]
        except Exception as ex:  # noqa
            out["exc"] = type(ex).__name__
    return out


def obs_redraw(f, mingap, mx, run):
    from clikit.ui.components import ProgressBar

    drew = []
    with _Env() as env:
        try:
            bar = ProgressBar(env.out, mx) if mingap == 103 else ProgressBar(env.out, mx, mingap / c16.TICKS_PER_S)
            bar.set_redraw_frequency(f)
            bar.start()
            for dt, k in run:
                env.clock.ticks += dt
                mark = len(env.stream.chunks)
                bar.advance(k)
                drew.append(any(c16._ESC.sub("", c).strip() for c in env.stream.chunks[mark:]))
        except Exception:  # noqa
            drew.append("exc")
    return drew


def obs_multi(msg, mx, calls):
    from clikit.ui.components import ProgressBar

    opss = []
    with _Env() as env:
        try:
            bar = ProgressBar(env.out, mx, 0)
            bar.set_format("%message% %current%/%max%")
            bar.set_message("\n".join(msg))
            mark = 0
            for call in ["start"] + list(calls):
                if call == "start":
                    bar.start()
                elif call == "draw":
                    bar.advance()
                else:
                    bar.clear()
                data = env.stream.fetch()
                opss.append(termbytes.ops(data[mark:]))
                mark = len(data)
        except Exception as ex:  # noqa
            opss.append([{"k": "exc:" + type(ex).__name__, "n": 0, "s": []}])
    return opss


def _ops(model_ops):
    return [[dict(k=o["k"], n=o["n"], s=list(o["s"])) for o in ops] for ops in model_ops]


def ev_time(t, text):
    return {"kind": "time", "t": t, "text": text}


def ev_place(e, step, mx, spec, o):
    return dict(o, kind="place", e=e, step=step, max=mx, spec=list(spec))


def ev_redraw(f, mingap, mx, run, drew):
    return {"kind": "redraw", "f": f, "mingap": mingap, "max": mx, "run": [list(c) for c in run], "drew": drew}


def ev_multi(msg, mx, calls, opss):
    return {"kind": "multi", "msg": [list(x) for x in msg], "max": mx, "calls": list(calls), "ops": opss}


def run_ext(ctx):
    quick = ctx.tier == "quick"
    mism, samples = [], []
    stats = {"time": 0, "place": 0, "redraw": 0, "multi": 0, "stacked": 0}

    def family(cfg, name, handle):
        def sink(line):
            rec = T.parse_emit(line)
            if rec is None:
                return False
            ev, same = handle(rec)
            stats[name] += 1
            if not same:
                mism.append([ev])
            elif stats[name] % 97 == 0 and len(samples) < 200:
                samples.append([ev])
            return True

        ctx.model(SPEC, "MC_BarExt", cfg, name="bar-ext " + name, line_sink=sink, workers=4)

    def h_time(rec):
        o = obs_time(rec["t"])
        return ev_time(rec["t"], o), o == list(rec["text"])

    def h_place(rec):
        i, m = rec["inst"], rec["out"]
        step = 0 if i["max"] == 0 else i["step"]
        o = obs_place(i["e"], step, i["max"], i["spec"])
        same = o["exc"] == m["exc"] and all(o[k] == list(m[k]) for k in ("elapsed", "remaining", "estimated", "percent"))
        if same and not o["exc"]:  # the two clauses TLC does not print an answer for: judged by BarExtTrace
            same = "".join(o["unknown1"]) == "%nosuch%" and "".join(o["unknown2"]) == "%nosuch:4s%" and \
                o["getter"][0] * i["max"] == o["getter"][1] * step
        return ev_place(i["e"], step, i["max"], i["spec"], o), same

    def h_redraw(rec):
        i = rec["inst"]
        o = obs_redraw(i["f"], i["mingap"], i["max"], i["run"])
        return ev_redraw(i["f"], i["mingap"], i["max"], i["run"], o), o == list(rec["drew"])

    def h_multi(rec):
        i, m = rec["inst"], rec["out"]
        msg = ["".join(x) for x in i["msg"]]
        o = obs_multi(msg, i["max"], i["calls"])
        same = o == _ops(m["ops"])
        if same and m["stacked"]:
            stats["stacked"] += 1
        return ev_multi(msg, i["max"], i["calls"], o), same

    family("MC_BarExt_T.cfg", "time", h_time)
    family("MC_BarExt_P.cfg", "place", h_place)
    family("MC_BarExt_R.cfg" if quick else "MC_BarExt_R_thorough.cfg", "redraw", h_redraw)
    family("MC_BarExt_M.cfg", "multi", h_multi)
    n = sum(stats[k] for k in ("time", "place", "redraw", "multi"))
    if stats["time"] < 50 or stats["place"] < 1000 or stats["redraw"] < 5000 or stats["multi"] < 100:
        raise T.MachineryError("MC_BarExt emitted too few instances: %r" % (stats,))
    ctx.count(n)
    ctx.extra["bar_ext_instances_replayed"] = dict((k, stats[k]) for k in ("time", "place", "redraw", "multi"))
    ctx.extra["bar_ext_instances_not_reproduced"] = len(mism)
    # observation, not a verdict: instances (model and code agreeing) in which frames of a message with a line break
    # pile up on the screen because the cursor is not moved up before the redraw
    ctx.extra["bar_ext_multiline_frames_pile_up"] = stats["stacked"]

    rng = ctx.rng
    traces = list(mism) + samples
    for k in range(400 if quick else 6000):
        kind = k % 4
        if kind == 0:
            t = min(2 ** 31 - 2, int(rng.choice([1, 60, 3600, 86400, 604800, 1600000]) * 1024 * rng.random() * 1.3)) + rng.choice([-1, 0, 1])
            traces.append([ev_time(t, obs_time(t))])
        elif kind == 1:
            mx = rng.choice([0, 1, 3, 10, 50, 200])
            step = rng.randint(0, mx) if mx else 0
            e = rng.choice([rng.randint(0, 4096), rng.randint(0, 70 * 1024), rng.randint(0, 5000 * 1024)])
            spec = [rng.choice([0, 0, 3, 6, -6, 9, -12]) for _ in range(4)]
            traces.append([ev_place(e, step, mx, spec, obs_place(e, step, mx, spec))])
        elif kind == 2:
            f, mingap, mx = rng.randint(-2, 7), rng.choice([0, 0, 103]), rng.choice([0, 1, 3, 10, 50])
            run = [(rng.choice([0, 0, 0, 10, 51, 205, 2048]), rng.choice([0, 1, 1, 1, 2, 3, 5, 9])) for _ in range(rng.randint(1, 12))]
            traces.append([ev_redraw(f, mingap, mx, run, obs_redraw(f, mingap, mx, run))])
        else:
            msg = ["".join(rng.choice("abcxyz") for _ in range(rng.randint(0, 6))) for _ in range(rng.randint(1, 3))]
            mx = rng.choice([3, 12, 100])
            calls = [rng.choice(["draw", "draw", "clear"]) for _ in range(rng.randint(0, 5))]
            traces.append([ev_multi(msg, mx, calls, obs_multi(msg, mx, calls))])
        ctx.count()
    ctx.validate(SPEC, "BarExtTrace", "BarExtTrace.cfg", traces, name="bar-ext observed", chunk=800)
