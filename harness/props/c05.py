"""C05  parsing is a pure function: one parser object serving sequences of requests vs. fresh parsers."""
import json
import os

from harness.engine import tlc as T
from harness.props import argslib as L

SPEC = os.path.join(T.SPECS, "ArgsParser")


def run_sequence_light(formats, fobjs, reqs):
    from clikit.args import DefaultArgsParser

    shared = DefaultArgsParser()
    return [L.event_light(formats[fi - 1], fobjs[fi - 1], toks, lenient, shared, form="string" if k % 2 == 0 else "argv")
            for k, (fi, lenient, toks) in enumerate(reqs)]


def run_sequence(formats, fobjs, reqs, via_command=False, throwaway=False):
    """reqs: list of (format index (1-based), lenient, tokens).  One parser object for the whole sequence.
    throwaway: every request gets a format object of its own that nobody keeps (the long-lived parser outlives the
    formats it has seen; a later format may even live at the address of an earlier one)"""
    import gc

    from clikit.args import DefaultArgsParser

    shared = DefaultArgsParser()
    evs = []
    for k, (fi, lenient, toks) in enumerate(reqs):
        # command-string and argv form alternate: both kinds of raw arguments must survive a parse untouched
        form = "string" if k % 2 == 0 else "argv"
        if throwaway:
            evs.append(L.event(formats[fi - 1], L.build_format(formats[fi - 1], bool(k % 2)), toks, lenient, parser=shared, form=form, keep=False))
            gc.collect(0)   # (youngest generation only: a full collection of the harness heap per request is far too slow)
        else:
            evs.append(L.event(formats[fi - 1], fobjs[fi - 1], toks, lenient, parser=shared, form=form))
    return evs


def run(ctx):
    try:
        _run(ctx)
    except L.GiveUp:   # parses that do not terminate: judged, nothing more is generated
        L.judge_hangs(ctx, SPEC)


def _run(ctx):
    quick = ctx.tier == "quick"
    ctx.rule = (
        "TLC runs every sequence of MaxReqs requests (3 formats sharing option names x strict/lenient x 9 lines = 54 requests) on "
        "two instances of the parser model - a long-lived object and a fresh one - and checks SameAsFresh; the variant that keeps "
        "the option scratch map (the pinned defect) must violate it (vacuity guard); each emitted sequence is replayed on ONE real "
        "DefaultArgsParser and compared; random sequences of 1-6 requests over the soup formats are decided by ArgsParserTrace "
        "(same-as-fresh, argv list / raw tokens / format listings untouched, Command.parse on one Command and one raw-args object "
        "leniently then strictly then by default: P.route.command); non-trivial = >= 2 requests with an option in an earlier one"
    )
    ctx.assumptions += ["fresh parser = DefaultArgsParser() created for the request", "format listings compared through the public get_* listings"]
    r = ctx.model(SPEC, "MC_ArgsSeq", "MC_ArgsSeq_defect.cfg", name="pinned-defect-must-violate", expect_ok=False, workers=8)
    if "SameAsFresh" not in r.violated:
        raise T.MachineryError("the model of the pinned defect (options scratch map not reset) no longer violates SameAsFresh: vacuous")
    r = ctx.model(SPEC, "MC_ArgsSeq", "MC_ArgsSeq_%s.cfg" % ctx.tier, name="sequences-exhaustive", workers=8)
    formats = L.formats_from(r)
    fobjs = [L.build_format(f) for f in formats]
    hists = T.emitted(r)
    if len(hists) < 2000:
        raise T.MachineryError("sequence model emitted %d" % len(hists))
    traces, cases = [], []
    nmis = 0
    for h in hists:
        reqs = [(e["f"], e["lenient"], [L.txt(t) for t in e["line"]]) for e in h]
        evs = run_sequence_light(formats, fobjs, reqs)   # (the full events only for what goes to the trace module)
        ctx.count()
        ok = all(ev["obs"]["err"] == e["err"] and ev["obs"]["result"] == e["result"] and ev["obs"] == ev["fresh"] and ev["untouched"]
                 for ev, e in zip(evs, h))
        if any(t.startswith("-") for t in reqs[0][2]):
            ctx.nontriv(json.dumps(reqs))
        if not ok or ctx.rng.random() < 0.02:
            nmis += (not ok)
            traces.append(run_sequence(formats, fobjs, reqs))
            cases.append({"formats": "seq", "reqs": reqs})
    ctx.extra["tlc_sequences_replayed"] = len(hists)
    ctx.extra["tlc_sequences_not_reproduced"] = nmis
    ctx.sample({"sequence": [(e["f"], e["lenient"], [L.txt(t) for t in e["line"]], e["err"]) for e in hists[len(hists) // 2]]})
    ctx.exhaustive = True
    # ---- random longer sequences on the soup formats (they include typed options and command names)
    r2 = ctx.model(SPEC, "MC_ArgsSoup", "MC_ArgsSoup_formats.cfg", name="soup-formats", workers=2)
    sformats = L.formats_from(r2)
    # two more formats: several required arguments (an error that names more than one of them) and optional-value options
    # of the same name whose defaults are Python values that compare equal (True == 1) but convert differently
    def A(n, req):
        return {"name": n, "req": req, "multi": False, "type": "str", "nullable": False, "dflt": {"t": "N"}}

    def O(lg, sh, mode, dflt):
        return {"long": list(lg), "short": sh, "mode": mode, "type": "str", "nullable": False, "dflt": dflt}

    sformats = sformats + [
        {"cnames": [], "args": [A("p1", True), A("p2", True), A("p3", True)], "opts": [O("aa", "a", "opt", {"t": "T"}), O("bb", "b", "none", {"t": "N"})]},
        {"cnames": [], "args": [A("x", True), A("host", True), A("z", False)], "opts": [O("aa", "a", "opt", {"t": "I", "v": ["1"]}), O("bb", "", "multi", {"t": "N"})]},
    ]
    sfobjs = [L.build_format(f, True) for f in sformats]
    alpha = ["", "-", "--", "--aa", "--aa=x", "--aa=7", "--zz", "-a", "-ax", "-ab", "-b", "--bb", "null", "x", "7", "srv", "s", "-a7", "--bb=1", "--", "true", "x\r", "yy\r"]
    n = 400 if quick else 8000
    for k in range(n):
        reqs = [(ctx.rng.randrange(len(sformats)) + 1, bool(ctx.rng.getrandbits(1)), [ctx.rng.choice(alpha) for _ in range(ctx.rng.randint(0, 5))])
                for _ in range(ctx.rng.randint(1, 6))]
        traces.append(run_sequence(sformats, sfobjs, reqs, throwaway=(k % 3 == 0)))
        cases.append({"formats": "soup", "reqs": reqs, "throwaway": k % 3 == 0})
        ctx.count()
        ctx.nontriv(("r", k))
    ctx.sample({"random_sequence": cases[-1]["reqs"]})
    ctx.validate(SPEC, "ArgsParserTrace", "ArgsParserTrace.cfg", traces, cases=cases, name="recorded-sequences", chunk=250)


def replay(ctx, path):
    d = json.load(open(path))
    c = d["case"]
    formats = [ev["f"] for ev in d["trace"]]
    evs = []
    from clikit.args import DefaultArgsParser

    shared = DefaultArgsParser()
    for (fi, lenient, toks), f in zip(c["reqs"], formats):
        evs.append(L.event(f, L.build_format(f, c["formats"] == "soup"), toks, lenient, parser=shared, form="string" if len(evs) % 2 == 0 else "argv"))
    ctx.count()
    ctx.nontriv(1)
    ctx.nontriv(2)
    ctx.sample(c)
    ctx.validate(SPEC, "ArgsParserTrace", "ArgsParserTrace.cfg", [evs], cases=[c], name="replay")
