"""C06  ArgsFormatBuilder / ArgsFormat: operation sequences, full query table after every step."""
import json
import os

from harness.engine import tlc as T
from harness.engine.core import chunks

SPEC = os.path.join(T.SPECS, "FormatBuilder")

# mirrors specs/FormatBuilder/FBPools.tla
OPTS = {"o1": ("aa", "a"), "o2": ("aa", None), "o3": ("bb", "b"), "o4": ("bb", "a")}
COPTS = {"c1": ("cc", "c", ["bb"]), "c2": ("dd", "a", ["b"]), "c3": ("aa", None, [])}
ARGS = {"xr": ("x", True, False), "xo": ("x", False, False), "yr": ("y", True, False), "yo": ("y", False, False),
        "zm": ("z", False, True), "zrm": ("z", True, True)}
LISTS = {"l1": [("a", "xr")], "l2": [("a", "xo"), ("o", "o1")], "l3": [("o", "o3"), ("c", "c3")],
         "l4": [("a", "yo"), ("a", "zm")], "l5": [("n", "n1"), ("c", "c2")]}
ONAMES = ["aa", "bb", "cc", "dd", "a", "b", "c"]
ANAMES = ["x", "y", "z"]
MAXIDX = 3


def mk(kind, el):
    from clikit.api.args.format import Argument, CommandName, CommandOption, Option

    if kind == "o":
        lg, sh = OPTS[el]
        return Option(lg, sh)
    if kind == "c":
        lg, sh, al = COPTS[el]
        return CommandOption(lg, sh, list(al))
    if kind == "a":
        nm, req, multi = ARGS[el]
        return Argument(nm, (Argument.REQUIRED if req else Argument.OPTIONAL) | (Argument.MULTI_VALUED if multi else 0))
    return CommandName(el)


def q(fn, *a):
    try:
        r = fn(*a)
    except Exception as e:  # noqa
        return "NoSuch" if "NoSuch" in type(e).__name__ else "EXC:" + type(e).__name__
    return r


def table(x):
    """every query of the public API, with and without the base"""
    def pair(f):
        return [f(True), f(False)]

    def name_of(fn, n, inc, attr):
        r = q(fn, n, inc)
        return r if isinstance(r, str) else getattr(r, attr)

    ans = {
        "ho": {n: pair(lambda i: bool(x.has_option(n, i))) for n in ONAMES},
        "go": {n: pair(lambda i: name_of(x.get_option, n, i, "long_name")) for n in ONAMES},
        "hc": {n: pair(lambda i: bool(x.has_command_option(n, i))) for n in ONAMES},
        "gc": {n: pair(lambda i: name_of(x.get_command_option, n, i, "long_name")) for n in ONAMES},
        "ha": {n: pair(lambda i: bool(x.has_argument(n, i))) for n in ANAMES},
        "ga": {n: pair(lambda i: name_of(x.get_argument, n, i, "name")) for n in ANAMES},
        "hai": [pair(lambda i: bool(x.has_argument(k, i))) for k in range(MAXIDX + 1)],
        "gai": [pair(lambda i: name_of(x.get_argument, k, i, "name")) for k in range(MAXIDX + 1)],
        "multi": pair(lambda i: bool(x.has_multi_valued_argument(i))),
        "optional": pair(lambda i: bool(x.has_optional_argument(i))),
        "required": pair(lambda i: bool(x.has_required_argument(i))),
        "hasArgs": pair(lambda i: bool(x.has_arguments(i))),
        "hasOpts": pair(lambda i: bool(x.has_options(i))),
        "hasCopts": pair(lambda i: bool(x.has_command_options(i))),
        "hasNames": pair(lambda i: bool(x.has_command_names(i))),
    }
    lst = {
        "lo": pair(lambda i: [o.long_name for o in x.get_options(i).values()]),
        "la": pair(lambda i: [a.name for a in x.get_arguments(i).values()]),
        "ln": pair(lambda i: [c.string for c in x.get_command_names(i)]),
        "lc": pair(lambda i: [c.long_name for c in x.get_command_options(i)]),
    }
    return {"ans": ans, "lst": lst}


def run_ops(ops):
    from clikit.api.args.format import ArgsFormat, ArgsFormatBuilder

    base = None
    b = ArgsFormatBuilder()
    out = []
    snap = b.format
    snap_then = table(snap)
    bases = []  # every format that became a base: (format object, its table when it was finished)
    for op in ops:
        k, el = op["op"], op.get("el", "")
        ev = {"op": k, "el": el, "res": "ok", "cls": ""}
        try:
            alt = len(out) % 2 == 1   # the variadic add_*s(...) route every other step
            if k == "addopt":
                b.add_options(mk("o", el)) if alt else b.add_option(mk("o", el))
            elif k == "addcopt":
                b.add_command_options(mk("c", el)) if alt else b.add_command_option(mk("c", el))
            elif k == "addarg":
                b.add_arguments(mk("a", el)) if alt else b.add_argument(mk("a", el))
            elif k == "addname":
                b.add_command_names(mk("n", el)) if alt else b.add_command_name(mk("n", el))
            elif k == "clearopts":
                b.set_options()
            elif k == "clearcopts":
                b.set_command_options()
            elif k == "clearargs":
                b.set_arguments()
            elif k == "clearnames":
                b.set_command_names()
            elif k == "build":
                base = ArgsFormat(b) if alt else b.format
                bases.append((base, table(base)))
                b = ArgsFormatBuilder(base)
            elif k == "construct":
                f = ArgsFormat([mk(kind, e) for kind, e in LISTS[el]], base)
                base = f
                bases.append((base, table(base)))
                b = ArgsFormatBuilder(base)
        except Exception as e:  # noqa
            ev["res"] = "reject"
            ev["cls"] = type(e).__name__
        ev["tb"] = table(b)
        # the format object handed out before this operation, and every format stacked below the builder
        ev["snapThen"] = [snap_then] + [t for _f, t in bases]
        ev["snapNow"] = [table(snap)] + [table(f) for f, _t in bases]
        snap = ArgsFormat(b) if len(out) % 3 == 2 else b.format   # the two routes from a builder to its format
        snap_then = table(snap)
        ev["tf"] = snap_then
        out.append(ev)
    return out


def run_bulk(kind, e1, e2, setter):
    """two additions of one kind made by ONE variadic call (add_*s(a, b) or set_*s(a, b)) on a new builder.  The table after
    the first element cannot be seen on that builder: it is taken from a second new builder that adds the first element
    alone (on an empty builder the single addition cannot be refused); the table after the call is the bulk builder's."""
    from clikit.api.args.format import ArgsFormatBuilder

    ev1 = run_ops([{"op": kind, "el": e1}])[0]
    b = ArgsFormatBuilder()
    letter = {"addopt": "o", "addcopt": "c", "addarg": "a", "addname": "n"}[kind]
    call = {"addopt": (b.add_options, b.set_options), "addcopt": (b.add_command_options, b.set_command_options),
            "addarg": (b.add_arguments, b.set_arguments), "addname": (b.add_command_names, b.set_command_names)}[kind][1 if setter else 0]
    ev2 = {"op": kind, "el": e2, "res": "ok", "cls": ""}
    try:
        call(mk(letter, e1), mk(letter, e2))
    except Exception as e:  # noqa
        ev2["res"], ev2["cls"] = "reject", type(e).__name__
    ev2["tb"] = table(b)
    ev2["snapThen"] = [ev1["tf"]]
    ev2["snapNow"] = [ev1["tf"]]
    ev2["tf"] = table(b.format)
    return [ev1, ev2]


ALL_OPS = ([{"op": "addopt", "el": e} for e in OPTS] + [{"op": "addcopt", "el": e} for e in COPTS]
           + [{"op": "addarg", "el": e} for e in ARGS] + [{"op": "addname", "el": e} for e in ("n1", "n2")]
           + [{"op": o, "el": ""} for o in ("clearopts", "clearcopts", "clearargs", "clearnames", "build")]
           + [{"op": "construct", "el": e} for e in LISTS])


def run(ctx):
    quick = ctx.tier == "quick"
    ctx.rule = (
        "TLC checks the consistency invariants on the whole state space of the builder model (1 base level) and enumerates "
        "every operation sequence of length Depth over 25 operations on a colliding pool (4 options, 3 command options with "
        "aliases, 6 arguments, 2 names, 4 clears, build, 5 direct constructions) plus simulated longer ones; each is replayed on "
        "ArgsFormatBuilder/ArgsFormat with the full query table (both include_base values) of builder and format logged after "
        "every step and decided by FormatBuilderTrace; non-trivial = the sequence contains a rejected addition or a build/construct"
    )
    ctx.assumptions += [
        "positional order of arguments = base arguments first (what the parser relies on); listing order of options and repetition of aliased command options are A-clauses",
        "a rejected addition must leave the builder's query table unchanged; which additions are rejected is only constrained by the consistency of what ends up listed",
        "set_*() is modelled as clear followed by additions",
    ]
    ctx.model(SPEC, "MC_FormatBuilder", "MC_FormatBuilder_bfs_%s.cfg" % ctx.tier, name="state-space", timeout=1500)
    seqs = {}
    r = ctx.model(SPEC, "MC_FormatBuilder", "MC_FormatBuilder_seq_%s.cfg" % ctx.tier, name="all-sequences")
    for h in T.emitted(r):
        seqs[json.dumps(h, sort_keys=True)] = h
    n_exh = len(seqs)
    r = ctx.model(SPEC, "MC_FormatBuilder", "MC_FormatBuilder_sim.cfg", name="simulate", simulate="num=%d" % (40 if quick else 400),
                  depth=10, workers=1, seed=ctx.seed % 100000)
    for h in T.emitted(r):
        seqs[json.dumps(h, sort_keys=True)] = h
    if n_exh < 5000 or len(seqs) <= n_exh:
        raise T.MachineryError("too few behaviours (%d exhaustive, %d total)" % (n_exh, len(seqs)))
    # replayed and decided in batches: the full query tables make a trace large
    def flush(traces, cases):
        if traces:
            ctx.validate(SPEC, "FormatBuilderTrace", "FormatBuilderTrace.cfg", traces, cases=cases, name="recorded-sequences", timeout=1800)

    keep = 1.0 if len(seqs) <= 40000 else 40000.0 / len(seqs)   # thorough: a seeded sample of the depth-4 sequences
    traces, cases = [], []
    nrep = 0
    for h in seqs.values():
        if keep < 1.0 and ctx.rng.random() > keep:
            continue
        ops = [{"op": e["op"], "el": e["el"]} for e in h]
        traces.append(run_ops(ops))
        cases.append({"ops": ops})
        nrep += 1
        ctx.count()
        if any(e["res"] == "reject" or e["op"] in ("build", "construct") for e in h):
            ctx.nontriv(json.dumps(ops))
        if len(traces) >= 5000:
            flush(traces, cases)
            traces, cases = [], []
    ctx.extra["tlc_sequences_emitted"] = len(seqs)
    ctx.extra["tlc_sequences_replayed"] = nrep
    ctx.sample({"tlc_sequence": list(seqs.values())[len(seqs) // 2]})
    ctx.exhaustive = keep >= 1.0
    for _ in range(200 if quick else 5000):
        ops = [ctx.rng.choice(ALL_OPS) for _k in range(ctx.rng.randint(4, 12))]
        traces.append(run_ops(ops))
        cases.append({"ops": ops})
        ctx.count()
        ctx.nontriv(json.dumps(ops))
        if len(traces) >= 5000:
            flush(traces, cases)
            traces, cases = [], []
    ctx.sample({"random_ops": cases[-1]["ops"]})
    # the variadic routes with two elements in one call (every pair of one kind, through add_*s and through set_*s)
    for kind, pool in (("addopt", OPTS), ("addcopt", COPTS), ("addarg", ARGS), ("addname", ("n1", "n2"))):
        for e1 in pool:
            for e2 in pool:
                for setter in (False, True):
                    traces.append(run_bulk(kind, e1, e2, setter))
                    cases.append({"ops": [{"op": kind, "el": e1}, {"op": kind, "el": e2}], "bulk": True, "setter": setter})
                    ctx.count()
    flush(traces, cases)


def replay(ctx, path):
    c = json.load(open(path))["case"]
    ctx.count()
    ctx.nontriv(1)
    ctx.nontriv(2)
    ctx.sample(c)
    tr = run_bulk(c["ops"][0]["op"], c["ops"][0]["el"], c["ops"][1]["el"], c.get("setter", False)) if c.get("bulk") else run_ops(c["ops"])
    ctx.validate(SPEC, "FormatBuilderTrace", "FormatBuilderTrace.cfg", [tr], cases=[c], name="replay")
