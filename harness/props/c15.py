"""C15  SectionOutput.  Drives real section outputs along TLC behaviours and seeded random sequences, records per
call the bytes that reached the shared stream as terminal ops (tokenised, not interpreted) and lets TLC decide
(SectionsTrace) whether the screen equals the stacked contents.  No verdict logic here."""
import json
import os

from harness.engine import termbytes
from harness.engine import tlc as T

SPEC = os.path.join(T.SPECS, "Sections")
TAGS = ["info", "comment", "error", "b", "c1"]
ACTIONS = ["HCreate", "HWrite1", "HWrite2", "HOverwrite", "HClear", "HClearN"]
GATE_ACTIONS = ["HCreate", "HWrite1", "HOverwrite", "HClear", "HClearN", "HWriteF", "HQuiet", "HVerb", "HIndent"]
ALPHA = "abcdefghijklmnopqrstuvwxyzABCDEFGHIJKLMNOPQRSTUVWXYZ0123456789"
ALPHA_R = ALPHA + u"\u00e9\u00df\u00f1\u0416"  # recorded runs also use non-ASCII letters (one cell each)


class _AnsiStream(object):
    """BufferedOutputStream that claims ANSI support (built lazily: clikit is imported inside functions)"""

    _cls = None

    @classmethod
    def make(cls):
        if cls._cls is None:
            from clikit.io.output_stream import BufferedOutputStream

            class AnsiBuffered(BufferedOutputStream):
                def supports_ansi(self):
                    return True

            cls._cls = AnsiBuffered
        return cls._cls()


class _FileStream(object):
    """StreamOutputStream over a block-buffered file: what the sections deliver is read back from the file itself
    after every operation - the screen is what the terminal has received, not what sits in a buffer"""

    _cls = None

    @classmethod
    def make(cls):
        if cls._cls is None:
            import tempfile

            from clikit.io.output_stream import StreamOutputStream

            class Delivered(StreamOutputStream):
                def __init__(self):
                    os.makedirs(T.WORK, exist_ok=True)
                    self._file = tempfile.NamedTemporaryFile(mode="w", buffering=8192, encoding="utf-8", dir=T.WORK,
                                                             prefix="c15_tty_", newline="")
                    super(Delivered, self).__init__(self._file)

                def fetch(self):
                    with open(self._file.name, encoding="utf-8", newline="") as f:
                        return f.read()

            cls._cls = Delivered
        return cls._cls()


def build(ansi, how, via):
    """-> (stream, factory, parent output or None) where factory() creates the next section on the shared output.
    Whether a section decorates is decided by Output.supports_ansi() - stream AND formatter - so both kinds of output
    are realised on both kinds of stream.  how (ANSI): forced = non-ANSI stream + forced AnsiFormatter | stream = ANSI
    stream + AnsiFormatter; how (plain): plainfmt = non-ANSI stream + PlainFormatter | ansifmt = non-ANSI stream +
    unforced AnsiFormatter | ttyplain = ANSI stream + PlainFormatter.  via: output | direct | io"""
    from clikit.api.io import Input, IO, Output
    from clikit.api.io.section_output import SectionOutput
    from clikit.formatter import AnsiFormatter, PlainFormatter
    from clikit.io.input_stream import StringInputStream
    from clikit.io.output_stream import BufferedOutputStream

    if how in ("file", "plainfile"):  # a real (buffered) file behind StreamOutputStream, read back per operation
        stream = _FileStream.make()
        fmt = AnsiFormatter(forced=True) if ansi else PlainFormatter()
    elif ansi:
        stream = _AnsiStream.make() if how == "stream" else BufferedOutputStream()
        fmt = AnsiFormatter() if how == "stream" else AnsiFormatter(forced=True)
    elif how == "ttyplain":  # the stream claims ANSI support (a tty) but the formatter disables it (--no-ansi)
        stream = _AnsiStream.make()
        fmt = PlainFormatter()
    else:
        stream = BufferedOutputStream()
        fmt = AnsiFormatter() if how == "ansifmt" else PlainFormatter()
    if via == "direct":
        shared = []
        return stream, (lambda: SectionOutput(stream, shared, fmt)), None
    out = Output(stream, fmt)
    if via == "io":
        io = IO(Input(StringInputStream("")), out, Output(BufferedOutputStream(), fmt))

        def make():
            sio = io.section()
            return sio.output, sio

        return stream, make, out
    return stream, out.section, out


def run_case(case):
    """performs the calls of a case on real section outputs -> trace (list of events for SectionsTrace).
    A case with a "pair" key runs two cases interleaved (two outputs alive at the same time) and returns the trace of
    case["which"]."""
    base = case["pair"][0] if "pair" in case else case
    old = os.environ.get("COLUMNS")
    os.environ["COLUMNS"] = str(base["w"])
    try:
        if "pair" in case:
            return run_pair(case)[case["which"]]
        r = Runner(case)
        for op in case["ops"]:
            r.step(op)
        return r.trace
    finally:
        if old is None:
            os.environ.pop("COLUMNS", None)
        else:
            os.environ["COLUMNS"] = old


def _event(op, s=0, lines=(), n=0, w=0, ansi=False):
    return {"op": op, "s": s, "lines": [list(x) for x in lines], "n": n, "w": w, "ansi": ansi, "exc": "", "ops": [],
            "rows": [], "cnt": []}


class _Dead(object):
    def fetch(self):
        return ""


class Runner(object):
    """one output with its sections; step() performs one call and appends the event with its observations"""

    def __init__(self, case, built=None):
        self.case = case
        ansi = case["ansi"]
        ev = _event("init", lines=case["pre"], w=case["w"], ansi=ansi)
        self.secs = []  # (section output, section IO or None)
        self.nops = 0
        try:
            if isinstance(built, Exception):
                raise built
            self.stream, self.factory, parent = built or build(
                ansi, case.get("how", "forced" if ansi else "plainfmt"), case.get("via", "output"))
            for p in case["pre"]:  # what is on the terminal before the first section is created
                if parent is not None and case.get("pre_by") == "output":
                    parent.write_line(p)  # printed through the output the sections belong to
                else:
                    self.stream.write(p + "\n")  # put there by the harness itself
        except Exception as e:  # noqa: also a failing constructor is an observation
            ev["exc"] = type(e).__name__
            self.stream = getattr(self, "stream", None) or _Dead()
        ev["ops"] = termbytes.ops(self.stream.fetch())
        self.trace = [ev]

    def step(self, op):
        if self.trace[0]["exc"]:
            return
        k = op["op"]
        ev = _event(k, op.get("s", 0), op.get("lines", ()), op.get("n", 0))
        mark = len(self.stream.fetch())
        self.nops += 1
        kw = self.nops % 2 == 0  # equivalent spellings of a call alternate: keyword / positional arguments
        try:
            if k == "create":
                made = self.factory()
                self.secs.append(made if isinstance(made, tuple) else (made, None))
                ev["s"] = len(self.secs)
            else:
                sec, sio = self.secs[op["s"] - 1]
                top = sio if sio is not None else sec  # the section IO offers the same calls one level up
                msg = "\n".join(op.get("markup") or op.get("lines", ()))
                n = op.get("n", 0)
                if k == "write":  # n: message-level flag (0 = none, passed as None or as 0)
                    if kw:
                        top.write_line(msg, flags=n)
                    else:
                        top.write_line(msg, n or None)
                elif k == "quiet":
                    top.set_quiet(bool(n))
                elif k == "verb":
                    top.set_verbosity(n)
                elif k == "indent":
                    top.indent(n)
                elif k == "overwrite":
                    sec.overwrite(msg)
                elif k == "clear":
                    sec.clear()
                elif k == "clearn":
                    if kw:
                        sec.clear(lines=n)
                    else:
                        sec.clear(n)
                else:
                    raise T.MachineryError("unknown op %r" % (k,))
        except T.MachineryError:
            raise
        except Exception as e:  # noqa: every exception kind is an observation
            ev["exc"] = type(e).__name__
        ev["ops"] = termbytes.ops(self.stream.fetch()[mark:])
        try:
            ev["rows"] = [int(x.lines) for x, _ in self.secs]
            ev["cnt"] = [x.content.count("\n") for x, _ in self.secs]
        except Exception as e:  # noqa
            ev["rows"], ev["cnt"] = [-1], [-1]
        self.trace.append(ev)


def run_pair(case):
    """two outputs alive at the same time, their calls interleaved as case["order"] says (0 / 1 = whose next call).
    shared = True: the two outputs of ONE IO (standard and error output), each with its own sections."""
    ca, cb = case["pair"]
    built = [None, None]
    if case.get("shared"):
        from clikit.api.io import Input, IO, Output
        from clikit.io.input_stream import StringInputStream

        try:
            sa, _, oa = build(ca["ansi"], ca.get("how", "forced" if ca["ansi"] else "plainfmt"), "output")
            sb, _, ob = build(cb["ansi"], cb.get("how", "forced" if cb["ansi"] else "plainfmt"), "output")
            io = IO(Input(StringInputStream("")), oa, ob)
            built = [(sa, io.output.section, oa), (sb, io.error_output.section, ob)]
        except Exception as e:  # noqa: observed by both traces
            built = [e, e]
    rs = [Runner(ca, built[0]), Runner(cb, built[1])]
    pos = [0, 0]
    for who in case["order"]:
        c = (ca, cb)[who]
        if pos[who] < len(c["ops"]):
            rs[who].step(c["ops"][pos[who]])
            pos[who] += 1
    for who, c in enumerate((ca, cb)):
        for op in c["ops"][pos[who]:]:
            rs[who].step(op)
    return [rs[0].trace, rs[1].trace]


def check_known(trace, ansi):
    """ANSI mode: a code the Terminal model cannot interpret is never turned into a verdict"""
    if ansi:
        for ev in trace:
            bad = termbytes.unknown(ev["ops"])
            if bad:
                raise T.MachineryError("the stream contains terminal codes the Terminal model does not know: %s" % bad[:5])


def case_of_behaviour(b):
    ops = []
    for e in b["events"]:
        ops.append({"op": e["op"], "s": e["s"], "lines": ["".join(x) for x in e["lines"]], "n": e["n"]})
    return {"w": b["w"], "ansi": b["ansi"], "pre": ["".join(x) for x in b["pre"]], "ops": ops}


def same(b, trace):
    """the code emitted exactly the ops of the TLC behaviour (on which TLC has checked the invariants)"""
    if len(trace) != len(b["events"]) + 1:
        return False
    for e, o in zip(b["events"], trace[1:]):
        if o["exc"] or o["ops"] != [dict(k=x["k"], n=x["n"], s=list(x["s"])) for x in e["ops"]]:
            return False
        if b["ansi"] and (o["rows"] != list(e["rows"]) or o["cnt"] != list(e["cnt"])):
            return False
    return True


def nontrivial(case):
    """some call has to re-print a newer section's content, or handles a line wider than the terminal"""
    w = case["w"]
    filled = set()
    hit = False
    for op in case["ops"]:
        s = op.get("s", 0)
        if op["op"] in ("write", "overwrite"):
            if any(len(x) > w for x in op["lines"]) or any(f > s for f in filled):
                hit = True
            filled.add(s)
        elif op["op"] in ("clear", "clearn") and any(f > s for f in filled):
            hit = True
    return hit


# ------------------------------------------------------------------------------------------------ random cases
def _line(rng, w, k):
    n = rng.choice([0, 1, w - 1, w, w + 1, 2 * w - 1, 2 * w, 2 * w + 1, rng.randint(0, 3 * w), rng.randint(1, w)])
    off = rng.randrange(len(ALPHA_R))
    s = "".join(ALPHA_R[(off + 7 * k + j) % len(ALPHA_R)] for j in range(n))
    if n > 3 and rng.random() < 0.25:  # an interior space
        j = rng.randint(1, n - 2)
        s = s[:j] + " " + s[j + 1:]
    return s


def _markup(rng, s):
    if len(s) < 2:
        return s
    a = rng.randint(0, len(s) - 1)
    b = rng.randint(a + 1, len(s))
    t = rng.choice(TAGS)
    return "%s<%s>%s</%s>%s" % (s[:a], t, s[a:b], t, s[b:])


def may_write(gate, flag):
    """mirror of the documented gate, used only to keep generated clear(n) inside its domain"""
    return not gate["quiet"] and (flag == 0 or gate["verb"] >= flag)


def random_case(rng, maxlen=40):
    w = rng.choice([4, 4, 7, 7, 20])
    ansi = rng.random() < 0.8
    case = {"w": w, "ansi": ansi, "how": rng.choice(["forced", "forced", "stream", "file"] if ansi else ["plainfmt", "ansifmt", "ttyplain", "ttyplain", "plainfile"]),
            "via": rng.choice(["output", "output", "direct", "io"]), "pre_by": rng.choice(["stream", "output"]),
            "pre": [rng.choice(["##", "#" * w, "#" * (w + 1)]) for _ in range(rng.choice([0, 1, 1, 2]))], "ops": []}
    gated = rng.random() < 0.5  # half of the cases use message-level flags / per-section quiet and verbosity
    nsec_max = rng.randint(1, 4)
    counts = []  # lines held by every section (what the calls ask for)
    gates = []
    nl = 0
    for _ in range(rng.randint(3, maxlen)):
        x = rng.random()
        if not counts or (x < 0.12 and len(counts) < nsec_max):
            case["ops"].append({"op": "create", "s": len(counts) + 1})
            counts.append(0)
            gates.append({"quiet": False, "verb": 0})
            continue
        s = rng.randint(1, len(counts))
        g = gates[s - 1]
        if gated and x > 0.9:
            y = rng.random()
            if y < 0.3:
                case["ops"].append({"op": "indent", "s": s, "n": rng.choice([0, 1, 2, 3])})
            elif y < 0.65:
                g["quiet"] = not g["quiet"]
                case["ops"].append({"op": "quiet", "s": s, "n": int(g["quiet"])})
            else:
                g["verb"] = rng.choice([0, 1, 2, 4])
                case["ops"].append({"op": "verb", "s": s, "n": g["verb"]})
            continue
        if x < 0.55:
            lines = [_line(rng, w, nl + j) for j in range(rng.choice([1, 1, 1, 2, 2, 3]))]
            nl += len(lines)
            flag = rng.choice([0, 0, 1, 1, 2, 4]) if gated else 0
            op = {"op": "write", "s": s, "lines": lines, "n": flag}
            if ansi and may_write(g, flag):
                counts[s - 1] += len(lines)
        elif x < 0.7:
            lines = [_line(rng, w, nl + j) for j in range(rng.choice([1, 1, 2]))]
            nl += len(lines)
            op = {"op": "overwrite", "s": s, "lines": lines}
            if ansi and not g["quiet"]:  # clear / overwrite on a quiet section change nothing
                counts[s - 1] = len(lines)
        elif x < 0.8 or (ansi and counts[s - 1] == 0):
            op = {"op": "clear", "s": s}
            if not (ansi and g["quiet"]):
                counts[s - 1] = 0
        else:
            n = rng.randint(1, counts[s - 1]) if ansi else rng.randint(1, 3)
            if ansi and rng.random() < 0.25:  # more than the section holds (up to twice as many and beyond): a full clear
                n = counts[s - 1] + rng.randint(1, counts[s - 1] + 2)
            op = {"op": "clearn", "s": s, "n": n}
            if ansi and not g["quiet"]:
                counts[s - 1] = max(0, counts[s - 1] - n)
        if "lines" in op and rng.random() < 0.2:
            op["markup"] = [_markup(rng, x) for x in op["lines"]]
        case["ops"].append(op)
    return case


def random_pair(rng):
    ca = random_case(rng, 25)
    cb = random_case(rng, 25)
    cb["w"] = ca["w"]
    shared = rng.random() < 0.5
    if shared:  # the standard and the error output of one IO; sections come from output.section()
        ca["via"] = cb["via"] = "output"
    cb["pre"] = [p[:ca["w"] + 1] for p in cb["pre"]]
    n = len(ca["ops"]) + len(cb["ops"])
    return {"pair": [ca, cb], "shared": shared, "order": [rng.randint(0, 1) for _ in range(n)]}


def run_pair_env(pc):
    old = os.environ.get("COLUMNS")
    os.environ["COLUMNS"] = str(pc["pair"][0]["w"])
    try:
        return run_pair(pc)
    finally:
        if old is None:
            os.environ.pop("COLUMNS", None)
        else:
            os.environ["COLUMNS"] = old


# ------------------------------------------------------------------------------------------------ the check
def run(ctx):
    quick = ctx.tier == "quick"
    ctx.rule = (
        "TLC checks ScreenMatches / PlainAppend / NoControl on every reachable state of the Sections model (A-layer of "
        "SectionOutput on the cell-level Terminal model; all sequences of create / write_line(1-2 lines) / overwrite / "
        "clear() / clear(n) up to the depth bound over 1-3 sections, line lengths below, at and above the width); the "
        "operation sequence TLC found for every reachable (state, last operation) at the depth bound and random longer "
        "ones (-simulate), plus a model with flagged writes and per-section set_quiet / set_verbosity, are replayed on real SectionOutputs and the emitted terminal ops compared per call; seeded "
        "random sequences (<= 40 calls, widths 4/7/20, <= 4 sections, styled text, three ways of obtaining sections, "
        "ANSI and plain outputs) are validated by SectionsTrace.  Non-trivial: a call must re-print a newer section's "
        "content or handles a line wider than the terminal"
    )
    ctx.assumptions += [
        "terminal of unbounded height (no scrolling); the newline is a cooked-tty newline (column 0 of the next row); "
        "deferred wrap at the last column (VT100/xterm)",
        "every character is one cell wide (no tabs, no East-Asian wide characters); the terminal width does not change",
        "only the section outputs write to the stream once the first section exists",
        "clear(n) is checked for every n >= 1; more than the lines held is a full clear (clear(0) is a full clear by Python truthiness and not exercised)",
        "a write the section's own quiet flag / verbosity suppresses changes neither screen nor content; clear and "
        "overwrite are not issued on a section while it is quiet",
    ]
    cfgs = {
        "quick": [("MC_Sections_quick.cfg", "state-space W=4 depth 6"), ("MC_Sections_plain.cfg", "plain mode")],
        "thorough": [("MC_Sections_thorough.cfg", "state-space W=4 depth 7"), ("MC_Sections_w7.cfg", "state-space W=7 depth 6"),
                     ("MC_Sections_deep2.cfg", "state-space W=4 depth 8, 2 sections"), ("MC_Sections_plain.cfg", "plain mode")],
    }[ctx.tier]
    for cfg, name in cfgs:
        ctx.model(SPEC, "MC_Sections", cfg, name=name, workers=8)
    ctx.exhaustive = True

    # spec -> code
    traces, cases = [], []
    seen = set()
    vias = ["output", "direct", "io"]
    mid = []

    def replay_emitted(r):
        for line in r.lines:
            b = T.parse_emit(line)
            if b is None:
                continue
            key = hash(line)
            if key in seen:
                continue
            seen.add(key)
            case = case_of_behaviour(b)
            case["via"] = vias[len(seen) % 3]
            hows = ("forced", "stream") if case["ansi"] else ("plainfmt", "ttyplain", "ansifmt")
            case["how"] = hows[(len(seen) // 3) % len(hows)]
            if len(seen) % 10 == 0:  # every tenth behaviour is delivered through StreamOutputStream into a real file
                case["how"] = "file" if case["ansi"] else "plainfile"
            tr = run_case(case)
            check_known(tr, case["ansi"])
            ctx.count()
            if nontrivial(case):
                ctx.nontriv(key)
            if not same(b, tr):
                traces.append(tr)
                cases.append(case)
            if len(seen) % 5000 == 1:
                mid[:] = [case]
        r.lines = []

    emit_cfgs = (["MC_Sections_emit_quick.cfg", "MC_Sections_gates.cfg"] if quick else
                 ["MC_Sections_emit_thorough.cfg", "MC_Sections_emit_thorough2.cfg", "MC_Sections_gates_thorough.cfg"])
    for cfg in emit_cfgs:
        r = ctx.model(SPEC, "MC_Sections", cfg, name="behaviours (state cover) " + cfg, workers=8, coverage=True)
        want = GATE_ACTIONS if "gates" in cfg else ACTIONS
        idle = [a for a in want if r.coverage.get(a, (0, 0))[1] == 0]
        if idle:
            raise T.MachineryError("actions never taken in the model run: %s" % idle)
        replay_emitted(r)
    ncover = len(seen)
    r = ctx.model(SPEC, "MC_Sections", "MC_Sections_sim.cfg", name="simulate", simulate="num=%d" % (150 if quick else 1500),
                  depth=14, workers=1, seed=ctx.seed % 100000)
    replay_emitted(r)
    if ncover < 1000 or len(seen) <= ncover:
        raise T.MachineryError("too few behaviours emitted (%d, %d)" % (ncover, len(seen)))
    ctx.extra["tlc_behaviours_replayed"] = len(seen)
    ctx.extra["tlc_behaviours_not_reproduced"] = len(traces)
    ctx.sample({"tlc_behaviour": mid[0]})

    # code -> spec
    for t in range(600 if quick else 6000):
        case = random_case(ctx.rng)
        tr = run_case(case)
        check_known(tr, case["ansi"])
        traces.append(tr)
        cases.append(case)
        ctx.count()
        if nontrivial(case):
            ctx.nontriv(("r", t))
    ctx.sample({"random_case": {k: (v[:10] if k == "ops" else v) for k, v in cases[-1].items()}})
    for t in range(100 if quick else 1000):  # two outputs alive at the same time, calls interleaved
        pc = random_pair(ctx.rng)
        trs = run_pair_env(pc)
        for which in (0, 1):
            check_known(trs[which], pc["pair"][which]["ansi"])
            traces.append(trs[which])
            cases.append(dict(pc, which=which))
            ctx.count()
            ctx.nontriv(("p", t, which))
    ctx.validate(SPEC, "SectionsTrace", "SectionsTrace.cfg", traces, cases=cases, name="recorded-sequences")


def replay(ctx, path):
    d = json.load(open(path))
    c = d["case"]
    ctx.count()
    ctx.nontriv(1)
    ctx.nontriv(2)
    ctx.sample(c)
    tr = run_case(c)
    check_known(tr, c["ansi"])
    ctx.validate(SPEC, "SectionsTrace", "SectionsTrace.cfg", [tr], cases=[c], name="replay")
