"""C09  Switches: global switches of DefaultApplicationConfig through ConsoleApplication.run.

No verdict logic here.  The driver builds the fixed application of specs/Switches (pkg, srv [add | list*], top),
runs a command line (units -> tokens) through ConsoleApplication.run on buffered streams, projects what happened
(status, handler calls, tag ids per stream, ESC presence, what the IO told the handler, page id, question) and
  * compares it for equality with the run TLC emitted for the same line                       [spec -> code]
  * ships recorded runs of seeded random lines (also with switches before / inside the command path, up to all
    seven families at once) to SwitchesTrace, where TLC evaluates the P-clauses                [code -> spec]
"""
import json
import os
import re

from harness.engine import tlc as T

SPEC = os.path.join(T.SPECS, "Switches")
SWITCHES = ["-q", "--quiet", "-v", "-vv", "-vvv", "--ansi", "--no-ansi", "-n", "--no-interaction", "-h", "--help", "-V", "--version"]
HUB_SUBS = ["n", "q", "h", "v", "V", "quiet", "ansi", "no-ansi", "help", "version", "verbose", "no-interaction"]
CMD_IDS = ["pkg", "srv", "srv add", "srv list", "top", "grp", "grp one", "lazy", "hub", "help"] + ["hub " + x for x in HUB_SUBS]
TAG = re.compile(r"\[T(\d)\]")
INPUT = "n\nbob\na\n"  # what the user types; the input ends after it (no question can wait for more)
_ENV = {}


class Rec(object):
    """what the handler saw during the current run"""

    def __init__(self):
        self.beh = "ok"
        self.reset()

    def reset(self):
        self.calls = []
        self.built = 0  # how often the handler factory of `lazy` ran
        self.seen = {"ran": False, "quiet": False, "level": 0, "inter": True, "ansiOut": False, "ansiErr": False}
        self.answer = "none"
        self.answer2 = "none"
        self.args = []


REC = Rec()


def _env():
    if _ENV:
        return _ENV
    from clikit import ConsoleApplication
    from clikit.api.args.format import Argument, Option
    from clikit.api.io import flags
    from clikit.args import ArgvArgs, StringArgs
    from clikit.config import DefaultApplicationConfig
    from clikit.io.input_stream import StringInputStream
    from clikit.io.output_stream import BufferedOutputStream
    import clikit.ui.components.question as qmod
    from clikit.ui.components import ChoiceQuestion, ConfirmationQuestion, NameVersion, Question

    class NoStty(object):
        """stands in for `subprocess` inside question.py: no stty is started, the line-reading path is taken"""

        def call(self, *a, **k):
            raise OSError("stty is not reachable")

        check_output = call

    if hasattr(qmod, "subprocess"):
        qmod.subprocess = NoStty()
    from clikit.ui.help import ApplicationHelp, CommandHelp

    LEVELS = [flags.NORMAL, flags.VERBOSE, flags.VERY_VERBOSE, flags.DEBUG]

    class AnsiBuf(BufferedOutputStream):
        """a recording stream that says it supports ANSI (a buffered stream does not)"""

        def supports_ansi(self):
            return True

    class Handler(object):
        def __init__(self, cid):
            self.cid = cid

        def handle(self, args, io, command):
            REC.calls.append(self.cid)
            # one tagged line per verbosity level on each stream, each through another of the eight write routes
            # (the level-1 line is styled: decoration is judged on it; raw routes carry plain text)
            io.write_line("<info>[T1]</info>", LEVELS[0])
            io.write("<info>[T2]</info>\n", LEVELS[1])
            io.write_raw("[T3]\n", LEVELS[2])
            io.write_line_raw("[T4]", LEVELS[3])
            io.error_line("<info>[T1]</info>", LEVELS[0])
            io.error_raw("[T2]\n", LEVELS[1])
            io.error_line_raw("[T3]", LEVELS[2])
            io.error("<info>[T4]</info>\n", LEVELS[3])
            REC.seen = {"ran": True, "quiet": bool(io.is_quiet()),
                        "level": int(bool(io.is_verbose())) + int(bool(io.is_very_verbose())) + int(bool(io.is_debug())),
                        "inter": bool(io.is_interactive()),
                        "ansiOut": bool(io.output.supports_ansi()), "ansiErr": bool(io.error_output.supports_ansi())}
            # what a component does (progress indicator, section): control sequences only where the output says it takes them
            if io.output.supports_ansi():
                io.write_raw("\x1b[2K")
            if io.error_output.supports_ansi():
                io.error_raw("\x1b[2K")
            ans = ConfirmationQuestion("Sure?", True).ask(io)
            REC.answer = "default" if ans is True else ("typed" if ans is False else "other")
            # two questions WITHOUT a default: not interactive -> None, nothing read, nothing asked
            name = Question("Name?").ask(io)
            pick = ChoiceQuestion("Pick", ["a", "b"])
            pick.set_max_attempts(1)
            pick = pick.ask(io)
            REC.answer2 = "default" if (name, pick) == (None, None) else ("typed" if (name, pick) == ("bob", "a") else "other")
            vals = []
            for name in command.args_format.get_arguments():
                v = args.argument(name)
                if isinstance(v, (list, tuple)):
                    vals += [str(x) for x in v]
                elif v is not None:
                    vals.append(str(v))
            REC.args = vals
            if REC.beh == "meddle":  # the handler plays with the I/O of its own run
                io.set_quiet(not io.is_quiet())
                io.set_verbosity(LEVELS[3])
            if REC.beh == "raise":
                raise RuntimeError("boom")
            return 3 if REC.beh == "code" else 0

    def make_app():
        c = DefaultApplicationConfig("app", "1.0")
        c.set_catch_exceptions(True)
        c.set_terminate_after_run(False)
        multi = Argument.OPTIONAL | Argument.MULTI_VALUED
        with c.command("pkg") as k:
            k.set_description("Handles a package")
            k.add_argument("name", Argument.REQUIRED, "The package name")
            k.add_argument("rest", multi, "More values")
            k.add_option("opt", "o", Option.REQUIRED_VALUE, "An option with a value")
            k.add_option("flag", "f", Option.NO_VALUE, "A flag")
            k.set_handler(Handler("pkg"))
        with c.command("srv") as k:
            k.set_description("Manages servers")
            k.set_handler(Handler("srv"))
            with k.sub_command("add") as s:
                s.set_description("Adds a server")
                s.add_argument("host", Argument.REQUIRED, "The host")
                s.add_argument("rest", multi, "More values")
                s.set_handler(Handler("srv add"))
            with k.sub_command("list") as s:
                s.default()
                s.set_description("Lists the servers")
                s.add_argument("rest", multi, "More values")
                s.add_option("all", "a", Option.NO_VALUE, "All of them")
                s.set_handler(Handler("srv list"))
        with c.command("top") as k:
            k.set_description("Shows the top")
            k.add_argument("rest", multi, "More values")
            k.set_handler(Handler("top"))
        with c.command("grp") as k:  # a container: no handler of its own
            k.set_description("Groups commands")
            with k.sub_command("one") as s:
                s.set_description("The one command of the group")
                s.add_argument("rest", multi, "More values")
                s.set_handler(Handler("grp one"))
        with c.command("hub") as k:  # sub-commands called like the switches' long and short names
            k.set_description("Has sub-commands named like the switches")
            k.add_argument("rest", multi, "More values")
            k.set_handler(Handler("hub"))
            for x in HUB_SUBS:
                with k.sub_command(x) as s:
                    s.set_description("Sub-command " + x)
                    s.set_handler(Handler("hub " + x))
        with c.command("lazy") as k:  # the handler is built on demand
            k.set_description("Builds its handler late")
            k.add_argument("rest", multi, "More values")

            def factory():
                REC.built += 1
                return Handler("lazy")

            k.set_handler(factory)
        return ConsoleApplication(c)

    def command(app, cid):
        parts = cid.split(" ")
        cmd = app.get_command(parts[0])
        for p in parts[1:]:
            cmd = cmd.get_sub_command(p)
        return cmd

    _ENV.update(make_app=make_app, command=command, ArgvArgs=ArgvArgs, StringArgs=StringArgs, AnsiBuf=AnsiBuf,
                Buf=BufferedOutputStream, In=StringInputStream, CommandHelp=CommandHelp, ApplicationHelp=ApplicationHelp,
                NameVersion=NameVersion)
    return _ENV


# ---------------------------------------------------------------------------------- one run
_TEXTS = {}  # interned stream texts (ids are only compared for equality inside one event)
_PAGES = {}


def intern(s):
    return _TEXTS.setdefault(s, len(_TEXTS) + 1)


def tokens_of(units):
    return [t for u in units for t in u["t"]]


def streams_for(kind):
    E = _env()
    return (E["AnsiBuf"]() if kind in ("both", "out") else E["Buf"](), E["AnsiBuf"]() if kind in ("both", "err") else E["Buf"]())


def raw_args(tokens, form):
    E = _env()
    if form == "string":  # an empty token has to be written with quotes
        # the same tokens in different spellings of the line: blanks, two blanks or a tab between them, '--' bare or quoted
        sep = (" ", "  ", "\t")[len(tokens) % 3]
        quoted = sum(len(t) for t in tokens) % 2 == 1
        return E["StringArgs"](sep.join('"--"' if t == "--" and quoted else t if t else "''" for t in tokens))
    return E["ArgvArgs"](["app"] + list(tokens))


class AppBox(object):
    """ONE application object serving several runs; history = what was run on it so far (for the replay file)"""

    def __init__(self):
        self.history = []
        self.failed = ""
        try:
            self.app = _env()["make_app"]()
        except KeyboardInterrupt:
            raise
        except BaseException as e:  # noqa: building the application is a step like any other
            self.app, self.failed = None, type(e).__name__


def pages_for(app, tokens, kind, form):
    """the pages rendered directly by CommandHelp / ApplicationHelp / NameVersion on an I/O that the application's own
    factory configures for the same arguments and the same kind of streams (made audible if the line says quiet)"""
    E = _env()
    args = raw_args(tokens, form)
    key = (bool(args.has_option_token("--ansi")), bool(args.has_option_token("--no-ansi")), kind)
    if key in _PAGES:
        return _PAGES[key]
    table = {}

    def render(pid, what):
        out, err = streams_for(kind)
        io = app.config.create_io(app, raw_args(tokens, form), E["In"](""), out, err)
        io.set_quiet(False)
        what(io)
        table.setdefault(out.fetch(), pid)

    for cid in CMD_IDS:
        render("cmd:" + cid, lambda io, cid=cid: E["CommandHelp"](E["command"](app, cid)).render(io))
    render("app", lambda io: E["ApplicationHelp"](app).render(io))
    render("version", lambda io: E["NameVersion"](app.config).render(io))
    if len(table) != len(CMD_IDS) + 2 or "" in table:
        raise T.MachineryError("reference pages are not distinct")
    _PAGES[key] = table
    return table


def esc_of(text):
    return 0 if not text else (2 if "\x1b" in text else 1)


def observe(units, beh, kind, form="string", box=None):
    E = _env()
    tokens = tokens_of(units)
    box = box or AppBox()
    box.history.append({"units": units, "beh": beh, "streams": kind, "form": form})
    REC.reset()
    REC.beh = beh
    out, err = streams_for(kind)
    inp = E["In"](INPUT)
    exc, same_args = box.failed, True
    status = -1
    if box.app is not None:
        try:
            args = raw_args(tokens, form)
            before = (list(args.tokens), list(args.option_tokens))
            status = box.app.run(args, inp, out, err)
            same_args = (list(args.tokens), list(args.option_tokens)) == before
        except KeyboardInterrupt:
            raise
        except BaseException as e:  # noqa: every exception kind is an observation
            status, exc = -1, type(e).__name__
    so, se = out.fetch(), err.fetch()
    left = inp.read(1000)
    left = left.decode() if isinstance(left, bytes) else left
    if REC.calls:
        page = "n/a"
    elif not so:
        page = "none"
    else:
        try:
            page = pages_for(box.app, tokens, kind, form).get(so, "other")
        except T.MachineryError:
            raise
        except Exception:  # noqa: the reference pages cannot be rendered on this library: no page can be recognised
            page = "other"
    return {
        "status": status if isinstance(status, int) and not isinstance(status, bool) else -2, "exc": exc,
        "calls": list(REC.calls),
        "outTags": sorted({int(x) for x in TAG.findall(so)}), "errTags": sorted({int(x) for x in TAG.findall(se)}),
        "outEsc": esc_of(so), "errEsc": esc_of(se), "io": dict(REC.seen), "page": page, "answer": REC.answer,
        "answer2": REC.answer2,
        "consumed": INPUT.count("\n") - left.count("\n") if INPUT.endswith(left) else -1, "args": list(REC.args), "built": REC.built,
        "argsSame": bool(same_args), "outId": intern(so), "errId": intern(se),
    }


def is_swlit(u):
    return u["k"] == "lit" and u["t"][0] in SWITCHES


def event(units, beh, kind, form="string", box=None):
    box = box or AppBox()
    obs = observe(units, beh, kind, form, box)
    has = any(is_swlit(u) for u in units)
    base = observe([u for u in units if not is_swlit(u)], beh, kind, form, box) if has else obs
    return {"units": units, "beh": beh, "streams": kind, "obs": obs, "hasBase": has, "base": base}


def same(exp, o):
    return all(exp[k] == o[k] for k in exp)


# ---------------------------------------------------------------------------------- spec -> code
class Replayer(object):
    WINDOW = 8  # so many TLC runs share one application object (the model keeps nothing between runs)

    def __init__(self, ctx):
        self.ctx = ctx
        self.n = 0
        self.nmism = 0
        self.mism = []
        self.sampled = []
        self.cats = {}
        self.first = None
        self.box = None

    def one(self, rec, box):
        units, beh, kind = rec["units"], rec["beh"], rec["streams"]
        form = "argv" if self.n % 2 else "string"
        hist = list(box.history)
        ev = event(units, beh, kind, form, box)
        self.n += 1
        self.ctx.count()
        toks = tokens_of(units)
        nsw = sum(1 for u in units if u["k"] == "sw")
        if nsw >= 1:
            self.ctx.nontriv((" ".join(toks), beh, kind))
        exp = rec["exp"]
        cat = "version" if exp["page"] == "version" else "help" if exp["page"] not in ("n/a", "none", "other") else \
              "silent" if exp["outEsc"] == 0 else "no-handler" if exp["page"] == "other" else "handler-" + beh
        self.cats[cat] = self.cats.get(cat, 0) + 1
        case = {"units": units, "beh": beh, "streams": kind, "form": form, "kind": "tlc-run", "history": hist}
        if not same(exp, ev["obs"]):
            self.nmism += 1
            if len(self.mism) < 4000:
                self.mism.append(([ev], case))
        elif self.n % 23 == 0 or (ev["hasBase"] and self.n % 5 == 0):
            if len(self.sampled) < 6000:
                self.sampled.append(([ev], case))
        if self.first is None and nsw >= 2:
            self.first = {"line": " ".join(toks), "handler": beh, "ansi_streams": kind, "model_run": exp}

    def __call__(self, line):
        rec = T.parse_emit(line)
        if rec is None:
            return False
        if rec["prev"]["has"]:  # two runs on one fresh application object
            box = AppBox()
            self.one(rec["prev"], box)
            self.one(rec, box)
            self.cats["second-run"] = self.cats.get("second-run", 0) + 1
            return True
        if self.box is None or len(self.box.history) >= self.WINDOW:
            self.box = AppBox()
        self.one(rec, self.box)
        return True


# ---------------------------------------------------------------------------------- code -> spec
def U(k, *t):
    return {"k": k, "t": list(t)}


def rand_base(rng):
    """a valid line: command path, then the command's own arguments / options, maybe '--' and more values"""
    cmd = rng.choice(["pkg", "pkg", "srv", "srv add", "srv list", "top", "", "grp", "grp one", "lazy", "hub", "hub"])
    units = [U("name", n) for n in cmd.split(" ") if n]
    body = []
    if cmd == "pkg":
        body.append(U("pos", rng.choice(["x", "lib", "0", ""])))
        if rng.random() < 0.5:
            body.append(U("own", *rng.choice([["--opt", "v"], ["--opt=v"], ["-o", "v"], ["-ov"]])))
        if rng.random() < 0.3:
            body.append(U("own", rng.choice(["--flag", "-f"])))
    elif cmd == "srv add":
        body.append(U("pos", rng.choice(["h1", "web"])))
    elif cmd in ("srv", "srv list"):
        if rng.random() < 0.4:
            body.append(U("own", rng.choice(["-a", "--all"])))
    if cmd and cmd != "grp" and rng.random() < 0.4:
        body += [U("pos", rng.choice(["y", "z", "w"])) for _ in range(rng.randint(1, 2))]
    # positional values keep their order (the first one of pkg / srv add is the required argument); options move freely
    pos = [u for u in body if u["k"] == "pos"]
    own = [u for u in body if u["k"] == "own"]
    for o in own:
        pos.insert(rng.randint(0, len(pos)), o)
    units += pos
    if cmd and rng.random() < 0.25:  # a global option that is not a switch; bare --verbose goes where no plain token follows
        g = rng.choice(["--verbose", "--verbose", "--verbose=2"])
        nn0 = sum(1 for u in units if u["k"] == "name")
        spots = [p for p in range(nn0, len(units) + 1) if g != "--verbose" or p == len(units) or units[p]["k"] not in ("pos", "name")]
        if spots:
            units.insert(rng.choice(spots), U("glob", g))
    if cmd and cmd != "grp" and rng.random() < 0.45:
        units.append(U("dd", "--"))
        for _ in range(rng.choice([0, 0, 1, 2])):
            units.append(U("lit", rng.choice(["y", "z", "k"])))
    return units


def bare_v_ok(units):
    """-v and --verbose take an optional value: they are not put directly before a plain token"""
    for i, u in enumerate(units[:-1]):
        if ((u["k"] == "sw" and u["t"] == ["-v"]) or (u["k"] == "glob" and u["t"] == ["--verbose"])) \
                and units[i + 1]["k"] in ("pos", "name"):
            return False
    return True


def rand_line(rng):
    units = rand_base(rng)
    nn = sum(1 for u in units if u["k"] == "name")
    k = rng.choice([0, 1, 1, 2, 2, 3, 4, 7])
    toks = rng.sample(SWITCHES, k) if rng.random() < 0.7 else [rng.choice(SWITCHES) for _ in range(k)]
    anywhere = rng.random() < 0.15  # also before / inside the command path
    for t in toks:
        for _try in range(6):
            dd = next((i for i, u in enumerate(units) if u["k"] == "dd"), len(units))
            p = rng.randint(0 if anywhere else nn, dd)
            cand = units[:p] + [U("sw", t)] + units[p:]
            if bare_v_ok(cand):
                units = cand
                break
    dd = next((i for i, u in enumerate(units) if u["k"] == "dd"), None)
    if dd is not None and rng.random() < 0.7:
        for _ in range(rng.randint(1, 3)):
            units.insert(rng.randint(dd + 1, len(units)), U("lit", rng.choice(SWITCHES)))
    return units


# ---------------------------------------------------------------------------------- check
Q = "quick"
MODEL_RUNS = {
    Q: [("MC_Switches_quick_pairs.cfg", "two-switches", 5000), ("MC_Switches_quick_combos.cfg", "one-switch-all-streams-ok-code", 5000),
        ("MC_Switches_quick_raise.cfg", "two-switches-raising-handler", 200),
        ("MC_Switches_two_runs.cfg", "two-runs-on-one-application", 1500)],
    "thorough": [("MC_Switches_quick_combos.cfg", "one-switch-all-streams-ok-code", 5000),
                 ("MC_Switches_two_runs.cfg", "two-runs-on-one-application", 1500),
                 ("MC_Switches_quick_pairs2.cfg", "two-switches-ansi-streams", 2000),
                 ("MC_Switches_thorough_pairs.cfg", "two-switches-all-bases", 50000),
                 ("MC_Switches_thorough_raise.cfg", "two-switches-raising-handler", 6000),
                 ("MC_Switches_thorough_triples.cfg", "three-switches", 60000)],
}


def run(ctx):
    quick = ctx.tier == Q
    _env()
    ctx.rule = (
        "TLC builds command lines by inserting global switch tokens at every gap after the command path (and look-alikes "
        "after '--') into valid base lines of a fixed application, runs the modelled pipeline, checks the P-clauses on the "
        "model's run (the '--' clause against a second run without the look-alikes) and emits every run; each is replayed "
        "through ConsoleApplication.run (StringArgs and ArgvArgs alternately, plain and ANSI-capable streams, handler ok / "
        "status 3 / raising) and compared; -simulate reaches lines with up to all seven families; seeded random lines (also "
        "with switches before or inside the path) are validated by SwitchesTrace.  Non-trivial: at least one switch"
    )
    ctx.assumptions += [
        "placements keep the line a valid spelling: the complete command path comes first (the resolver reads command names "
        "only up to the first option), no switch between an option and its separate value, bare -v not directly before a value",
        "for switches before or inside the path only the quiet, verbosity, ANSI, interaction and '--' clauses are claimed "
        "(another command may run)",
        "help: the page of the command named by the path or of the default sub-command that runs for it; without a path the "
        "application page or the page of the built-in default command; with quiet nothing; help and version together: either text",
        "--ansi together with --no-ansi, and --verbose[=n], are not claimed",
        "decoration is judged on styled text (tagged lines, help / version pages); COLUMNS=120",
        "one application object serves several runs (windows of 8 TLC runs, two-run behaviours, random sessions of 1-5 lines): "
        "the model keeps nothing between runs",
        "'without invoking the command's handler': no handler method is called and the run does not depend on the command "
        "having a handler; whether a handler factory is run is recorded (built) and compared with the model, not claimed",
    ]
    cols = os.environ.get("COLUMNS")
    os.environ["COLUMNS"] = "120"
    try:
        _run(ctx, quick)
    finally:
        if cols is None:
            os.environ.pop("COLUMNS", None)
        else:
            os.environ["COLUMNS"] = cols


def _run(ctx, quick):
    rp = Replayer(ctx)
    for cfg, name, least in MODEL_RUNS[ctx.tier]:
        before = rp.n
        ctx.model(SPEC, "MC_Switches", cfg, name=name, workers=8, line_sink=rp, timeout=1500)
        if rp.n - before < least:
            raise T.MachineryError("%s emitted only %d runs" % (cfg, rp.n - before))
    nbfs = rp.n
    ctx.model(SPEC, "MC_Switches", "MC_Switches_sim.cfg", name="simulate-up-to-seven-switches", workers=1, line_sink=rp,
              simulate="num=%d" % (400 if quick else 6000), depth=18, seed=ctx.seed % 100000, timeout=1500)
    if rp.n - nbfs < (300 if quick else 4000):
        raise T.MachineryError("simulation emitted only %d runs" % (rp.n - nbfs))
    ctx.extra["tlc_runs_replayed"] = rp.n
    ctx.extra["tlc_runs_by_outcome"] = rp.cats
    ctx.extra["tlc_runs_not_reproduced"] = rp.nmism
    for cat in ("version", "help", "silent", "handler-ok", "handler-meddle", "handler-code", "handler-raise", "no-handler", "second-run"):
        if rp.cats.get(cat, 0) < 20:
            raise T.MachineryError("model runs of kind '%s' are (nearly) missing: %r" % (cat, rp.cats))
    ctx.exhaustive = True
    if rp.first:
        ctx.sample(rp.first)

    traces = [t for t, _ in rp.mism + rp.sampled]
    cases = [c for _, c in rp.mism + rp.sampled]
    rng = ctx.rng
    n = 3000 if quick else 40000
    done = 0
    while done < n:  # sessions: 1-5 lines run one after the other on ONE application object
        box, tr, runs = AppBox(), [], []
        for _ in range(rng.choice([1, 1, 2, 3, 5])):
            units = rand_line(rng)
            beh = rng.choice(["ok"] * 6 + ["code"] * 3 + ["meddle"] * 3 + ["raise"])  # a raising run costs ~12 ms (the error report)
            kind = rng.choice(["none", "none", "both", "out", "err"])
            form = rng.choice(["string", "argv"])
            tr.append(event(units, beh, kind, form, box))
            runs.append({"units": units, "beh": beh, "streams": kind, "form": form})
            ctx.count()
            done += 1
            if any(u["k"] == "sw" for u in units):
                ctx.nontriv((" ".join(tokens_of(units)), beh, kind))
        traces.append(tr)
        cases.append({"session": runs, "kind": "random-session"})
    ctx.sample({"random_session": [" ".join(tokens_of(r["units"])) for r in cases[-1]["session"]], "case": cases[-1]})
    ctx.validate(SPEC, "SwitchesTrace", "SwitchesTrace.cfg", traces, cases=cases, name="recorded-runs")


def replay(ctx, path):
    d = json.load(open(path))
    if d.get("kind") == "model":
        ctx.model(SPEC, d["module"], d["cfg"], name="replay-model", workers=8)
        ctx.count()
        return
    c = d["case"]
    cols = os.environ.get("COLUMNS")
    os.environ["COLUMNS"] = "120"
    try:
        box = AppBox()
        if "session" in c:
            tr = [event(r["units"], r["beh"], r["streams"], r.get("form", "string"), box) for r in c["session"]]
        else:
            for h in c.get("history", []):  # what the application object had served before
                observe(h["units"], h["beh"], h["streams"], h.get("form", "string"), box)
            tr = [event(c["units"], c["beh"], c["streams"], c.get("form", "string"), box)]
    finally:
        if cols is None:
            os.environ.pop("COLUMNS", None)
        else:
            os.environ["COLUMNS"] = cols
    ctx.count()
    ctx.nontriv("replay")
    ctx.nontriv("replay2")
    ctx.sample({"case": c})
    ctx.validate(SPEC, "SwitchesTrace", "SwitchesTrace.cfg", [tr], cases=[c], name="replay")
