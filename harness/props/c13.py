"""C13  Help pages: drives ApplicationHelp / CommandHelp and the two request forms `help <path>` / `<path> --help`.
No verdict logic here: written pages are tokenised (blanks / words), compared for equality with behaviours emitted by
TLC (MC_HelpPage), everything else is decided by HelpPageTrace.

A configuration is the JSON object described in specs/HelpPage/HelpPage.tla (cfg / cmd / arg / opt); the driver builds
the application from it, nothing else.  Words are ASCII; `#` stands for a non-ASCII letter of width 1 and `~` for the
no-break space the synopsis puts between an option and its value."""
import json
import os
import re
import zlib

from harness.engine import tlc as T
from harness.engine.core import chunks

SPEC = os.path.join(T.SPECS, "HelpPage")
_SGR = re.compile("\x1b\\[[0-9;]*m")
TO_CODE = {"#": "\u00e9"}
TO_MODEL = {"\u00e9": "#", "\u00a0": "~"}
STYLE_TAGS = ["b", "u", "c1", "c2", "info", "comment", "question", "error"]


def real(s):
    return "".join(TO_CODE.get(ch, ch) for ch in s)


def model(s):
    return "".join(TO_MODEL.get(ch, ch) if ord(ch) < 128 or ch in TO_MODEL else "?" for ch in s)


# ------------------------------------------------------------------------------------------- building the application
def _sep(cfg):
    """[every k-th gap, the separator used there, whether it also ends the text] - see cfg.nl / gw / tnl in HelpPage.tla;
    `sep` (driver only) picks the characters: any of LF, CR, VT, FF for gw = 1, two of them for gw = 2"""
    sep = cfg.get("sep") or ("\n" if cfg.get("gw", 1) == 1 else "\r\n")
    if len(sep) != cfg.get("gw", 1):
        raise T.MachineryError("separator %r does not have width gw = %r" % (sep, cfg.get("gw")))
    return (cfg.get("nl", 0), sep, bool(cfg.get("tnl", False)))


NOSEP = (0, "\n", False)


def _text(words, K=NOSEP):
    """words -> the string handed to clikit"""
    k, sep, trail = K
    out = ""
    for n, w in enumerate(words):
        if n:
            out += sep if k and n % k == 0 else " "
        out += real(w)
    if out and trail:
        out += sep
    return out


def _default(words):
    if not words:
        return None
    v = json.loads(" ".join(real(w) for w in words))
    if [model(x) for x in json.dumps(v).split(" ")] != list(words):
        raise T.MachineryError("default %r is not in json.dumps form" % (words,))
    return v


def _add_opt(c, o, K, kw):
    from clikit.api.args.format import Option

    flags = {"no": Option.NO_VALUE, "req": Option.REQUIRED_VALUE, "opt": Option.OPTIONAL_VALUE}[o["val"]]
    if o["multi"]:
        flags |= Option.MULTI_VALUED
    if o["short"] and not o["ps"]:
        flags |= Option.PREFER_LONG_NAME
    desc = _text(o["desc"], K) if o["hasDesc"] else None
    if kw:  # the same call with keyword arguments
        c.add_option(long_name=o["long"], short_name=o["short"] or None, flags=flags, description=desc, default=_default(o["dflt"]),
                     value_name=o.get("vn", "..."))
    else:
        c.add_option(o["long"], o["short"] or None, flags, desc, _default(o["dflt"]), o.get("vn", "..."))


def _add_arg(c, a, K, kw):
    from clikit.api.args.format import Argument

    flags = Argument.REQUIRED if a["req"] else Argument.OPTIONAL
    if a["multi"]:
        flags |= Argument.MULTI_VALUED
    desc = _text(a["desc"], K) if a["hasDesc"] else None
    if kw:
        c.add_argument(name=a["name"], flags=flags, description=desc, default=_default(a["dflt"]))
    else:
        c.add_argument(a["name"], flags, desc, _default(a["dflt"]))


def _fill_command(c, node, K, kw, later):
    """later: list collecting (config object, "opt"|"arg", element) that a staged build adds after a first application
    has been built from the configuration (None: add everything at once)"""
    if node["desc"]:
        c.set_description(_text(node["desc"], K))
    if node["help"]:
        c.set_help("\n".join(_text(par) for par in node["help"]))
    if kw:
        c.add_aliases(list(node["aliases"]))
    else:
        for al in node["aliases"]:
            c.add_alias(al)
    if node["hidden"]:
        c.hide()
    if not node["enabled"]:
        c.disable()
    if node["anon"]:
        c.anonymous()
    elif node["dflt"]:
        c.default()
    opts, args = list(node["opts"]), list(node["args"])
    if later is not None and opts:
        later.append((c, "opt", opts.pop()))
    if later is not None and args:
        later.append((c, "arg", args.pop()))
    for o in opts:
        _add_opt(c, o, K, kw)
    for a in args:
        _add_arg(c, a, K, kw)


FULL_OPTS = None  # the global options of DefaultApplicationConfig in configuration form (read once, see full_gopts)


def make_app(cfg):
    """cfg -> ConsoleApplication on the default configuration (slim: only -h/--help and the help command).
    cfg["route"] (driver only) selects equivalent ways of saying the same thing:
      bit 0  keyword instead of positional arguments for add_argument / add_option, add_aliases instead of add_alias
      bits 1-2 (mod 3)  sub-commands through the context manager / create_sub_command / CommandConfig + add_sub_command_config
      bit 3  application name and version through the setters instead of the constructor
      bit 4  staged: an application is built (and dropped) before the last option / argument of every command and the last
             command are added to the *same* configuration objects; the application under test is built afterwards"""
    from clikit import ConsoleApplication
    from clikit.api.config.command_config import CommandConfig
    from clikit.api.event import PRE_HANDLE, PRE_RESOLVE
    from clikit.config import DefaultApplicationConfig
    from clikit.handler.help import HelpTextHandler
    from clikit.resolver.help_resolver import HelpResolver

    class Slim(DefaultApplicationConfig):
        def configure(self):
            self.set_io_factory(self.create_io)
            self.add_event_listener(PRE_RESOLVE, self.resolve_help_command)
            self.add_event_listener(PRE_HANDLE, self.print_version)

    route = cfg.get("route", 0)
    kw, subway, setters, staged = bool(route & 1), (route >> 1) % 3, bool(route & 8), bool(route & 16)
    K = _sep(cfg)
    full = cfg.get("base") == "full"
    cls = DefaultApplicationConfig if full else Slim
    if setters:
        conf = cls()
        conf.set_name(cfg["app"])
        conf.set_version(cfg["ver"] or None)
    else:
        conf = cls(cfg["app"], cfg["ver"] or None)
    conf.set_display_name(_text(cfg["display"]))
    conf.set_catch_exceptions(False)
    conf.set_terminate_after_run(False)
    if cfg["help"]:
        conf.set_help("\n".join(_text(par) for par in cfg["help"]))
    gopts = cfg["gopts"]
    if full:
        have = [o.long_name for o in conf.options.values()]
        if [o["long"] for o in gopts[: len(have)]] != have:
            raise T.MachineryError("full configuration: global options %r expected first" % (have,))
        gopts = gopts[len(have):]
    for o in gopts:
        _add_opt(conf, o, K, kw)
    for a in cfg.get("gargs", []):
        _add_arg(conf, a, K, kw)
    later = [] if staged else None
    nodes = list(cfg["cmds"])
    held = nodes.pop() if staged and len(nodes) > 1 and not nodes[-1]["builtin"] else None

    def add_subs(c, node):
        for sub in node["subs"]:
            if subway == 0:
                with c.sub_command(sub["name"]) as s:
                    _fill_command(s, sub, K, kw, later)
                    add_subs(s, sub)
            elif subway == 1:
                s = c.create_sub_command(sub["name"])
                _fill_command(s, sub, K, kw, later)
                add_subs(s, sub)
            else:
                s = CommandConfig(sub["name"])
                _fill_command(s, sub, K, kw, later)
                add_subs(s, sub)
                c.add_sub_command_config(s)

    def add_command(node):
        if node["builtin"]:
            if not full:
                with conf.command(node["name"]) as c:
                    _fill_command(c, node, K, kw, None)
                    c.set_handler(HelpTextHandler(HelpResolver()))
            return
        with conf.command(node["name"]) as c:
            _fill_command(c, node, K, kw, later)
            add_subs(c, node)

    for node in nodes:
        add_command(node)
    if staged:
        ConsoleApplication(conf)  # a first application from the unfinished configuration; nothing of it is used
        for c, what, el in later:
            (_add_opt if what == "opt" else _add_arg)(c, el, K, kw)
        later = None
        if held is not None:
            add_command(held)
    return ConsoleApplication(conf)


def words_of(text):
    return [model(w) for w in text.split()]


def full_gopts():
    """the seven global options of DefaultApplicationConfig and its help command, read from a fresh configuration
    (generation only: they are part of the *input* of a case, like every other option)"""
    global FULL_OPTS
    if FULL_OPTS is None:
        from clikit.config import DefaultApplicationConfig

        conf = DefaultApplicationConfig("app")
        opts = []
        for o in conf.options.values():
            opts.append({"long": o.long_name, "short": o.short_name or "", "ps": bool(o.short_name) and o.is_short_name_preferred(),
                         "val": "no" if not o.accepts_value() else ("req" if o.is_value_required() else "opt"),
                         "multi": o.is_multi_valued(), "hasDesc": o.description is not None,
                         "desc": words_of(o.description or ""), "dflt": [], "vn": o.value_name})
        hc = conf.get_command_config("help")
        arg = list(hc.arguments.values())[0]
        FULL_OPTS = (opts, words_of(hc.description), words_of(arg.description))
    return FULL_OPTS


# ------------------------------------------------------------------------------------------- observing
def tokenise(text):
    """written text -> lines [g, w, tail]: words (runs of non-blank characters), blanks in front of each, blanks at the end"""
    text = _SGR.sub("", text)
    lines = text.split("\n")
    if lines and lines[-1] == "":
        lines.pop()
    out = []
    for ln in lines:
        g, w = [], []
        pend = 0
        cur = ""
        for ch in ln:
            if ch == " ":
                if cur:
                    w.append(model(cur))
                    cur = ""
                pend += 1
            else:
                if not cur:
                    g.append(pend)
                    pend = 0
                cur += ch
        if cur:
            w.append(model(cur))
            pend = 0
        out.append({"g": g, "w": w, "tail": pend})
    return out


NOOBS = {"kind": "", "cls": "", "lines": []}


def walk(nodes):
    """every command configuration of the tree, parents first"""
    for c in nodes:
        yield c
        for x in walk(c["subs"]):
            yield x


def node_at(cfg, p):
    c = cfg["cmds"][p[0] - 1]
    for k in p[1:]:
        c = c["subs"][k - 1]
    return c


def normalise(cfg):
    """fields added to the configuration format later get their neutral values (stored replay cases stay usable)"""
    cfg.setdefault("gargs", [])
    cfg.setdefault("nl", 0)
    cfg.setdefault("gw", len(cfg.get("sep") or "\n"))
    cfg.setdefault("tnl", False)
    for o in cfg["gopts"]:
        o.setdefault("vn", "...")
    for x in walk(cfg["cmds"]):
        for o in x["opts"]:
            o.setdefault("vn", "...")
    return cfg


def exc_obs(e, where=""):
    return {"kind": "exc", "cls": where + type(e).__name__, "lines": []}


def help_object(app, cfg, p):
    from clikit.ui.help import ApplicationHelp, CommandHelp

    if not p:
        return ApplicationHelp(app)
    cmd = app.get_command(cfg["cmds"][p[0] - 1]["name"])
    for n in range(2, len(p) + 1):
        cmd = cmd.get_sub_command(node_at(cfg, p[:n])["name"])
    return CommandHelp(cmd)


def new_io(width, ansi):
    from clikit.formatter import AnsiFormatter
    from clikit.io import BufferedIO
    from clikit.ui.rectangle import Rectangle

    io = BufferedIO(formatter=AnsiFormatter(forced=True) if ansi else None)
    io.set_terminal_dimensions(Rectangle(width, 50))
    return io


def render_on(page, io):
    """one render of a help object on an I/O (which may have been used before: its output is taken away first)"""
    try:
        io.clear_output()
        page.render(io)
        return {"kind": "ok", "cls": "", "lines": tokenise(io.fetch_output())}
    except KeyboardInterrupt:
        raise
    except BaseException as e:  # noqa: every exception kind is an observation
        return exc_obs(e)


def render_page(app, cfg, p, width, ansi):
    try:
        return render_on(help_object(app, cfg, p), new_io(width, ansi))
    except Exception as e:  # noqa
        return exc_obs(e)


def other_width(width):
    return width + 13 if width < 120 else width - 37


def run_request(cfg, tokens, width, ansi, form="argv", app=None):
    """one run of a freshly built application (no state of an earlier run can leak in) or, in a session, of the
    application given; the command line is given as an argument vector or as one string"""
    saved = {k: os.environ.get(k) for k in ("COLUMNS", "LINES")}
    try:
        from clikit.args import ArgvArgs, StringArgs
        from clikit.io.input_stream import StringInputStream
        from clikit.io.output_stream import BufferedOutputStream

        class AnsiStream(BufferedOutputStream):
            def supports_ansi(self):
                return True

        if app is None:
            app = make_app(cfg)
        out, err = (AnsiStream if ansi else BufferedOutputStream)(), BufferedOutputStream()
        os.environ["COLUMNS"] = str(width)
        os.environ["LINES"] = "50"
        toks = [real(t) for t in tokens]
        raw = StringArgs(" ".join(toks)) if form == "string" else ArgvArgs(["prog"] + toks)
        st = app.run(raw, StringInputStream(""), out, err)
        if st == 0:
            return {"kind": "ok", "cls": "", "lines": tokenise(out.fetch())}
        return {"kind": "status", "cls": "status" + str(st), "lines": []}
    except (KeyboardInterrupt, T.MachineryError):
        raise
    except BaseException as e:  # noqa: also SystemExit is an observation
        return exc_obs(e)
    finally:
        for k, v in saved.items():
            if v is None:
                os.environ.pop(k, None)
            else:
                os.environ[k] = v


def targets(cfg):
    out = [[]]

    def below(nodes, pre):
        for i, c in enumerate(nodes):
            if c["enabled"]:
                out.append(pre + [i + 1])
                below(c["subs"], pre + [i + 1])

    below(cfg["cmds"], [])
    return out


def requests(cfg, with_builtin):
    """paths of the commands a request can name: enabled, named, at any depth"""
    out = [[]]

    def below(nodes, pre):
        for i, c in enumerate(nodes):
            if not c["enabled"] or c["anon"] or (c["builtin"] and not with_builtin):
                continue
            out.append(pre + [i + 1])
            below(c["subs"], pre + [i + 1])

    below(cfg["cmds"], [])
    return out


def req(q, al=0, flag="--help", form="argv", extra=""):
    return {"q": list(q), "al": al, "flag": flag, "form": form, "extra": extra}


def as_req(r):
    """stored cases of earlier versions describe a request as [i, j, alias index, flag(, form, extra)]"""
    if isinstance(r, dict):
        return r
    return req([x for x in r[:2] if x], r[2], r[3], r[4] if len(r) > 4 else "argv", r[5] if len(r) > 5 else "")


def request_names(cfg, r):
    """the words of the path, each by name or by one of its aliases"""
    names, al = [], r["al"]
    for n in range(1, len(r["q"]) + 1):
        c = node_at(cfg, r["q"][:n])
        ns = [c["name"]] + c["aliases"]
        names.append(ns[al % len(ns)])
        al //= 7
    return names


def event(op, **kw):
    e = {"op": op, "cfg": 0, "T": 0, "p": [], "obs": NOOBS, "runA": False, "q": [], "a": NOOBS, "b": NOOBS}
    e.update(kw)
    return e


def record(case):
    """case = {cfg, T, ansi, pages: [path], reqs: [req(..)], session: [req(..)], runA, noA: [paths without A-layer],
    again: render every help object a second time} -> the trace for HelpPageTrace.
    The first renderings of a trace share ONE I/O object; with `again` every help object is rendered once more on a fresh
    I/O of another width and the other formatter (plain <-> ANSI)."""
    cfg, width, ansi = normalise(case["cfg"]), case["T"], case.get("ansi", False)
    trace = [event("config", cfg=cfg, T=width)]
    noa = [list(p) for p in case.get("noA", [])]
    run_a = bool(case.get("runA", True))
    try:
        app, failed = make_app(cfg), None
    except T.MachineryError:
        raise
    except Exception as e:  # noqa: a library that rejects the configuration is an observation too
        app, failed = None, exc_obs(e, "build:")
    shared = new_io(width, ansi) if failed is None else None
    for p in case["pages"]:
        a_here = run_a and list(p) not in noa
        if failed is not None:
            trace.append(event("page", p=list(p), obs=failed, runA=a_here))
            continue
        try:
            page = help_object(app, cfg, p)
        except Exception as e:  # noqa
            trace.append(event("page", p=list(p), obs=exc_obs(e), runA=a_here))
            continue
        trace.append(event("page", p=list(p), obs=render_on(page, shared), runA=a_here))
        if case.get("again"):
            w2 = other_width(width)
            trace.append(event("page", p=list(p), obs=render_on(page, new_io(w2, not ansi)), runA=a_here, T=w2))
    for r in map(as_req, case["reqs"]):
        names, extra = request_names(cfg, r), ([r["extra"]] if r["extra"] else [])
        a = run_request(cfg, ["help"] + names + extra, width, ansi, r["form"])
        b = run_request(cfg, names + [r["flag"]] + extra, width, ansi, r["form"])
        trace.append(event("request", q=r["q"], a=a, b=b, runA=run_a and not noa))
    if case.get("session"):
        # ONE application answers a sequence of requests (flag "help" = the `help <path>` form); what it shows for a
        # command must not depend on what it was asked before - each answer is judged like a request of its own
        try:
            sapp, sfailed = make_app(cfg), None
        except T.MachineryError:
            raise
        except Exception as e:  # noqa
            sapp, sfailed = None, exc_obs(e, "build:")
        for r in map(as_req, case["session"]):
            names, extra = request_names(cfg, r), ([r["extra"]] if r["extra"] else [])
            toks = ["help"] + names + extra if r["flag"] == "help" else names + [r["flag"]] + extra
            o = sfailed if sfailed is not None else run_request(cfg, toks, width, ansi, r["form"], app=sapp)
            trace.append(event("request", q=r["q"], a=o, b=o, runA=run_a and not noa))
    return trace


def _tagged_page(cfg, p):
    if not p:
        return False
    c = node_at(cfg, p)
    shown = [node_at(cfg, p[:n]) for n in range(1, len(p) + 1)] + list(c["subs"])
    return any(a["name"] in STYLE_TAGS for x in shown for a in x["args"])


def subcases(case):
    """Transport only: TLC stops reading a trace at its first FAIL, so events in the regions of the known findings
    (requests naming the built-in help command; pages / requests showing an argument named like a style tag) are
    recorded as traces of their own and cannot hide what happens elsewhere in the same application."""
    cfg = case["cfg"]

    def req_isolated(r):
        q = as_req(r)["q"]
        if not q:
            return False
        if cfg["cmds"][q[0] - 1]["builtin"]:
            return True
        ds = [q + [n + 1] for n, x in enumerate(node_at(cfg, q)["subs"]) if x["enabled"] and x["dflt"]]
        return any(_tagged_page(cfg, p) for p in (ds or [q]))

    iso_p = [p for p in case["pages"] if _tagged_page(cfg, p)]
    iso_r = [r for r in case["reqs"] if req_isolated(r)]
    out = [dict(case, pages=[p for p in case["pages"] if p not in iso_p], reqs=[r for r in case["reqs"] if r not in iso_r],
                session=[r for r in case.get("session", []) if not req_isolated(r)])]
    out += [dict(case, pages=[p], reqs=[], session=[]) for p in iso_p]
    out += [dict(case, pages=[], reqs=[r], session=[]) for r in iso_r]
    return out


# ------------------------------------------------------------------------------------------- random configurations
VOCAB = ["the", "of", "and", "to", "a", "in", "is", "for", "file", "files", "path", "directory", "output", "written",
         "reads", "every", "entry", "when", "given", "value", "values", "default", "used", "instead", "only", "if", "set,",
         "otherwise", "ignored.", "must", "exist", "before", "running", "caf#", "na#ve", "r#sum#", "(see", "below)",
         "format:", "json,", "yaml", "or", "plain", "text.", "UTF8", "configuration", "internationalization", "x", "1", "42.",
         "verbosely", "print", "nothing", "at", "all", "characteristically", "incomprehensibilities",
         # blank-free tokens longer than the text columns of a 40-80 column terminal (cut anywhere / after a hyphen)
         "https://example.org/docs/gettingstarted/installguide.html", "/srv/data-2026/build-42/artifacts_0001/output-7.tar.gz",
         "https://example.org/a/very/long/path/segment/that/keeps/going/and/going/index.html?x=1&y=2"]
CMD_NAMES = ["add", "remove", "list", "show", "config", "init", "update", "self", "cache", "clear", "run", "build", "env",
             "check", "lock", "export", "b2", "server", "start", "stop", "dry-run", "make-all", "q",
             "averyveryverylongcommandnamewithoutanybreaksinit"]
ARG_NAMES = ["name", "path", "file", "target", "source", "dest", "key", "value", "package", "version", "id", "n", "args",
             "input-file", "pattern-b", "thisargumentnameisratherlongforanargument"]
OPT_NAMES = ["force", "dry-run", "output", "format", "verbose-level", "all", "tree", "no-dev", "with", "without", "only",
             "extras", "python", "lock", "remove-untracked", "quiet-mode", "jobs", "xy", "yes", "no-cache",
             "anoptionwhoselongnameislongerthanmostlabels"]
LEAF_NAMES = ["add", "remove", "list", "show", "help"]  # also a sub-command literally named `help`
ALIASES = ["ad", "rm", "ls", "sh", "cfg", "i", "up", "s2", "cc", "r", "bld", "e", "chk", "lk", "ex", "mk"]
DEFAULTS = [["\"text\""], ["7"], ["1.5"], ["true"], ["false"], ["\"two", "words\""], ["\"" + "z" * 45 + "\""], ["0"], ["-3"], ['""']]
LIST_DEFAULTS = [["[\"a\",", "\"b\"]"], ["[1,", "2,", "3]"], ["[\"only\"]"], ["[0]"], ["[\"\"]"]]  # lists of one element too


# descriptions are text, not format strings: braces of every kind (help texts, which *are* format strings with the
# documented placeholders, keep to VOCAB)
DESC_VOCAB = VOCAB + ["{name}:", "{version}", "{0}", "{}", "{", "}", "{...}", "e.g.", "\"{name}-{0}\""]


def _desc(rng):
    r = rng.random()
    if r < 0.15:
        return False, []
    n = rng.choice([1, 2, 3, 5, 8, 13, 25, 40]) if r < 0.9 else 1
    return True, [rng.choice(DESC_VOCAB) for _ in range(n)]


def _args(rng, taken, tail, n, tags):
    """n arguments continuing a list whose last element state is tail = (seen optional, seen multi)"""
    opt_seen, multi_seen = tail
    out = []
    for _ in range(n):
        if multi_seen:
            break
        pool = [x for x in ARG_NAMES + (STYLE_TAGS if tags else []) if x not in taken]
        name = rng.choice(STYLE_TAGS) if tags and rng.random() < 0.5 and any(t not in taken for t in STYLE_TAGS) else rng.choice(pool)
        if name in taken:
            continue
        taken.add(name)
        req = (not opt_seen) and rng.random() < 0.4
        multi = rng.random() < 0.2
        has, desc = _desc(rng)
        dflt = []
        if not req and rng.random() < 0.5:
            dflt = rng.choice(LIST_DEFAULTS if multi else DEFAULTS)
        out.append({"name": name, "req": req, "multi": multi, "hasDesc": has, "desc": desc, "dflt": list(dflt)})
        opt_seen = opt_seen or not req
        multi_seen = multi_seen or multi
    return out, (opt_seen, multi_seen)


def _opts(rng, longs, shorts, n):
    out = []
    for _ in range(n):
        pool = [x for x in OPT_NAMES if x not in longs]
        if not pool:
            break
        long_ = rng.choice(pool)
        longs.add(long_)
        short = ""
        if rng.random() < 0.6:
            cand = [ch for ch in "abcdefgijklmoprstuwxyzABCDEFG" if ch not in shorts]
            short = rng.choice(cand)
            shorts.add(short)
        val = rng.choice(["no", "no", "req", "opt"])
        multi = val == "req" and rng.random() < 0.3
        has, desc = _desc(rng)
        if not has and rng.random() < 0.4:
            has = True  # the description is the empty string, not None
        dflt = []
        if val != "no" and rng.random() < 0.5:
            dflt = rng.choice(LIST_DEFAULTS if multi else DEFAULTS)
        out.append({"long": long_, "short": short, "ps": bool(short) and rng.random() < 0.75, "val": val, "multi": multi,
                    "hasDesc": has, "desc": desc, "dflt": list(dflt),
                    "vn": rng.choice(["...", "...", "file", "n", "level"]) if val != "no" else "..."})
    return out


def _plain(name):
    return name[2:-1] if name.startswith("z9") else name


def _rank(nodes):
    order = sorted(n["name"] for n in nodes)
    for n in nodes:
        n["rank"] = order.index(n["name"]) + 1


def random_cfg(rng, tags=False):
    full = rng.random() < 0.4
    if full:
        gopts, hdesc, adesc = full_gopts()
        gopts = [dict(o) for o in gopts]
    else:
        gopts = [{"long": "help", "short": "h", "ps": True, "val": "no", "multi": False, "hasDesc": True,
                  "desc": ["Display", "this", "help", "message"], "dflt": [], "vn": "..."}]
        hdesc, adesc = ["Display", "the", "manual", "of", "a", "command"], ["The", "command", "name"]
    longs = {o["long"] for o in gopts}
    shorts = {o["short"] for o in gopts if o["short"]} | {"h", "q", "v", "V", "n"}
    gopts += _opts(rng, longs, shorts, rng.choice([0, 0, 1, 2]))
    helpcmd = {"name": "help", "rank": 0, "aliases": [], "hidden": False, "enabled": True, "dflt": True, "anon": False,
               "builtin": True, "desc": hdesc, "help": [],
               "args": [{"name": "command", "req": False, "multi": True, "hasDesc": True, "desc": adesc, "dflt": []}],
               "opts": [], "subs": []}
    cmds = [helpcmd]
    names = {"help"}
    aliases = set()

    def node(sub, parent_name):
        if sub:
            # leaf names repeat across parents (pkg add / repo add), a child may be named like its parent
            pool = [x for x in LEAF_NAMES if x not in sub_names] if rng.random() < 0.7 else []
            if parent_name not in sub_names and rng.random() < 0.15:
                pool = [parent_name]
            pool = pool or [x for x in CMD_NAMES if x not in sub_names]
        else:
            pool = [x for x in CMD_NAMES if x not in names]
        name = rng.choice(pool)
        (sub_names if sub else names).add(name)
        al = []
        for _ in range(rng.choice([0, 0, 1, 2])):
            cand = [x for x in ALIASES if x not in aliases]
            if not cand:
                break
            a = rng.choice(cand)
            aliases.add(a)
            al.append(a)
        if sub and "help" not in sub_names and rng.random() < 0.08:
            sub_names.add("help")  # ... or one that answers to the alias `help`
            al.append("help")
        anon = rng.random() < 0.12
        has_subs = (not sub) and (not anon) and rng.random() < 0.6
        dflt = anon or rng.random() < (0.25 if sub else 0.1)
        hidden = rng.random() < 0.2
        enabled = rng.random() > 0.12
        if hidden or not enabled:
            # names that must not show up are made unmistakable: no text, label or visible name contains a "9", and no
            # such name is a piece of another one ("z9" only at the start, "9" only at the end)
            name, al = "z9" + name + "9", ["z9" + x + "9" for x in al]
        n = {"name": name, "rank": 0, "aliases": al, "hidden": hidden, "enabled": enabled, "dflt": dflt, "anon": anon,
             "builtin": False, "desc": _desc(rng)[1] if rng.random() < 0.8 else [],
             "help": [[rng.choice(VOCAB) for _ in range(rng.choice([3, 9, 30]))] if k != 1 or rng.random() < 0.5 else []
                      for k in range(rng.choice([0, 0, 1, 3]))],
             "subs": []}
        if n["help"] and (not n["help"][0] or not n["help"][-1]):
            n["help"] = [par for par in n["help"] if par]
        return n, has_subs

    gargs, gstate, gtaken = [], (False, False), set()
    if rng.random() < 0.12:  # a global argument, inherited by every command (never multi-valued: `help` adds its own)
        has, desc = _desc(rng)
        req = rng.random() < 0.5
        gargs = [{"name": "workspace", "req": req, "multi": False, "hasDesc": has, "desc": desc, "dflt": []}]
        gstate, gtaken = (not req, False), {"workspace"}
    many = rng.random() < 0.06  # very many commands
    for _ in range(rng.randint(14, 20) if many else rng.randint(1, 4)):
        sub_names = set()
        c, has_subs = node(False, None)
        if many:
            has_subs, c["help"] = False, []
        taken = set(gtaken)
        c["args"], st = _args(rng, taken, gstate, rng.choice([0, 1, 1, 2, 3]) if not has_subs else rng.choice([0, 0, 1]), tags)
        cl, cs = set(longs), set(shorts)
        c["opts"] = _opts(rng, cl, cs, rng.choice([0, 1, 2, 3]))
        if has_subs:
            cname = _plain(c["name"])
            for _k in range(rng.randint(1, 3)):
                s, _x = node(True, cname)
                staken = set(taken)
                s["args"], sst = _args(rng, staken, st, rng.choice([0, 1, 2, 3]), tags)
                sl, ss = set(cl), set(cs)
                s["opts"] = _opts(rng, sl, ss, rng.choice([0, 0, 1, 2, 3]))
                if not s["anon"] and rng.random() < 0.4:  # a third level (with its own hidden / disabled commands)
                    outer, sub_names = sub_names, set()
                    for _m in range(rng.randint(1, 2)):
                        t3, _y = node(True, _plain(s["name"]))
                        t3["args"], _st3 = _args(rng, set(staken), sst, rng.choice([0, 0, 1, 2]), tags)
                        t3["opts"] = _opts(rng, set(sl), set(ss), rng.choice([0, 0, 1, 2]))
                        s["subs"].append(t3)
                    _rank(s["subs"])
                    sub_names = outer
                c["subs"].append(s)
            _rank(c["subs"])
        cmds.append(c)
    _rank(cmds)
    app = rng.choice(["app", "tool", "my-cli", "x"])
    # how descriptions are joined: LF / CR / VT / FF are one blank for textwrap, CR LF two; the full default configuration
    # brings its own (blank-separated) texts, so only one-character separators inside a text are used there
    sep = rng.choice(["\n", "\r", "\x0b", "\x0c"] if full or rng.random() < 0.6 else ["\r\n", "\n\r", "\x0c\n"])
    return {"app": app, "display": rng.choice([["App"], ["My", "Tool"], []]), "ver": rng.choice(["1.0", "2.3.1-beta", ""]),
            "help": [[rng.choice(VOCAB) for _ in range(rng.choice([4, 20]))] for _ in range(rng.choice([0, 0, 2]))],
            "gargs": gargs, "gopts": gopts, "cmds": cmds, "base": "full" if full else "slim",
            "nl": rng.choice([0, 0, 1, 3, 7]), "sep": sep, "gw": len(sep), "tnl": (not full) and rng.random() < 0.4,
            "route": rng.randint(0, 31)}


def longest_label(cfg):
    """generation only (choice of a width near the precondition's boundary); the precondition itself is HelpPage!Pre"""
    n = [9]
    for o in cfg["gopts"]:
        n.append(len(o["long"]) + 2 + (len(o["short"]) + 4 if o["short"] else 0))
    def below(nodes, pre):
        for x in nodes:
            n.append(4 + len(cfg["app"]) + pre + 1 + len(x["name"]) + 2)
            n.extend(len(a["name"]) + 2 for a in x["args"])
            n.extend(len(o["long"]) + 2 + (len(o["short"]) + 4 if o["short"] else 0) for o in x["opts"])
            below(x["subs"], pre + 1 + len(x["name"]))

    below(cfg["cmds"], 0)
    return max(n)


def hyphenated(cfg):
    """the A-layer splits running text at blanks only; textwrap also splits some hyphenated words"""
    import textwrap

    w = textwrap.TextWrapper()
    words = [cfg["app"], "<c1>" + cfg["ver"] + "</c1>"] + cfg["display"] + [y for par in cfg["help"] for y in par]
    for a in cfg.get("gargs", []):
        words += ["[<" + a["name"] + ">]"] + a["desc"]
    for o in cfg["gopts"]:
        words += ["[--" + o["long"] + "]", "[--" + o["long"] + "\u00a0[<...>]]"] + o["desc"] + o["dflt"]
    for x in walk(cfg["cmds"]):
        words += [x["name"]] + x["aliases"] + x["desc"] + [y for par in x["help"] for y in par]
        for a in x["args"]:
            words += ["[<" + a["name"] + ">]", "[<" + a["name"] + "1>]", "[<" + a["name"] + "N>]"] + a["desc"] + a["dflt"]
        for o in x["opts"]:
            words += ["[--" + o["long"] + "]", "[--" + o["long"] + "\u00a0[<...>]]"] + o["desc"] + o["dflt"]
    return any(len(w._split(x)) != 1 for x in words if x)


def random_case(rng, tags=False):
    cfg = random_cfg(rng, tags)
    r = rng.random()
    width = rng.randint(40, 200) if r < 0.6 else (rng.randint(40, 70) if r < 0.85 else longest_label(cfg) + 10 + rng.randint(0, 4))
    extras = ["", "", "--no-ansi", "--ansi", "-v", "-n"] if cfg["base"] == "full" else [""]
    # (a global argument would swallow the path of `help <path>`: such applications get no requests)
    qs = [] if cfg["gargs"] else requests(cfg, True)
    reqs = [req(q, rng.randint(0, 342), rng.choice(["--help", "-h"]), rng.choice(["argv", "string"]), rng.choice(extras)) for q in qs]
    # ... and the same requests, in another order and one form each, put to ONE application
    session = [req(q, rng.randint(0, 342), rng.choice(["help", "help", "--help", "-h"]), rng.choice(["argv", "string"]), "")
               for q in rng.sample(qs, len(qs))][:12]
    tagged = any(a["name"] in STYLE_TAGS for x in walk(cfg["cmds"]) for a in x["args"])
    return {"cfg": cfg, "T": width, "ansi": rng.random() < 0.5, "pages": targets(cfg), "reqs": reqs, "session": session,
            "runA": not hyphenated(cfg) and not tagged, "again": True}


# ------------------------------------------------------------------------------------------- fixed reproducers
def fixed_cases():
    """One small application that shows every open known finding of C13, independent of the seed: command foo with an
    argument named `info` (a style tag) and an option whose default is announced in <b>..</b>.
      width 60, plain : the argument is missing from the page (P.lists.args, P.request.page / style-tag-name);
                        `help --help` differs from `help help` (P.request.same / builtin-help)
      width 27, ANSI  : the label leaves its style on the formatter's stack and the wrapper cuts `<b>` but not `</b>`:
                        ValueError('Incorrectly nested style tag found.') (P.succeeds, P.request.status)"""
    def words(t):
        return t.split()

    helpcmd = {"name": "help", "rank": 2, "aliases": [], "hidden": False, "enabled": True, "dflt": True, "anon": False,
               "builtin": True, "desc": words("Display the manual of a command"), "help": [],
               "args": [{"name": "command", "req": False, "multi": True, "hasDesc": True, "desc": words("The command name"), "dflt": []}],
               "opts": [], "subs": []}
    foo = {"name": "foo", "rank": 1, "aliases": [], "hidden": False, "enabled": True, "dflt": False, "anon": False,
           "builtin": False, "desc": words("does things"), "help": [], "subs": [],
           "args": [{"name": "info", "req": False, "multi": False, "hasDesc": True, "desc": words("the info"), "dflt": []}],
           "opts": [{"long": "force", "short": "", "ps": False, "val": "opt", "multi": False, "hasDesc": True,
                     "desc": ["directory"], "dflt": ["1.5"]}]}
    cfg = {"app": "app", "display": ["App"], "ver": "1.0", "help": [], "base": "slim", "nl": 0,
           "gopts": [{"long": "help", "short": "h", "ps": True, "val": "no", "multi": False, "hasDesc": True,
                      "desc": words("Display this help message"), "dflt": []}],
           "cmds": [helpcmd, foo]}
    base = {"cfg": cfg, "runA": False}
    return [
        dict(base, T=60, ansi=False, pages=[[2]], reqs=[]),
        dict(base, T=60, ansi=False, pages=[], reqs=[req([2])]),
        dict(base, T=60, ansi=False, pages=[], reqs=[req([1])]),
        dict(base, T=27, ansi=True, pages=[[2]], reqs=[]),
        dict(base, T=27, ansi=True, pages=[], reqs=[req([2], flag="-h")]),
    ]


# ------------------------------------------------------------------------------------------- the check
def replay_behaviour(line):
    """one behaviour emitted by MC_HelpPage -> the same pages and requests on the real code, compared for equality"""
    rec = T.parse_emit(line)
    if rec is None:
        raise T.MachineryError("unreadable behaviour: %s" % line[:200])
    cfg, width = rec["cfg"], rec["T"]
    h = zlib.crc32(json.dumps([cfg, width], sort_keys=True).encode())
    case = {"cfg": cfg, "T": width, "ansi": h % 2 == 0, "pages": [pg["p"] for pg in rec["pages"]],
            "reqs": [req(q["q"], (h // 2) % 343, "--help" if (h // 98) % 2 else "-h", "string" if (h // 7 + n) % 2 else "argv")
                     for n, q in enumerate(rec["reqs"])], "runA": True}
    # the same requests once more, last first and in alternating forms, put to ONE application
    case["session"] = [req(q["q"], (h // 3) % 343, ["help", "--help", "-h"][(h // 5 + n) % 3], "argv" if (h // 7 + n) % 2 else "string")
                       for n, q in reversed(list(enumerate(rec["reqs"])))]
    # driver-only choices: which characters the separators are, and by which equivalent calls the configuration is written
    cfg["sep"] = (["\n", "\r", "\x0b", "\x0c"] if cfg["gw"] == 1 else ["\r\n", "\n\r", "\x0c\n"])[(h // 4) % (4 if cfg["gw"] == 1 else 3)]
    cfg["route"] = (h // 16) % 32
    trace = record(case)
    same = True
    nontrivial = 0
    by_path = {}
    for pg, ev in zip(rec["pages"], trace[1:]):
        by_path[json.dumps(pg["p"])] = pg
        if (ev["obs"]["kind"] == "ok") != pg["ok"] or (pg["ok"] and ev["obs"]["lines"] != pg["lines"]):
            same = False
        if pg["ok"] and len(pg["lines"]) > 12:
            nontrivial += 1
    for q, ev in zip(rec["reqs"], trace[1 + len(rec["pages"]):]):
        pg = by_path[json.dumps(q["p"])]
        if q["ok"] and pg["ok"]:
            if not (ev["a"]["kind"] == "ok" and ev["b"]["kind"] == "ok" and ev["a"]["lines"] == pg["lines"] == ev["b"]["lines"]):
                same = False
        elif ev["a"]["kind"] == "ok" or ev["b"]["kind"] == "ok":
            same = False
    for q, ev in zip(reversed(rec["reqs"]), trace[1 + len(rec["pages"]) + len(rec["reqs"]):]):
        pg = by_path[json.dumps(q["p"])]
        if q["ok"] and pg["ok"]:
            if not (ev["a"]["kind"] == "ok" and ev["a"]["lines"] == pg["lines"]):
                same = False
        elif ev["a"]["kind"] == "ok":
            same = False
    keep = (not same) or (h // 1000) % 23 == 0
    return {"h": h, "same": same, "pages": len(rec["pages"]), "requests": len(rec["reqs"]), "nontrivial": nontrivial,
            "trace": trace if keep else None, "case": case if keep else None}


FAMILIES = {
    "quick": [("main", "MC_HelpPage_quick.cfg"), ("edge", "MC_HelpPage_quick_edge.cfg")],
    "thorough": [("main", "MC_HelpPage_thorough.cfg"), ("edge", "MC_HelpPage_thorough_edge.cfg"),
                 ("shapes", "MC_HelpPage_thorough_shapes.cfg")],
}


def run(ctx):
    quick = ctx.tier == "quick"
    ctx.rule = (
        "TLC builds every application of bounded families (built-in help command, command foo with 0-3 arguments / 0-3 "
        "options / 0-2 sub-commands in 8 shapes of named, default, anonymous, hidden, disabled; a second command plain / "
        "hidden / disabled / anonymous; descriptions absent / short / long; defaults of every type; widths 40, 80 and the "
        "precondition's boundary), renders the application page and every command page with the A-layer, checks the "
        "P-invariants on the lines and emits each behaviour; every page is rendered by the real ApplicationHelp / "
        "CommandHelp (plain and ANSI) and every help request run through ConsoleApplication.run in both forms, compared "
        "word by word and blank by blank; seeded random applications (up to 4 commands x 3 sub-commands, 3 arguments, 3 "
        "options, texts up to 40 words, the full default configuration, widths 40-200) are validated by HelpPageTrace.  "
        "Non-trivial: a rendered page of more than 12 lines"
    )
    ctx.assumptions += [
        "precondition: terminal width >= longest label (argument, option, command name, synopsis prefix) + 10 "
        "(indentation <= 6, padding 2, one character of text, one column kept free)",
        "a page lists X: outside the USAGE section some line starts with X's label (<name>, preferred option name followed by "
        "the alternative one in parentheses, command name); never shown: no word of the page is the name or an alias of a "
        "hidden or disabled command below the page's command",
        "help <path> and <path> --help/-h are run on freshly built applications (what a failed request leaves behind is C17)",
        "which of several default sub-commands a request resolves to is C03: any of them is accepted",
        "applications have no global arguments; option value names keep their default; descriptions are plain words (no "
        "markup, no braces); hidden/default/anonymous commands as generated; texts are single-blank separated words or lines",
        "the A-layer splits text at blanks only: applications with hyphenated words in wrapped text are checked against the "
        "P-clauses only",
    ]
    mism, samples = [], []
    counts = {"emitted": 0, "pages": 0, "requests": 0}
    # the replay of a behaviour is independent of every other one: a few worker processes share the work
    import multiprocessing

    pool = multiprocessing.get_context("fork").Pool(int(os.environ.get("VERIF_REPLAY_PROCS", "4")))
    pending = []

    def harvest(block):
        while pending and (block or pending[0].ready()):
            r = pending.pop(0).get(3600)
            counts["pages"] += r["pages"]
            counts["requests"] += r["requests"]
            ctx.count(r["pages"] + r["requests"])
            ctx.nontrivial_n += r["nontrivial"]
            if not r["same"]:
                mism.append((r["h"], r["trace"], r["case"]))
            elif r["trace"] is not None:
                samples.append((r["h"], r["trace"], r["case"]))

    try:
        for fam, cfgfile in FAMILIES[ctx.tier]:
            def sink(line):
                if not line.startswith('"'):
                    return False
                counts["emitted"] += 1
                pending.append(pool.apply_async(replay_behaviour, (line,)))
                if len(pending) > 2000:
                    harvest(False)
                return True

            before = counts["emitted"]
            ctx.model(SPEC, "MC_HelpPage", cfgfile, name="family-" + fam, workers=8, line_sink=sink)
            if counts["emitted"] - before < 100:
                raise T.MachineryError("family %s emitted only %d behaviours" % (fam, counts["emitted"] - before))
        harvest(True)
    finally:
        pool.terminate()
    mism = [(t, c) for _h, t, c in sorted(mism, key=lambda x: x[0])]
    samples = [(t, c) for _h, t, c in sorted(samples, key=lambda x: x[0])][:120]
    ctx.extra["tlc_behaviours_emitted"] = counts["emitted"]
    ctx.extra["pages_replayed"] = counts["pages"]
    ctx.extra["requests_replayed"] = counts["requests"]
    ctx.extra["tlc_behaviours_not_reproduced"] = len(mism)
    ctx.exhaustive = True

    # ---- code -> spec: seeded random applications, larger than TLC enumerates
    traces, cases = [], []
    for case in fixed_cases():  # the reproducers of the open known findings: always run, whatever the seed
        traces.append(record(case))
        cases.append(case)
        ctx.count(len(traces[-1]) - 1)
    nrand = 150 if quick else 2500
    rcases = [case for n in range(nrand) for case in subcases(random_case(ctx.rng, tags=(n % 10 == 9)))]
    pool = multiprocessing.get_context("fork").Pool(int(os.environ.get("VERIF_REPLAY_PROCS", "4")))
    try:
        rtraces = pool.map(record, rcases, chunksize=4)  # recording one application is independent of the others
    finally:
        pool.terminate()
    for tr, case in zip(rtraces, rcases):
        traces.append(tr)
        cases.append(case)
        ctx.count(len(tr) - 1)
        ctx.nontrivial_n += sum(1 for ev in tr if ev["op"] == "page" and len(ev["obs"]["lines"]) > 12)
    for tr, case in mism + samples:
        traces.append(tr)
        cases.append(case)
    first = len(fixed_cases())  # the first random application
    ev = traces[first][1]
    ctx.sample({"random_application": {"commands": [c["name"] for c in cases[first]["cfg"]["cmds"]], "T": cases[first]["T"]},
                "application_page": [" ".join(ln["w"]) for ln in ev["obs"]["lines"][:10]]})
    # one call: the engine decides the chunks side by side
    ctx.validate(SPEC, "HelpPageTrace", "HelpPageTrace.cfg", traces, cases=cases, name="recorded-pages", chunk=60 if quick else 120)


def replay(ctx, path):
    d = json.load(open(path))
    case = d.get("case") or {}
    tr = record(case)
    ctx.count(len(tr) - 1)
    ctx.nontriv("replay")
    ctx.nontriv("replay2")
    ctx.sample({"commands": [c["name"] for c in case["cfg"]["cmds"]], "T": case["T"], "ansi": case.get("ansi")})
    ctx.validate(SPEC, "HelpPageTrace", "HelpPageTrace.cfg", [tr], cases=[case], name="replay")
