import argparse
import importlib
import os
import sys
import traceback

from harness.engine.core import Ctx
from harness.engine.tlc import MachineryError


def main():
    ap = argparse.ArgumentParser()
    ap.add_argument("pid")
    ap.add_argument("--tier", default=os.environ.get("VERIF_TIER", "quick"), choices=["quick", "thorough"])
    ap.add_argument("--replay")
    ap.add_argument("--seed", type=int, default=int(os.environ.get("VERIF_SEED", "20261004")))
    a = ap.parse_args()
    pid = a.pid.upper()
    try:
        mod = importlib.import_module("harness.props." + pid.lower())
    except ImportError:
        traceback.print_exc()
        print("no check for %s" % pid)
        return 2
    ctx = Ctx(pid, a.tier, a.seed)
    try:
        if a.replay:
            ctx.tier = "quick"
            ctx.replay_mode = True
            mod.replay(ctx, a.replay)
        else:
            mod.run(ctx)
        return ctx.finish()
    except MachineryError as e:
        print("MACHINERY-ERROR %s: %s" % (pid, e))
        return 2
    except Exception:
        traceback.print_exc()
        print("MACHINERY-ERROR %s: harness exception" % pid)
        return 2


if __name__ == "__main__":
    sys.exit(main())
