"""Bytes -> terminal operations.  This is a *tokenizer*: it splits what a program wrote to a tty into the
operation records that specs/common/Terminal.tla interprets.  Nothing is emulated here - no cursor, no rows;
what the operations do to a screen is decided in TLA+ (Terminal!Apply).

    ops("ab\\n\\x1b[2A\\x1b[0J")  ->  [{"k": "text", "n": 0, "s": ["a", "b"]}, {"k": "lf", "n": 0, "s": []},
                                    {"k": "cuu", "n": 2, "s": []}, {"k": "ed", "n": 0, "s": []}]

Every record carries the same three keys (TLC turns JSON objects into records and a trace module must be able
to read every field of every event).  Kinds the Terminal module does not know are reported as
"csi:<final byte>", "esc" or "ctl:<code>" - Terminal!Known is FALSE for them; callers decide what that means
(for C15/C16: a machinery error in ANSI mode, a control code in plain mode).
"""
import re

_CSI_FINAL = {"A": "cuu", "B": "cud", "C": "cuf", "D": "cub", "J": "ed", "K": "el", "m": "sgr"}
_TOKEN = re.compile(
    r"(?P<csi>\x1b\[(?P<par>[0-9;:<=>?]*)(?P<inter>[ -/]*)(?P<fin>[@-~]))"
    r"|(?P<esc>\x1b[^\[]?)"
    r"|(?P<lf>\n)|(?P<cr>\r)|(?P<bs>\x08)"
    r"|(?P<ctl>[\x00-\x07\x09\x0b-\x0c\x0e-\x1a\x1c-\x1f\x7f])"
    r"|(?P<text>[^\x00-\x1f\x7f]+)",
    re.S,
)

KNOWN = frozenset(["text", "lf", "cr", "bs", "cuu", "cud", "cuf", "cub", "ed", "el", "sgr"])


def _op(k, n=0, s=()):
    return {"k": k, "n": n, "s": list(s)}


def ops(data, sym=None):
    """data: str (or bytes, decoded as UTF-8).  sym: optional dict mapping characters to 1-character ASCII
    stand-ins (TLC mangles non-ASCII characters when it prints them)."""
    if isinstance(data, bytes):
        data = data.decode("utf-8", "replace")
    out = []
    for m in _TOKEN.finditer(data):
        kind = m.lastgroup
        if m.group("csi") is not None:
            fin, par = m.group("fin"), m.group("par")
            k = _CSI_FINAL.get(fin)
            if k is None or m.group("inter") or (par and not par.isdigit() and k != "sgr"):
                out.append(_op("csi:" + par + m.group("inter") + fin))
            elif k == "sgr":
                out.append(_op("sgr"))
            else:
                out.append(_op(k, int(par) if par else 0))
        elif kind == "esc":
            out.append(_op("esc"))
        elif kind in ("lf", "cr", "bs"):
            out.append(_op(kind))
        elif kind == "ctl":
            out.append(_op("ctl:%d" % ord(m.group("ctl"))))
        else:
            s = m.group("text")
            out.append(_op("text", 0, [sym.get(c, c) for c in s] if sym else list(s)))
    return out


def unknown(op_list):
    """kinds that Terminal.tla cannot interpret"""
    bad = []
    for o in op_list:
        if o["k"] not in KNOWN or (o["k"] == "ed" and o["n"] not in (0, 2)) or (o["k"] == "el" and o["n"] not in (0, 1, 2)):
            bad.append(o["k"] if o["k"] not in ("ed", "el") else "%s%d" % (o["k"], o["n"]))
    return bad
