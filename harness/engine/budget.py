"""A time budget for one call into the library: a changed library that loops forever must end in a verdict (the observation
"DoesNotTerminate"), not in a hanging check.  SIGALRM based, main thread only; budgets do not nest."""
import signal


class Budget(BaseException):
    """the call took longer than its (very generous) budget"""


def call(fn, *args, seconds=10, **kw):
    """fn(*args, **kw) under an alarm; raises Budget when it does not return in time"""

    def on_alarm(signum, frame):
        raise Budget()

    old = signal.signal(signal.SIGALRM, on_alarm)
    signal.setitimer(signal.ITIMER_REAL, seconds)
    try:
        return fn(*args, **kw)
    finally:
        signal.setitimer(signal.ITIMER_REAL, 0)
        signal.signal(signal.SIGALRM, old)
