"""A time budget for one call into the library: a changed library that loops forever must end in a verdict (the observation
"DoesNotTerminate"), not in a hanging check.

The budget is counted in CPU time of this process (ITIMER_VIRTUAL): a busy loop burns it, a machine that is merely
overloaded does not, so the unchanged library cannot run out of budget because the host is slow.  The cyclic garbage
collector is switched off for the duration of the call: a full collection of a harness heap of several gigabytes takes
seconds of CPU time and would be billed to whatever call happens to trigger it.  A much longer wall-clock alarm stands
behind the CPU budget for calls that block without computing.  Main thread only; budgets do not nest."""
import gc
import signal


class Budget(BaseException):
    """the call took longer than its (very generous) budget"""


def call(fn, *args, seconds=10, wall=None, **kw):
    """fn(*args, **kw) under a CPU-time budget of `seconds` (and a wall-clock limit of `wall`, default 60 x seconds);
    raises Budget when it does not return in time"""

    def on_alarm(signum, frame):
        raise Budget()

    collecting = gc.isenabled()
    gc.disable()
    old_v = signal.signal(signal.SIGVTALRM, on_alarm)
    old_a = signal.signal(signal.SIGALRM, on_alarm)
    signal.setitimer(signal.ITIMER_VIRTUAL, seconds)
    signal.setitimer(signal.ITIMER_REAL, wall if wall is not None else 60 * seconds)
    try:
        return fn(*args, **kw)
    finally:
        signal.setitimer(signal.ITIMER_VIRTUAL, 0)
        signal.setitimer(signal.ITIMER_REAL, 0)
        signal.signal(signal.SIGVTALRM, old_v)
        signal.signal(signal.SIGALRM, old_a)
        if collecting:
            gc.enable()
