"""Run TLC and read what it says.  Nothing here decides a property: it transports.

run_tlc()      one TLC invocation (BFS or -simulate), summary numbers + raw lines
emitted()      records printed by the spec with PrintT(ToJson(rec))
tuples()       tuples printed by the spec with PrintT(<<"TAG", ...>>)
"""
import json
import os
import re
import shutil
import subprocess
import tempfile
import time

VERIF = os.path.dirname(os.path.dirname(os.path.dirname(os.path.abspath(__file__))))
SPECS = os.path.join(VERIF, "specs")
WORK = os.path.join(VERIF, ".work")
JAR = "/opt/veriftools/tla/tla2tools.jar:/opt/veriftools/tla/CommunityModules-deps.jar"


class MachineryError(Exception):
    """TLC crashed, output unparsable, coverage vacuous: exit status 2, never a verdict."""


class TlcResult(object):
    def __init__(self):
        self.lines = []
        self.exit = None
        self.generated = 0
        self.distinct = 0
        self.depth = 0
        self.violated = []  # names of invariants / properties TLC reported violated
        self.deadlock = False
        self.wall = 0.0
        self.cmd = ""
        self.coverage = {}  # action name -> (distinct, taken)
        self.counterexample = []  # raw lines of the error trace
        self.errors = []  # TLC error lines that are not invariant violations

    @property
    def ok(self):
        return not self.violated and not self.errors and not self.deadlock


_SUMMARY = re.compile(r"^(\d+) states generated, (\d+) distinct states found")
_DEPTH = re.compile(r"^The depth of the complete state graph search is (\d+)")
_INV = re.compile(r"^Error: Invariant (\S+) is violated")
_PROP = re.compile(r"^Error: (?:Action|Temporal) propert(?:y|ies) (\S*)")
_COV = re.compile(r"^<(\w+) line (\d+), col \d+ to line \d+, col \d+ of module (\w+)>: (\d+):(\d+)")
_SIMSTAT = re.compile(r"^The number of states generated: (\d+)")


def run_tlc(
    spec_dir,
    module,
    cfg,
    workers=16,
    simulate=None,
    depth=None,
    seed=None,
    env=None,
    timeout=3600,
    coverage=False,
    deadlock=False,
    dfs=False,
    heap="8g",
    extra=(),
    keep_lines=True,
    line_sink=None,
):
    """Run TLC on spec_dir/module.tla with spec_dir/cfg.  simulate = 'num=N' style string."""
    os.makedirs(WORK, exist_ok=True)
    meta = tempfile.mkdtemp(prefix="tlc_", dir=WORK)
    jopts = ["-XX:+UseParallelGC", "-Xmx" + heap, "-DTLA-Library=" + os.path.join(SPECS, "common")]
    jopts.append("-Djava.io.tmpdir=" + meta)  # TLC leaves an empty tlc-<n> directory per run in the JVM's temp dir
    if dfs:
        jopts.append("-Dtlc2.tool.queue.IStateQueue=StateDeque")
    cmd = ["java"] + jopts + ["-cp", JAR, "tlc2.TLC", "-noGenerateSpecTE", "-metadir", meta]
    cmd += ["-workers", str(workers), "-config", cfg]
    if not deadlock:
        cmd += ["-deadlock"]  # -deadlock switches deadlock checking OFF
    if simulate:
        cmd += ["-simulate", simulate]
    if depth:
        cmd += ["-depth", str(depth)]
    if seed is not None:
        cmd += ["-seed", str(seed)]
    if coverage:
        cmd += ["-coverage", "1"]
    cmd += list(extra) + [module]
    e = dict(os.environ)
    e.pop("JAVA_TOOL_OPTIONS", None)
    if env:
        e.update({k: str(v) for k, v in env.items()})
    res = TlcResult()
    res.cmd = " ".join(cmd)
    t0 = time.time()
    try:
        p = subprocess.Popen(
            cmd, cwd=spec_dir, env=e, stdout=subprocess.PIPE, stderr=subprocess.STDOUT, text=True, errors="replace"
        )
        in_trace = False
        try:
            for line in _iter_lines(p, timeout, t0):
                line = line.rstrip("\n")
                if line_sink is not None and line_sink(line):
                    continue
                if keep_lines:
                    res.lines.append(line)
                m = _SUMMARY.match(line)
                if m:
                    res.generated, res.distinct = int(m.group(1)), int(m.group(2))
                    continue
                m = _SIMSTAT.match(line)
                if m:
                    res.generated = int(m.group(1))
                    continue
                m = _DEPTH.match(line)
                if m:
                    res.depth = int(m.group(1))
                    continue
                m = _INV.match(line)
                if m:
                    res.violated.append(m.group(1))
                    in_trace = True
                    continue
                m = _PROP.match(line)
                if m:
                    res.violated.append(m.group(1) or "temporal")
                    in_trace = True
                    continue
                if line.startswith("Error: Deadlock reached"):
                    res.deadlock = True
                    in_trace = True
                    continue
                if line.startswith("Error:"):
                    if "behavior up to this point" in line or "The behavior up to" in line:
                        in_trace = True
                    else:
                        res.errors.append(line)
                    continue
                m = _COV.match(line)
                if m:
                    name = m.group(1)
                    d, t = int(m.group(4)), int(m.group(5))
                    od, ot = res.coverage.get(name, (0, 0))
                    res.coverage[name] = (od + d, ot + t)
                    continue
                if in_trace:
                    res.counterexample.append(line)
        except BaseException:
            p.kill()   # the reader stopped: TLC would block on its full output pipe and wait() would never return
            raise
        finally:
            p.wait()
        res.exit = p.returncode
    finally:
        res.wall = time.time() - t0
        shutil.rmtree(meta, ignore_errors=True)
    # TLC exit codes: 0 ok, 12 safety violation, 13 liveness, 11 deadlock, 10 assumption; others = failure
    if res.exit not in (0, 10, 11, 12, 13):
        tail = "\n".join(res.lines[-30:])
        raise MachineryError("TLC failed (exit %s) on %s/%s\n%s" % (res.exit, module, cfg, tail))
    if res.errors and not res.violated and not res.deadlock:
        raise MachineryError("TLC error on %s/%s: %s" % (module, cfg, res.errors[:3]))
    return res


def _iter_lines(p, timeout, t0):
    for line in p.stdout:
        yield line
        if time.time() - t0 > timeout:
            p.kill()
            raise MachineryError("TLC timed out after %ss" % timeout)


def parse_emit(line):
    """PrintT(ToJson(r)) prints a TLA+ string literal; its escapes coincide with JSON's."""
    if len(line) >= 2 and line[0] == '"' and line[-1] == '"':
        try:
            v = json.loads(line)
            if isinstance(v, str) and v[:1] in "{[":
                return json.loads(v)
        except ValueError:
            return None
    return None


def emitted(res):
    out = []
    for line in res.lines:
        r = parse_emit(line)
        if r is not None:
            out.append(r)
    return out


_TUP = re.compile(r'^<<"([A-Z]+)"(?:, (.*))?>>$')


def parse_tuple(line):
    """<<"ACCEPT", 3>>  /  <<"FAILCLAUSE", 3, 7, "P.calls", "key">>  ->  ("ACCEPT", [3])"""
    line = re.sub(r"\s+>>$", ">>", re.sub(r"^<<\s+", "<<", line.strip()))
    m = _TUP.match(line)
    if not m:
        return None
    tag, rest = m.group(1), m.group(2)
    if rest is None:
        return tag, []
    try:
        return tag, json.loads("[" + rest + "]")
    except ValueError:
        return None


_TUPSTART = re.compile(r'^<<\s*"[A-Z]+"')


def tuples(res, tags=None):
    """TLC pretty-prints values wider than 80 columns over several lines: join them back."""
    out = []
    pending = None
    for line in res.lines:
        if pending is not None:
            pending += " " + line.strip()
            if pending.endswith(">>"):
                t = parse_tuple(pending)
                if t is not None:
                    if tags is None or t[0] in tags:
                        out.append(t)
                    pending = None
                elif len(pending) > 4000:
                    pending = None
            continue
        t = parse_tuple(line)
        if t is not None:
            if tags is None or t[0] in tags:
                out.append(t)
        elif _TUPSTART.match(line):
            pending = line.strip()
    return out


def sany(spec_dir, module):
    cmd = ["java", "-DTLA-Library=" + os.path.join(SPECS, "common"), "-cp", JAR, "tla2sany.SANY", module]
    p = subprocess.run(cmd, cwd=spec_dir, stdout=subprocess.PIPE, stderr=subprocess.STDOUT, text=True)
    bad = p.returncode != 0 or "*** Errors" in p.stdout or "Fatal" in p.stdout or "Could not" in p.stdout
    return (not bad), p.stdout
