"""Check context: accumulates what a run covered, issues verdict lines, writes evidence and replays.

Verdicts come from TLC output only:
  * model runs   : an INVARIANT / PROPERTY reported violated by TLC
  * trace runs   : <<"FAIL", tid, l, clause, key>> printed by a *Trace module
  * conformance  : a TLC-generated behaviour (input + the model's output) that the real code does not
                   reproduce is sent through the *Trace module as an observed trace; only a FAIL there counts.
Python compares JSON values for equality and moves data.
"""
import json
import os
import random
import sys
import time

from . import tlc as T

VERIF = T.VERIF
# runs against another source tree (VERIF_REPO_SRC: seeded changes in scratch worktrees) must not overwrite the
# evidence / replays of the real tree
_ALT = bool(os.environ.get("VERIF_REPO_SRC"))
EVID = os.path.join(VERIF, ".work", "evidence_alt") if _ALT else os.path.join(VERIF, "evidence")
REPLAYS = os.path.join(VERIF, ".work", "replays_alt") if _ALT else os.path.join(VERIF, "replays")
KNOWN = os.path.join(VERIF, "known_findings.json")
COMMON = os.path.join(T.SPECS, "common")
LIB = ["-DTLA-Library=" + COMMON]


def load_known():
    if not os.path.exists(KNOWN):
        return []
    with open(KNOWN) as f:
        return json.load(f).get("findings", [])


def run_extension(ctx, name, fn):
    """an extension (A-clauses only) runs at the end of a property check: whatever goes wrong inside its driver under a
    changed library is a difference between model and code (DRIFT), never the verdict of the property and never a crash"""
    from harness.engine import tlc as T

    try:
        fn(ctx)
    except T.MachineryError:
        raise
    except Exception as e:  # noqa
        k = "A.ext.%s.driver_exception.%s" % (name, type(e).__name__)
        ctx.drift[k] = ctx.drift.get(k, 0) + 1


class Ctx(object):
    def __init__(self, pid, tier, seed):
        self.pid = pid
        self.tier = tier
        self.seed = seed
        self.rng = random.Random(seed)
        self.t0 = time.time()
        self.states = 0
        self.transitions = 0
        self.traces = 0
        self.evaluations = 0
        self.nontrivial = set()
        self.nontrivial_n = 0
        self.samples = []
        self.violations = []  # dicts
        self.known_hits = {}  # finding id -> count
        self.drift = {}  # clause -> count
        self.runs = []  # per-TLC-run info
        self.assumptions = []
        self.rule = ""
        self.exhaustive = None
        self.extra = {}
        self.replay_mode = False  # --replay runs do not overwrite the evidence of the last full run
        self.known = [k for k in load_known() if k.get("property") == pid and k.get("status") == "open"]
        self.stale_known = []

    # ---------------------------------------------------------------- TLC runs
    def model(self, spec_dir, module, cfg, name=None, expect_ok=True, **kw):
        """Exhaustive / simulation run of a model.  A reported invariant violation is a model-level finding:
        the caller decides (by replaying the counterexample on the code) whether it is a VIOLATION."""
        kw.setdefault("coverage", False)
        jextra = kw.pop("extra", ())
        r = _run(spec_dir, module, cfg, extra=jextra, **kw)
        self.states += r.distinct
        self.transitions += r.generated
        self.runs.append(
            {
                "run": name or (module + "/" + cfg),
                "states": r.distinct,
                "transitions": r.generated,
                "depth": r.depth,
                "wall_s": round(r.wall, 1),
                "violated": r.violated,
                "mode": "simulate" if kw.get("simulate") else "bfs",
                "coverage": {k: v[1] for k, v in r.coverage.items()} if r.coverage else None,
            }
        )
        if expect_ok and not r.ok:
            # a P-invariant is false in the A-layer itself
            self.model_violation(module, cfg, r)
        return r

    def model_violation(self, module, cfg, r):
        path = self._replay_path("model_%s_%s" % (module, "_".join(r.violated) or "error"))
        with open(path, "w") as f:
            json.dump(
                {
                    "property": self.pid,
                    "kind": "model",
                    "module": module,
                    "cfg": cfg,
                    "violated": r.violated,
                    "deadlock": r.deadlock,
                    "counterexample": r.counterexample[:400],
                },
                f,
                indent=1,
            )
        self.violations.append({"kind": "model", "clause": ",".join(r.violated) or "deadlock", "replay": path})

    def validate(self, spec_dir, module, cfg, traces, name=None, cases=None, timeout=3600, heap="4g", env=None,
                 workers=1, chunk=2500, procs=None):
        """Trace validation: returns per-trace verdict list [('ACCEPT',)|('FAIL', l, clause, key)].
        FAILs become VIOLATION / KNOWN-FINDING here; DRIFT is counted.  Large batches are split into chunks,
        each decided by its own TLC process (single worker: the printed verdict tuples stay line-atomic)."""
        if not traces:
            return []
        if procs is None:
            procs = int(os.environ.get("VERIF_TRACE_PROCS", "6"))
        parts = [(k, traces[k : k + chunk]) for k in range(0, len(traces), chunk)]
        results = {}

        def work(part):
            k, ts = part
            return k, self._validate_chunk(spec_dir, module, cfg, ts, k, timeout, heap, env, workers)

        if len(parts) == 1:
            k, res = work(parts[0])
            results[k] = res
        else:
            from concurrent.futures import ThreadPoolExecutor

            with ThreadPoolExecutor(max_workers=procs) as ex:
                for k, res in ex.map(work, parts):
                    results[k] = res
        verdicts = []
        for k, ts in parts:
            r, acc, fail, drift = results[k]
            if r.violated or r.deadlock:
                # invariants of a trace spec are P-clauses evaluated on observed states
                self.model_violation(module, cfg, r)
            for c, n in drift.items():
                self.drift[c] = self.drift.get(c, 0) + n
            vs = []
            for i in range(1, len(ts) + 1):
                if i in fail and i in acc:
                    raise T.MachineryError("trace %d of %s/%s both accepted and rejected" % (k + i, module, cfg))
                if i in fail:
                    vs.append(("FAIL",) + fail[i])
                elif i in acc:
                    vs.append(("ACCEPT",))
                else:
                    raise T.MachineryError(
                        "trace %d of %s/%s neither accepted nor rejected with a named clause\n%s"
                        % (k + i, module, cfg, "\n".join(r.lines[-25:]))
                    )
            self.traces += len(ts)
            self.states += r.distinct
            self.transitions += r.generated
            self.runs.append(
                {
                    "run": name or (module + "/" + cfg),
                    "mode": "trace-validation",
                    "traces": len(ts),
                    "events": sum(len(t) for t in ts),
                    "states": r.distinct,
                    "accepted": len([v for v in vs if v[0] == "ACCEPT"]),
                    "rejected": len([v for v in vs if v[0] == "FAIL"]),
                    "wall_s": round(r.wall, 1),
                }
            )
            for i, v in enumerate(vs):
                if v[0] == "FAIL":
                    self._fail(module, cfg, ts[i], v, cases[k + i] if cases else None)
            verdicts += vs
        return verdicts

    def _validate_chunk(self, spec_dir, module, cfg, traces, k, timeout, heap, env, workers):
        os.makedirs(T.WORK, exist_ok=True)
        tf = os.path.join(T.WORK, "trace_%s_%d_%d_%d.json" % (self.pid, os.getpid(), len(self.runs), k))
        with open(tf, "w") as f:
            json.dump(traces, f)
        e = {"TRACE_FILE": tf}
        if env:
            e.update(env)
        try:
            r = _run(spec_dir, module, cfg, workers=workers, env=e, timeout=timeout, heap=heap)
        finally:
            try:
                os.unlink(tf)
            except OSError:
                pass
        acc = set()
        fail = {}
        drift = {}
        for tag, a in T.tuples(r, ("ACCEPT", "FAIL", "DRIFT")):
            if tag == "ACCEPT":
                acc.add(a[0])
            elif tag == "FAIL":
                fail.setdefault(a[0], (a[1], a[2], a[3] if len(a) > 3 else ""))
            elif tag == "DRIFT":
                drift[a[2]] = drift.get(a[2], 0) + 1
        return r, acc, fail, drift

    def _fail(self, module, cfg, trace, v, case):
        _, l, clause, key = v
        for k in self.known:
            if k.get("clause") == clause and k.get("key", "") == (key or ""):
                self.known_hits[k["id"]] = self.known_hits.get(k["id"], 0) + 1
                return
        sig = (clause, key)
        n = sum(1 for x in self.violations if x.get("sig") == sig)
        if n >= 3:  # keep three replays per signature, count the rest
            for x in self.violations:
                if x.get("sig") == sig:
                    x["count"] = x.get("count", 1) + 1
                    break
            return
        path = self._replay_path("%s_%s_%d" % (clause.replace(".", "_"), (key or "x")[:30].replace("/", "_"), n))
        with open(path, "w") as f:
            json.dump(
                {
                    "property": self.pid,
                    "kind": "trace",
                    "module": module,
                    "cfg": cfg,
                    "failing_event": l,
                    "clause": clause,
                    "key": key,
                    "seed": self.seed,
                    "case": case,
                    "trace": trace,
                },
                f,
                indent=1,
                default=str,
            )
        self.violations.append({"kind": "trace", "clause": clause, "key": key, "sig": sig, "replay": path, "count": 1})

    def _replay_path(self, stem):
        d = os.path.join(REPLAYS, self.pid)
        os.makedirs(d, exist_ok=True)
        return os.path.join(d, "%s_%s.json" % (self.tier, stem))

    # ---------------------------------------------------------------- bookkeeping
    def count(self, n=1):
        self.evaluations += n

    def nontriv(self, key):
        """key: hashable identifying a distinct non-trivial case"""
        self.nontrivial.add(key)

    def sample(self, x, limit=6):
        if len(self.samples) < limit:
            self.samples.append(x)

    # ---------------------------------------------------------------- finish
    def finish(self):
        wall = time.time() - self.t0
        for k in self.known:
            if k["id"] in self.known_hits:
                print("KNOWN-FINDING: property=%s %s (%d occurrences this run)" % (self.pid, k["what"], self.known_hits[k["id"]]))
            else:
                self.stale_known.append(k["id"])
        total_viol = 0
        for v in self.violations:
            total_viol += v.get("count", 1)
            print(
                "VIOLATION property=%s replay=%s clause=%s%s"
                % (self.pid, v["replay"], v["clause"], (" x%d" % v["count"]) if v.get("count", 1) > 1 else "")
            )
        for c, n in sorted(self.drift.items()):
            print("DRIFT property=%s clause=%s count=%d (A-layer differs from the code; no property clause broken)" % (self.pid, c, n))
        nd = len(self.nontrivial) + self.nontrivial_n
        cov = {
            "states": self.states,
            "transitions": self.transitions,
            "traces_validated_against_impl": self.traces,
            "samples": self.samples or ["(no sample recorded)"],
            "evaluations": self.evaluations,
            "distinct_nontrivial": nd,
            "rule": self.rule,
            "runs": self.runs,
            "drift": self.drift,
            "known_findings_seen": self.known_hits,
            "known_findings_not_reproduced": self.stale_known,
        }
        if self.exhaustive is not None:
            cov["exhaustive"] = bool(self.exhaustive)
        cov.update(self.extra)
        ev = {
            "property_id": self.pid,
            "tier": self.tier,
            "seed": self.seed,
            "level": "model_checking",
            "coverage": cov,
            "assumptions": self.assumptions,
            "wall_s": round(wall, 2),
            "violations": total_viol,
        }
        evid = os.path.join(VERIF, ".work", "evidence_replay") if self.replay_mode else EVID
        os.makedirs(evid, exist_ok=True)
        with open(os.path.join(evid, self.pid + ".json"), "w") as f:
            json.dump(ev, f, indent=1, default=str)
        print(
            "%s %s: states=%d transitions=%d traces=%d evaluations=%d nontrivial=%d violations=%d known=%d drift=%d wall=%.1fs"
            % (self.pid, self.tier, self.states, self.transitions, self.traces, self.evaluations, nd, total_viol,
               sum(self.known_hits.values()), sum(self.drift.values()), wall)
        )
        return 1 if self.violations else 0


def _run(spec_dir, module, cfg, extra=(), **kw):
    return T.run_tlc(spec_dir, module, cfg, extra=extra, **kw)


def chunks(seq, n):
    for i in range(0, len(seq), n):
        yield seq[i : i + n]
