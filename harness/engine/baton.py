"""Deterministic baton scheduler for code that uses `threading` and `time` (property C19).

The code under test runs on *real* threads, but exactly one of them holds the baton at any moment: every
logical thread blocks at each of its *yield points* until the controller grants it the next step; a step runs
from one yield point to the next one (or to the end of the thread).  A schedule is therefore a sequence of
logical thread ids (plus "T" = advance the virtual clock) and one schedule gives one execution - always the
same one.  Nothing here waits for wall-clock time to pass: `sleep` is a wait for the *virtual* clock, and the
only real-time value is a watchdog that turns a thread that never comes back into a machinery error (never
into a verdict).

Yield points (the granularity of the property statement: individual stream writes and sleeps, plus the
synchronisation operations):
    write    BatonStream.write              (before the characters reach the stream)
    sleep    time.sleep(s)                  enabled when clock >= clock-at-call + s
    start    Thread.start()                 the child runs up to its first yield point inside this step
    join     Thread.join()                  enabled when the target has ended (or the time-out has passed)
    set      Event.set()  (before the flag is set)      setret  the return from Event.set()  (after it)
    isset    Event.is_set()      clear  Event.clear()
    wait     Event.wait(t)                  enabled when the flag is set or the time-out has passed
    acquire  Lock.acquire() / `with lock`   enabled when the lock is free (RLock: or owned by the caller)
    work     Baton.work()                   an explicit yield point for the body of the caller
Not yield points: reading the clock (time.time(), monotonic()), Lock.release(), Thread.is_alive(), creating
objects.  What a thread does between two yield points is atomic with respect to the other threads.

Use:
    b = Baton()
    module.threading, module.time = b.threading, b.time          # substitute the shims (caller restores)
    stream = b.stream()                                           # an OutputStream whose writes are yield points
    b.spawn("M", fn)                                              # logical main thread; runs up to its first yield point
    b.enabled() -> ["M", "S", "T"...]; b.step("M") -> event dict; b.tick(100); b.done("M")
    b.shutdown()                                                  # always: aborts whatever is still waiting
Threads created by the code through the shim are named "S", "S2", "S3" ... in creation order.
"""
import threading as _rt  # the real module: used by the scheduler itself, never handed to the code under test
import time as _real_time


class BatonAbort(BaseException):
    """raised inside a managed thread at a yield point when the controller shuts down (BaseException: an
    `except Exception` in the code under test must not swallow it)"""


class BatonStuck(Exception):
    """a granted thread did not reach its next yield point within the watchdog time: machinery error"""


class ScheduleError(Exception):
    """the controller was asked to grant a step to a thread that is not enabled"""


class _LT(object):
    """a logical thread"""

    def __init__(self, name):
        self.name = name
        self.real = None
        self.status = "new"  # new | waiting | running | done
        self.pending = None  # (kind, info) of the yield point it waits at
        self.granted = False
        self.exc = None  # exception that ended the thread
        self.steps = 0


class Baton(object):
    def __init__(self, watchdog=30.0, clock0_ms=0):
        self._cv = _rt.Condition()
        self._by_ident = {}
        self.threads = {}  # name -> _LT (insertion order = creation order)
        self.clock_ms = clock0_ms
        self._aborting = False
        self._watchdog = watchdog
        self._nshim = 0
        self.writes = []  # (thread name or "", text) in stream order
        self._step_writes = []
        self.threading = ThreadingShim(self)
        self.time = TimeShim(self)

    # ------------------------------------------------------------------ called from managed threads
    def _me(self):
        return self._by_ident.get(_rt.get_ident())

    def yield_point(self, kind, **info):
        lt = self._me()
        if lt is None:  # the controller itself (or a foreign thread): not scheduled
            return None
        with self._cv:
            lt.pending = (kind, info)
            lt.status = "waiting"
            self._cv.notify_all()
            while not lt.granted:
                if self._aborting:
                    raise BatonAbort()
                self._cv.wait(0.5)
            if self._aborting:
                raise BatonAbort()
            lt.granted = False
            lt.pending = None
        return lt

    def work(self):
        self.yield_point("work")

    def _run(self, lt, fn, args, kwargs):
        self._by_ident[_rt.get_ident()] = lt
        try:
            fn(*args, **kwargs)
        except BatonAbort:
            lt.exc = None
        except BaseException as e:  # noqa: the end of the thread is an observation
            lt.exc = e
        finally:
            with self._cv:
                lt.status = "done"
                lt.pending = None
                self._cv.notify_all()

    def _launch(self, name, fn, args=(), kwargs=None):
        """start a real thread for logical thread `name` and wait until it is at its first yield point (or
        has ended).  Called by the controller (spawn) or, inside a granted step, by Thread.start()."""
        lt = self.threads[name]
        with self._cv:
            lt.status = "running"
        t = _rt.Thread(target=self._run, args=(lt, fn, args, kwargs or {}), name="baton-" + name)
        t.daemon = True
        lt.real = t
        t.start()
        self._await(lt)

    def _await(self, lt):
        """block until the running logical thread `lt` waits at a yield point again or has ended"""
        t0 = _real_time.time()
        with self._cv:
            while lt.status == "running":
                self._cv.wait(0.5)
                if lt.status == "running" and _real_time.time() - t0 > self._watchdog:
                    raise BatonStuck("thread %s did not reach a yield point within %ss" % (lt.name, self._watchdog))

    # ------------------------------------------------------------------ controller side
    def spawn(self, name, fn, *args, **kwargs):
        if name in self.threads:
            raise ValueError("duplicate logical thread " + name)
        self.threads[name] = _LT(name)
        self._launch(name, fn, args, kwargs)

    def retire(self):
        """forget the logical threads that have ended: a following run in the same process can use the names "M", "S" again"""
        for name in [n for n, lt in self.threads.items() if lt.status == "done"]:
            del self.threads[name]
        self._nshim = len([n for n in self.threads if n != "M"])

    def _new_name(self):
        self._nshim += 1
        return "S" if self._nshim == 1 else "S%d" % self._nshim

    def is_enabled(self, name):
        lt = self.threads.get(name)
        if lt is None or lt.status != "waiting" or lt.pending is None:
            return False
        kind, info = lt.pending
        if kind == "sleep":
            return self.clock_ms >= info["deadline"]
        if kind == "join":
            tgt = info["target"]
            return tgt.status == "done" or (info["deadline"] is not None and self.clock_ms >= info["deadline"])
        if kind == "wait":
            return info["event"]._flag or (info["deadline"] is not None and self.clock_ms >= info["deadline"])
        if kind == "acquire":
            return info["lock"]._free_for(lt) or not info["blocking"] or (
                info["deadline"] is not None and self.clock_ms >= info["deadline"])
        return True

    def enabled(self):
        """names of the logical threads that can take a step now (creation order)"""
        return [n for n in self.threads if self.is_enabled(n)]

    def pending(self, name):
        lt = self.threads.get(name)
        return lt.pending[0] if lt is not None and lt.pending else None

    def done(self, name):
        lt = self.threads.get(name)
        return lt is not None and lt.status == "done"

    def started(self, name):
        lt = self.threads.get(name)
        return lt is not None and lt.status != "new"

    def alive(self):
        """started logical threads that have not ended"""
        return [n for n, lt in self.threads.items() if lt.status in ("waiting", "running")]

    def exception(self, name):
        return self.threads[name].exc

    def tick(self, ms):
        self.clock_ms += ms

    def step(self, name):
        """grant one step; returns {"th", "op", "text": what the step wrote, "done": thread ended}"""
        if not self.is_enabled(name):
            raise ScheduleError("thread %s is not enabled (pending %r)" % (name, self.pending(name)))
        lt = self.threads[name]
        kind = lt.pending[0]
        self._step_writes = []
        with self._cv:
            lt.status = "running"  # the baton is handed over; it comes back when the status changes again
            lt.granted = True
            lt.steps += 1
            self._cv.notify_all()
        self._await(lt)
        return {"th": name, "op": kind, "text": "".join(self._step_writes), "done": lt.status == "done"}

    def shutdown(self):
        with self._cv:
            self._aborting = True
            self._cv.notify_all()
        for lt in list(self.threads.values()):
            if lt.real is not None:
                lt.real.join(5.0)

    def stream(self, ansi=True, utf8=True):
        return _make_stream(self, ansi, utf8)

    def _wrote(self, text):
        lt = self._me()
        self.writes.append((lt.name if lt else "", text))
        self._step_writes.append(text)


# ---------------------------------------------------------------------- the shims
class ShimEvent(object):
    def __init__(self, baton):
        self._b = baton
        self._flag = False

    def set(self):
        self._b.yield_point("set")
        self._flag = True
        # set() wakes waiters: the moment it returns is a scheduling point of its own (what the caller does next - for
        # instance looking up the thread it is going to join - is not atomic with the signal)
        self._b.yield_point("setret")

    def clear(self):
        self._b.yield_point("clear")
        self._flag = False

    def is_set(self):
        self._b.yield_point("isset")
        return self._flag

    isSet = is_set

    def wait(self, timeout=None):
        dl = None if timeout is None else self._b.clock_ms + int(round(timeout * 1000))
        self._b.yield_point("wait", event=self, deadline=dl)
        return self._flag


class ShimLock(object):
    reentrant = False

    def __init__(self, baton):
        self._b = baton
        self._owner = None
        self._count = 0

    def _free_for(self, lt):
        return self._owner is None or (self.reentrant and self._owner is lt)

    def acquire(self, blocking=True, timeout=-1):
        lt = self._b._me()
        dl = None if timeout is None or timeout < 0 else self._b.clock_ms + int(round(timeout * 1000))
        self._b.yield_point("acquire", lock=self, blocking=blocking, deadline=dl)
        if not self._free_for(lt):
            return False
        self._owner = lt if lt is not None else "controller"
        self._count += 1
        return True

    def release(self):
        if self._owner is None:
            raise RuntimeError("release unlocked lock")
        self._count -= 1
        if self._count == 0:
            self._owner = None

    def locked(self):
        return self._owner is not None

    def __enter__(self):
        self.acquire()
        return self

    def __exit__(self, *a):
        self.release()
        return False


class ShimRLock(ShimLock):
    reentrant = True


class ShimThread(object):
    def __init__(self, baton, group=None, target=None, name=None, args=(), kwargs=None, daemon=None):
        self._b = baton
        self._target = target
        self._args = args
        self._kwargs = kwargs or {}
        self.name = name or "shim"
        self.daemon = daemon
        self._lname = baton._new_name()
        baton.threads[self._lname] = _LT(self._lname)

    def run(self):
        if self._target is not None:
            self._target(*self._args, **self._kwargs)

    def start(self):
        lt = self._b.threads[self._lname]
        if lt.status != "new":
            raise RuntimeError("threads can only be started once")
        self._b.yield_point("start")
        self._b._launch(self._lname, self.run)

    def join(self, timeout=None):
        lt = self._b.threads[self._lname]
        if lt.status == "new":
            raise RuntimeError("cannot join thread before it is started")
        dl = None if timeout is None else self._b.clock_ms + int(round(timeout * 1000))
        self._b.yield_point("join", target=lt, deadline=dl)

    def is_alive(self):
        return self._b.threads[self._lname].status in ("waiting", "running")

    isAlive = is_alive

    def setDaemon(self, d):
        self.daemon = d


class ThreadingShim(object):
    """stands in for the `threading` module inside the module under test"""

    def __init__(self, baton):
        self._b = baton

    def Event(self):
        return ShimEvent(self._b)

    def Lock(self):
        return ShimLock(self._b)

    def RLock(self):
        return ShimRLock(self._b)

    def Thread(self, *a, **kw):
        return ShimThread(self._b, *a, **kw)

    def current_thread(self):
        return _rt.current_thread()

    def get_ident(self):
        return _rt.get_ident()


class TimeShim(object):
    """stands in for the `time` module: a virtual clock in integer milliseconds"""

    def __init__(self, baton):
        self._b = baton

    def time(self):
        return self._b.clock_ms / 1000.0

    monotonic = time
    perf_counter = time

    def sleep(self, s):
        self._b.yield_point("sleep", deadline=self._b.clock_ms + int(round(s * 1000)))


def _make_stream(baton, ansi, utf8):
    from clikit.api.io.output_stream import OutputStream

    class BatonStream(OutputStream):
        def __init__(self):
            self._closed = False

        def write(self, string):
            baton.yield_point("write")
            baton._wrote(string)

        def flush(self):
            pass

        def supports_ansi(self):
            return ansi

        def supports_utf8(self):
            return utf8

        def close(self):
            self._closed = True

        def is_closed(self):
            return self._closed

    return BatonStream()
