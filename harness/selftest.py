"""setup: every module parses; the trace machinery rejects a corrupted record and a dropped event."""
import glob
import os
import sys

from harness.engine import tlc as T
from harness.engine.core import Ctx


def main():
    bad = 0
    # only the specification directories of registered checks (others may be under construction)
    CHECKS = {}

    def check(pid, modules, *a):
        CHECKS[pid] = modules

    exec(open(os.path.join(T.VERIF, "tools", "manifest_entries.py")).read(), {"check": check, "PENDING": {}})
    dirs = sorted({m for ms in CHECKS.values() for m in ms if os.path.isdir(os.path.join(T.SPECS, m))})
    mods = [f for d in dirs for f in sorted(glob.glob(os.path.join(T.SPECS, d, "*.tla")))]
    from concurrent.futures import ThreadPoolExecutor

    def parse(m):
        d, f = os.path.split(m)
        return (m,) + T.sany(d, f[:-4])

    with ThreadPoolExecutor(max_workers=8) as ex:
        for m, ok, out in ex.map(parse, mods):
            if not ok:
                bad += 1
                print("SANY FAILED", m)
                print(out[-2000:])
    print("selftest: %d modules parsed, %d failed" % (len(mods), bad))
    if bad:
        return 2
    # binding demonstration on the Tokenizer trace spec
    from harness.props import c08

    good = c08.observe("a 'b c' -- d")
    corrupt = c08.observe("a 'b c' -- d")
    corrupt["obs"]["opt"] = corrupt["obs"]["toks"]  # pretend tokens after -- count as option tokens
    lost = c08.observe("x y", ["x", "y"])
    lost["obs"]["toks"] = lost["obs"]["toks"][:1]  # drop a token
    lost["obs"]["toksAfter"] = lost["obs"]["toks"]
    ctx = Ctx("SELFTEST", "quick", 0)
    v = ctx.validate(c08.SPEC, "TokenizerTrace", "TokenizerTrace.cfg", [[good], [corrupt], [lost]])
    want = ["ACCEPT", "FAIL", "FAIL"]
    got = [x[0] for x in v]
    print("selftest: trace verdicts", v)
    if got != want:
        print("selftest: binding demonstration FAILED")
        return 2
    return 0


if __name__ == "__main__":
    sys.exit(main())
