SPECIFICATION HSpec
CONSTANTS
  Events <- MCEvents
  RegEvents <- MCReg
  Prios <- MCPrios
  Spawns <- NoSpawns
  MaxListeners = 4
  Depth = 4
INVARIANT DispatchCorrect
INVARIANT CacheCoherent
INVARIANT Emit
