SPECIFICATION BSpec
CONSTANTS
  Events <- MCEvents
  RegEvents <- MCReg
  Prios <- MCPrios
  Spawns <- NoSpawns
  MaxListeners = 5
  Depth = 0
INVARIANT DispatchCorrect
INVARIANT OnlyOwnEvent
INVARIANT EachOnce
INVARIANT GetCorrect
INVARIANT HasCorrect
INVARIANT PrioCorrect
INVARIANT CacheCoherent
