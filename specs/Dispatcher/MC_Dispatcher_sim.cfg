SPECIFICATION FullSpec
CONSTANTS
  Events <- MCEventsE
  RegEvents <- MCRegE
  Prios <- MCPrios
  Spawns <- MCSpawns
  MaxListeners = 8
  Depth = 14
INVARIANT DispatchCorrect
INVARIANT GetCorrect
INVARIANT HasCorrect
INVARIANT PrioCorrect
INVARIANT CacheCoherent
INVARIANT Emit
