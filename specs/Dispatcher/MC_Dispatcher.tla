--------------------------- MODULE MC_Dispatcher ---------------------------
(* Two uses of one Spec:
   - plain BFS over the abstract state (invariants on every reachable state);
   - with the history variable `hist`, every operation *sequence* up to Depth becomes a state, and the
     maximal ones are emitted as JSON behaviours for replay on the real EventDispatcher.               *)
EXTENDS Dispatcher, Json

CONSTANT Depth
VARIABLE hist
hvars == <<vars, hist>>

MCEvents == {"e1", "e2", "e3"}
MCReg == {"e1", "e2"}
MCPrios == {-1, 0, 5}
\* the empty string is a legal event name too (simulation and recorded traces)
MCEventsE == {"e1", "e2", "e3", ""}
MCRegE == {"e1", "e2", ""}
MCSpawns == {NoSpawn, [ev |-> "e1", prio |-> 5], [ev |-> "e2", prio |-> 0]}
NoSpawns == {NoSpawn}

HInit == Init /\ hist = <<>>
\* a reduced operation menu keeps the number of sequences enumerable
HNext == /\ Len(hist) < Depth
         /\ \/ \E e \in RegEvents, p \in Prios, st \in BOOLEAN, sp \in Spawns : Add(e, p, st, sp)
            \/ \E e \in Events, pre \in BOOLEAN : Dispatch(e, pre)
            \/ \E e \in RegEvents : GetListeners(e)
            \/ GetAll
         /\ hist' = Append(hist, last')
HSpec == HInit /\ [][HNext]_hvars

\* plain exploration of the abstract state space (hist stays empty)
BSpec == HInit /\ [][Next /\ UNCHANGED hist]_hvars

FullNext == Len(hist) < Depth /\ Next /\ hist' = Append(hist, last')
FullSpec == HInit /\ [][FullNext]_hvars

\* for Add the arguments are needed to replay; they are recoverable from regs
Beh == [k \in 1..Len(hist) |->
          IF hist[k].op = "add" THEN [op |-> "add", id |-> hist[k].id, ev |-> regs[hist[k].id].ev,
                                      prio |-> regs[hist[k].id].prio, stops |-> regs[hist[k].id].stops,
                                      spawn |-> regs[hist[k].id].spawn]
          ELSE hist[k]]
Emit == Len(hist) = Depth => PrintT(ToJson(Beh))
DepthBound == Len(hist) <= Depth
=============================================================================
