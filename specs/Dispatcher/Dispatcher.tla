----------------------------- MODULE Dispatcher -----------------------------
(* clikit.api.event.EventDispatcher  (property C12)

   P-layer: regs (what was registered, in order) and the order the property demands:
            stable sort by descending priority, cut after the first listener that stops propagation.
   A-layer: the implementation's two dictionaries - byPrio (event -> priority -> listeners, both in
            insertion order) and cache (event -> sorted listener list, dropped by add_listener) -
            and the operations as the code performs them.  TLC checks A => P.                       *)
EXTENDS Integers, Sequences, FiniteSets, TLC

CONSTANTS Spawns,        \* what a listener may register when it is called: NoSpawn or [ev, prio]
          Events,        \* every event name that may be used (registered or only dispatched)
          RegEvents,     \* the ones listeners are registered for
          Prios,
          MaxListeners

VARIABLES regs,     \* P: Seq of [id, ev, prio, stops, spawn] in registration order
          byPrio,   \* A: [Events -> Seq([prio, ids])]   _listeners[ev] (dict in insertion order)
          known,    \* A: set of events present as keys of _listeners
          cache,    \* A: [Events -> Seq(id) or NoCache]  _sorted
          last      \* observation of the last operation
vars == <<regs, byPrio, known, cache, last>>

NoCache == <<-1>>
NoSpawn == [ev |-> "<none>", prio |-> 0]
NoPrio == -999

\* ------------------------------------------------------------------ P-layer
RegsOf(e) == SelectSeq(regs, LAMBDA r : r.ev = e)

RECURSIVE InsertByPrio(_, _)
InsertByPrio(sorted, r) ==
  IF sorted = <<>> THEN <<r>>
  ELSE IF Head(sorted).prio >= r.prio THEN <<Head(sorted)>> \o InsertByPrio(Tail(sorted), r)
  ELSE <<r>> \o sorted
RECURSIVE SortRegs(_)
SortRegs(rs) == IF rs = <<>> THEN <<>> ELSE InsertByPrio(SortRegs(SubSeq(rs, 1, Len(rs) - 1)), rs[Len(rs)])

Order(e) == SortRegs(RegsOf(e))                 \* highest priority first, registration order among equals
Ids(rs) == [k \in 1..Len(rs) |-> rs[k].id]

RECURSIVE Calls(_)                              \* listeners actually called: stop after the first that stops
Calls(rs) == IF rs = <<>> THEN <<>>
             ELSE IF Head(rs).stops THEN <<Head(rs).id>> ELSE <<Head(rs).id>> \o Calls(Tail(rs))

Reg(id) == regs[id]                             \* ids are registration indices

\* ------------------------------------------------------------------ A-layer helpers
PrioIdx(m, p) == IF \E k \in 1..Len(m) : m[k].prio = p THEN CHOOSE k \in 1..Len(m) : m[k].prio = p ELSE 0
AddTo(m, p, id) == IF PrioIdx(m, p) = 0 THEN Append(m, [prio |-> p, ids |-> <<id>>])
                   ELSE [m EXCEPT ![PrioIdx(m, p)].ids = Append(@, id)]
RECURSIVE InsertDesc(_, _)
InsertDesc(sorted, x) == IF sorted = <<>> THEN <<x>>
                         ELSE IF Head(sorted).prio >= x.prio THEN <<Head(sorted)>> \o InsertDesc(Tail(sorted), x)
                         ELSE <<x>> \o sorted
RECURSIVE SortDesc(_)
SortDesc(m) == IF m = <<>> THEN <<>> ELSE InsertDesc(SortDesc(SubSeq(m, 1, Len(m) - 1)), m[Len(m)])
RECURSIVE Flatten(_)
Flatten(m) == IF m = <<>> THEN <<>> ELSE Head(m).ids \o Flatten(Tail(m))
SortedIds(e) == Flatten(SortDesc(byPrio[e]))     \* _sort_listeners

\* get_listeners(e): fills the cache
Listeners(e) == IF e \notin known THEN <<>> ELSE IF cache[e] = NoCache THEN SortedIds(e) ELSE cache[e]
CacheAfterGet(e) == IF e \notin known THEN cache ELSE [cache EXCEPT ![e] = Listeners(e)]

Init == /\ regs = <<>> /\ byPrio = [e \in Events |-> <<>>] /\ known = {}
        /\ cache = [e \in Events |-> NoCache] /\ last = [op |-> "init"]

\* registering listener number id for event e: both dictionaries and the cache entry of e
Register(st, r) ==
  [regs |-> Append(st.regs, r),
   byPrio |-> [st.byPrio EXCEPT ![r.ev] = AddTo(@, r.prio, r.id)],
   known |-> st.known \cup {r.ev},
   cache |-> [st.cache EXCEPT ![r.ev] = NoCache]]          \* registration invalidates the sorted list
Cur == [regs |-> regs, byPrio |-> byPrio, known |-> known, cache |-> cache]

Add(e, p, st, sp) ==
  /\ Len(regs) < MaxListeners /\ e \in RegEvents
  /\ LET id == Len(regs) + 1
         nx == Register(Cur, [id |-> id, ev |-> e, prio |-> p, stops |-> st, spawn |-> sp])
     IN /\ regs' = nx.regs /\ byPrio' = nx.byPrio /\ known' = nx.known /\ cache' = nx.cache
        /\ last' = [op |-> "add", id |-> id]

\* listeners that register another listener when they are called do so while the dispatch iterates over the list it
\* obtained at its start: the newcomers take part from the next dispatch on
RECURSIVE Spawn(_, _)
Spawn(st, called) ==
  IF called = <<>> THEN st
  ELSE LET r == st.regs[Head(called)] IN
       IF r.spawn = NoSpawn THEN Spawn(st, Tail(called))
       ELSE Spawn(Register(st, [id |-> Len(st.regs) + 1, ev |-> r.spawn.ev, prio |-> r.spawn.prio, stops |-> FALSE, spawn |-> NoSpawn]),
                  Tail(called))
NSpawns(called) == Cardinality({k \in 1..Len(called) : regs[called[k]].spawn # NoSpawn})

\* pre: the event object handed to dispatch() is already stopped (an event re-used after a stopped dispatch, or
\* stopped by hand): propagation is tested before every call, so nothing is called
Dispatch(e, pre) ==
  LET ls == Listeners(e)
      rs == [k \in 1..Len(ls) |-> Reg(ls[k])]
      called == IF pre THEN <<>> ELSE Calls(rs)
      filled == [Cur EXCEPT !.cache = CacheAfterGet(e)]
      nx == Spawn(filled, called)
  IN /\ Len(regs) + NSpawns(called) <= MaxListeners
     /\ regs' = nx.regs /\ byPrio' = nx.byPrio /\ known' = nx.known /\ cache' = nx.cache
     /\ last' = [op |-> "dispatch", ev |-> e, calls |-> called, before |-> Len(regs), pre |-> pre]

GetListeners(e) ==
  /\ cache' = CacheAfterGet(e)
  /\ last' = [op |-> "get", ev |-> e, ids |-> Listeners(e)]
  /\ UNCHANGED <<regs, byPrio, known>>

\* get_listeners() sorts every registered event and returns the whole map
GetAll ==
  /\ cache' = [e \in Events |-> IF e \in known THEN Listeners(e) ELSE cache[e]]
  /\ last' = [op |-> "getall", all |-> [e \in Events |-> IF e \in known THEN Listeners(e) ELSE NoCache]]
  /\ UNCHANGED <<regs, byPrio, known>>

Has(e) == /\ last' = [op |-> "has", ev |-> e, r |-> (e \in known /\ byPrio[e] # <<>>)]
          /\ UNCHANGED <<regs, byPrio, known, cache>>
HasAny == /\ last' = [op |-> "hasany", r |-> (\E e \in known : byPrio[e] # <<>>)]
          /\ UNCHANGED <<regs, byPrio, known, cache>>

\* get_listener_priority(e, listener id): first priority bucket (insertion order) holding the listener
GetPriority(e, id) ==
  /\ id \in 1..Len(regs)
  /\ LET m == byPrio[e]
         S == {k \in 1..Len(m) : \E j \in 1..Len(m[k].ids) : m[k].ids[j] = id}
     IN last' = [op |-> "prio", ev |-> e, id |-> id,
                 r |-> IF e \notin known \/ S = {} THEN NoPrio ELSE m[CHOOSE k \in S : \A k2 \in S : k <= k2].prio]
  /\ UNCHANGED <<regs, byPrio, known, cache>>

Next == \/ \E e \in RegEvents, p \in Prios, st \in BOOLEAN, sp \in Spawns : Add(e, p, st, sp)
        \/ \E e \in Events : (\E pre \in BOOLEAN : Dispatch(e, pre)) \/ GetListeners(e) \/ Has(e)
        \/ GetAll \/ HasAny
        \/ \E e \in Events, id \in 1..MaxListeners : GetPriority(e, id)

Spec == Init /\ [][Next]_vars

\* ------------------------------------------------------------------ the property, independent of the cache
\* what was registered when the dispatch started (listeners registered by listeners during it come afterwards)
RegsBefore(n, e) == SelectSeq(SubSeq(regs, 1, n), LAMBDA r : r.ev = e)
DispatchCorrect == last.op = "dispatch" =>
   last.calls = IF last.pre THEN <<>> ELSE Calls(SortRegs(RegsBefore(last.before, last.ev)))
OnlyOwnEvent == last.op = "dispatch" => \A k \in 1..Len(last.calls) : Reg(last.calls[k]).ev = last.ev
EachOnce == last.op = "dispatch" => \A j, k \in 1..Len(last.calls) : j # k => last.calls[j] # last.calls[k]
\* query results agree with what was registered
GetCorrect == last.op = "get" => last.ids = Ids(Order(last.ev))
HasCorrect == last.op = "has" => last.r = (RegsOf(last.ev) # <<>>)
PrioCorrect == last.op = "prio" =>
   last.r = IF last.id \in 1..Len(regs) /\ Reg(last.id).ev = last.ev THEN Reg(last.id).prio ELSE NoPrio
\* A-layer coherence: a warm cache is never stale
CacheCoherent == \A e \in Events : cache[e] # NoCache => cache[e] = Ids(Order(e))
=============================================================================
