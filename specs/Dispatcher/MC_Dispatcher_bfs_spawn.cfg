SPECIFICATION BSpec
CONSTANTS
  Events <- MCEvents
  RegEvents <- MCReg
  Prios <- MCPrios
  Spawns <- MCSpawns
  MaxListeners = 3
  Depth = 0
INVARIANT DispatchCorrect
INVARIANT OnlyOwnEvent
INVARIANT EachOnce
INVARIANT CacheCoherent
