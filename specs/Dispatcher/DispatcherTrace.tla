-------------------------- MODULE DispatcherTrace --------------------------
(* Recorded operation sequences of the real EventDispatcher checked against Dispatcher.
   event: [op, ev, prio, stops, spawn, pre, id, calls, ids, all, r, exc]  (unused fields carry neutral values)
   P-clauses (the property): what a dispatch calls.  A-clauses: query results.                      *)
EXTENDS Dispatcher, TraceKit

VARIABLES tid, l
tvars == <<vars, tid, l>>
T == Traces[tid]
Ev == T[l]

TEvents == {"e1", "e2", "e3", ""}
TPrios == -1000..1000
TSpawns == {NoSpawn} \cup {[ev |-> e, prio |-> p] : e \in TEvents, p \in {-5, 0, 5}}

TInit == tid \in 1..NTraces /\ l = 1 /\ Init
Adv == l' = l + 1 /\ tid' = tid
\* no operation of the dispatcher may fail: dispatching calls listeners, it never raises by itself
Is(op) == l <= Len(T) /\ Ev.op = op /\ Check(tid, l, "P.no_exception", Ev.exc, Ev.exc = "")

TAdd == /\ Is("add") /\ Adv
        /\ Add(Ev.ev, Ev.prio, Ev.stops, Ev.spawn)
        /\ Check(tid, l, "H.add.id", "", last'.id = Ev.id)

TDispatch == /\ Is("dispatch") /\ Adv
             /\ Dispatch(Ev.ev, Ev.pre)
             /\ Check(tid, l, "P.dispatch.calls", IF Ev.pre THEN "stopped-event" ELSE "",
                      Ev.calls = IF Ev.pre THEN <<>> ELSE Calls(Order(Ev.ev)))      \* Order: registrations before the dispatch
             /\ Note(tid, l, "A.dispatch.calls", Ev.calls = last'.calls)

TGet == /\ Is("get") /\ Adv /\ GetListeners(Ev.ev)
        /\ Note(tid, l, "A.get.ids", Ev.ids = last'.ids)
TGetAll == /\ Is("getall") /\ Adv /\ GetAll
           /\ Note(tid, l, "A.getall", \A e \in Events : Ev.all[e] = last'.all[e])
THas == /\ Is("has") /\ Adv /\ Has(Ev.ev)
        /\ Note(tid, l, "A.has", Ev.r = last'.r)
THasAny == /\ Is("hasany") /\ Adv /\ HasAny
           /\ Note(tid, l, "A.hasany", Ev.r = last'.r)
TPrio == /\ Is("prio") /\ Adv /\ GetPriority(Ev.ev, Ev.id)
         /\ Note(tid, l, "A.prio", Ev.r = last'.r)

TDone == /\ l = Len(T) + 1 /\ l' = l + 1 /\ tid' = tid /\ UNCHANGED vars /\ Accept(tid)

TNext == TAdd \/ TDispatch \/ TGet \/ TGetAll \/ THas \/ THasAny \/ TPrio \/ TDone
TSpec == TInit /\ [][TNext]_tvars
=============================================================================
