SPECIFICATION HSpec
CONSTANTS
  Events <- MCEvents
  RegEvents <- MCReg
  Prios <- MCPrios
  Spawns <- MCSpawns
  MaxListeners = 4
  Depth = 3
INVARIANT DispatchCorrect
INVARIANT CacheCoherent
INVARIANT Emit
