SPECIFICATION TSpec
CONSTANTS
  Events <- TEvents
  RegEvents <- TEvents
  Prios <- TPrios
  Spawns <- TSpawns
  MaxListeners = 100
INVARIANT DispatchCorrect
INVARIANT CacheCoherent
