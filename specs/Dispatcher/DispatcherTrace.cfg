SPECIFICATION TSpec
CONSTANTS
  Events <- TEvents
  RegEvents <- TEvents
  Prios <- TPrios
  MaxListeners = 100
INVARIANT DispatchCorrect
INVARIANT CacheCoherent
