SPECIFICATION Spec
CONSTANTS
  BaseIds = {1, 2, 3, 4, 5, 7, 17, 18, 20, 21, 23}
  Toks = {"-q", "--quiet", "-v", "-vv", "-vvv", "--ansi", "--no-ansi", "-n", "--no-interaction", "-h", "--help", "-V", "--version"}
  MaxSw = 2
  LitToks = {"-q", "--help"}
  MaxLit = 1
  Behs = {"ok"}
  Streams = {"none"}
  Rounds = 1
  SecondIds = {1}
INVARIANT H_inscope
INVARIANT P_quiet
INVARIANT P_verbosity
INVARIANT P_noansi
INVARIANT P_ansi
INVARIANT P_nointeraction
INVARIANT P_help
INVARIANT P_version
INVARIANT P_command
INVARIANT P_afterdd
INVARIANT A_runall
INVARIANT Emit
