------------------------------ MODULE Switches ------------------------------
(* Global switches of clikit.config.DefaultApplicationConfig through ConsoleApplication.run  (property C09)

   A command line is a sequence of UNITS [k, t]: t = the tokens the unit is written with (atomic strings),
     k = "name" (a command name of the path)   "pos" (a positional value)      "own" (an option of the command,
         with its value if it takes one: never split)   "sw" (one of the global switch tokens)
         "dd" (the token "--")                  "lit" (a token after "--"; may look like a switch)
         "glob" (a global option that is not one of the switch tokens: --verbose, --verbose=N; every command knows it,
                 it has none of the effects - the verbosity is chosen by -v / -vv / -vvv only).
   The application is fixed (Cmd below): pkg <name> [rest..] [-o|--opt VALUE] [-f|--flag];  srv with the
   sub-commands add <host> [rest..] and list [rest..] [-a|--all] (list is srv's default sub-command);
   top [rest..];  grp, a container WITHOUT a handler of its own, with the sub-command one [rest..];  lazy [rest..], whose
   handler is built by a factory (set_handler(callable)) each time the configuration is asked for it;  plus the
   built-in default command "help".  Every other user command has the same handler object: it writes one
   tagged line per verbosity level (tags 1..4 = NORMAL, VERBOSE, VERY_VERBOSE, DEBUG) to stdout and stderr - through a
   different one of the eight write routes each (write_line, write, write_raw, write_line_raw / error_line, error_raw,
   error_line_raw, error) - sends a control sequence to an output that says it supports ANSI (as components do), asks a
   ConfirmationQuestion (default yes), then a plain Question and a ChoiceQuestion that have NO default (the input holds
   "n", "bob", "a" and ends), records what the IO says about itself, then returns 0
   (beh "ok"), returns 3 ("code"), raises ("raise"), or - "meddle" - turns the quiet flag round and sets the verbosity
   to DEBUG on its I/O before returning 0 (that I/O belongs to the run: the next run on the SAME application object
   must not see any of it).  Nothing is stored between runs: every run starts from S0.

   A-layer: the run pipeline, one stage per step: create_io -> PRE_RESOLVE (help) -> resolve -> PRE_HANDLE (version)
            -> handler -> error report.  Stage(s) is a function on the state record, so the whole run is also
            available as RunAll (used for the relational clause about "--").
   P-layer: operators over the line and an observation o of the real run - what the statement says.        *)
EXTENDS Integers, Sequences, FiniteSets, TLC

Range(f) == {f[k] : k \in DOMAIN f}

\* ------------------------------------------------------------------ the switch families
QuietT == {"-q", "--quiet"}
VerbT == {"-v", "-vv", "-vvv"}
AnsiT == {"--ansi"}
NoAnsiT == {"--no-ansi"}
NoIntT == {"-n", "--no-interaction"}
HelpT == {"-h", "--help"}
VersionT == {"-V", "--version"}
SwitchT == QuietT \cup VerbT \cup AnsiT \cup NoAnsiT \cup NoIntT \cup HelpT \cup VersionT

\* ------------------------------------------------------------------ lines
RECURSIVE Tokens(_)
Tokens(line) == IF line = <<>> THEN <<>> ELSE Head(line).t \o Tokens(Tail(line))
DDIndex(line) == IF \E i \in 1..Len(line) : line[i].k = "dd" THEN CHOOSE i \in 1..Len(line) : line[i].k = "dd" ELSE Len(line) + 1
\* the option tokens: everything before the first "--"
OptTok(line) == Range(Tokens(SubSeq(line, 1, DDIndex(line) - 1)))
Given(line, fam) == OptTok(line) \cap fam # {}
Level(line) == IF "-vvv" \in OptTok(line) THEN 3 ELSE IF "-vv" \in OptTok(line) THEN 2 ELSE IF "-v" \in OptTok(line) THEN 1 ELSE 0

\* the leading tokens that can be command names: up to the first option-like token or "--"
RECURSIVE Lead(_)
Lead(line) == IF line = <<>> \/ Head(line).k \notin {"name", "pos"} THEN <<>> ELSE Head(line).t \o Lead(Tail(line))
\* positional values a handler receives (command names excluded), in order
Args(line) == Tokens(SelectSeq(line, LAMBDA u : u.k \in {"pos", "lit"}))
AnyPositional(line) == \E i \in 1..Len(line) : line[i].k \in {"name", "pos", "lit"}
NNames(line) == Cardinality({i \in 1..Len(line) : line[i].k = "name"})
Lits(line) == SelectSeq(line, LAMBDA u : u.k = "lit")
\* the same line without the switch look-alikes after "--"
SwLit(u) == u.k = "lit" /\ u.t[1] \in SwitchT
StripLits(line) == SelectSeq(line, LAMBDA u : ~SwLit(u))
HasSwLits(line) == \E i \in 1..Len(line) : SwLit(line[i])

\* ------------------------------------------------------------------ the application
\* hub [rest..] has one sub-command for every long and short name of a global switch ("hub n", "hub quiet", ...):
\* a switch on the line must never be taken for the name of a command
HubSubs == {"n", "q", "h", "v", "V", "quiet", "ansi", "no-ansi", "help", "version", "verbose", "no-interaction"}
HubId == [x \in HubSubs |-> "hub " \o x]
HubIds == {HubId[x] : x \in HubSubs}
CmdIds == {"pkg", "srv", "srv add", "srv list", "top", "grp", "grp one", "lazy", "hub", "help"} \cup HubIds
\* handler: "object" (set_handler(instance)), "factory" (set_handler(callable)), "none" (nothing configured: the
\* placeholder of the configuration has no handle method - running the command is an error)
Cmd == [c \in CmdIds |->
          CASE c \in HubIds -> [path |-> <<"hub", CHOOSE x \in HubSubs : HubId[x] = c>>, dsub |-> "", handler |-> "object"]
            [] c = "hub" -> [path |-> <<"hub">>, dsub |-> "", handler |-> "object"]
            [] c = "pkg" -> [path |-> <<"pkg">>, dsub |-> "", handler |-> "object"]
            [] c = "srv" -> [path |-> <<"srv">>, dsub |-> "srv list", handler |-> "object"]
            [] c = "srv add" -> [path |-> <<"srv", "add">>, dsub |-> "", handler |-> "object"]
            [] c = "srv list" -> [path |-> <<"srv", "list">>, dsub |-> "", handler |-> "object"]
            [] c = "top" -> [path |-> <<"top">>, dsub |-> "", handler |-> "object"]
            [] c = "grp" -> [path |-> <<"grp">>, dsub |-> "", handler |-> "none"]
            [] c = "grp one" -> [path |-> <<"grp", "one">>, dsub |-> "", handler |-> "object"]
            [] c = "lazy" -> [path |-> <<"lazy">>, dsub |-> "", handler |-> "factory"]
            [] c = "help" -> [path |-> <<"help">>, dsub |-> "", handler |-> "object"]]
IsPrefix(a, b) == Len(a) <= Len(b) /\ SubSeq(b, 1, Len(a)) = a
\* the deepest command whose path is spelled by the leading tokens ("" if the first one is no command)
Walk(lead) == LET C == {c \in CmdIds : IsPrefix(Cmd[c].path, lead)}
              IN IF C = {} THEN "" ELSE CHOOSE c \in C : \A d \in C : Len(Cmd[d].path) <= Len(Cmd[c].path)
\* ... and the command that runs for it: its default sub-command, if it has one
RunsFor(c) == IF Cmd[c].dsub # "" THEN Cmd[c].dsub ELSE c

\* the placements the statement speaks of: the command path comes first and is complete, switches follow it (the
\* resolver reads command names only up to the first option), bare -v (optional value) is not followed by a value
PathFirst(line) == \A i \in 1..Len(line) : line[i].k = "name" => i <= NNames(line)
\* -v and --verbose take an optional value: a following plain token would be that value; a following switch or "--" is not
BareOpt(u) == (u.k = "sw" /\ u.t = <<"-v">>) \/ (u.k = "glob" /\ u.t = <<"--verbose">>)
BareVOK(line) == \A i \in 1..Len(line) : (BareOpt(line[i]) /\ i < Len(line)) => line[i + 1].k \notin {"pos", "name"}
LitsLast(line) == \A i \in 1..Len(line) : (line[i].k = "lit") = (i > DDIndex(line))
InScope(line) ==
  /\ PathFirst(line) /\ BareVOK(line) /\ LitsLast(line)
  /\ LET names == Tokens(SubSeq(line, 1, NNames(line)))
     IN IF names = <<>> THEN Lead(line) = <<>> /\ Lits(line) = <<>>          \* no command: the built-in default runs
        ELSE \E c \in CmdIds \ {"help"} : Cmd[c].path = names /\ Walk(Lead(line)) = c

\* ================================================================== A-layer
\* what the I/O tells the handler about itself; ansiOut / ansiErr = output.supports_ansi() of the two outputs - what
\* components (progress indicators, sections) go by when they decide to send control sequences
NoIO == [ran |-> FALSE, quiet |-> FALSE, level |-> 0, inter |-> TRUE, ansiOut |-> FALSE, ansiErr |-> FALSE]
\* DefaultApplicationConfig.create_io
CreateIO(line, streams) ==
  LET o == OptTok(line)
      plain == "--no-ansi" \in o
      forced == ~plain /\ "--ansi" \in o
  IN [quiet |-> o \cap QuietT # {}, level |-> Level(line), inter |-> o \cap NoIntT = {},
      \* streams: which of the two streams say they support ANSI - "none", "both", "out" (only stdout), "err" (only stderr):
      \* without a switch each output is decided on its own
      decoOut |-> ~plain /\ (forced \/ streams \in {"both", "out"}),
      decoErr |-> ~plain /\ (forced \/ streams \in {"both", "err"})]

\* HelpTextHandler: the application page without any positional token, else the page of the command that the
\* leading tokens resolve to (its default sub-command if there is one; the help command itself for an empty lead)
HelpPage(line) ==
  IF ~AnyPositional(line) THEN "app"
  ELSE LET c == Walk(Lead(line)) IN IF c = "" THEN "cmd:help" ELSE "cmd:" \o RunsFor(c)
\* DefaultResolver on a line whose path comes first; no command name at all: the first default command (help)
Resolve(line) == LET c == Walk(Lead(line)) IN IF c = "" THEN "help" ELSE RunsFor(c)

\* is the version option set in the parsed args?  The command that runs parses the valid line completely.  The help
\* command parses leniently, and the lenient parser gives up at the first token it does not know - an option of the
\* command the line was written for - so only a version switch before that one counts.
FirstOwn(line) == IF \E i \in 1..Len(line) : line[i].k = "own" THEN CHOOSE i \in 1..Len(line) : line[i].k = "own" /\ \A j \in 1..(i - 1) : line[j].k # "own"
                  ELSE Len(line) + 1
VersionParsed(line, sel) ==
  IF sel = "help" THEN \E i \in 1..Len(line) : line[i].k = "sw" /\ line[i].t[1] \in VersionT /\ i < FirstOwn(line) /\ i < DDIndex(line)
  ELSE Given(line, VersionT)

S0(line, beh, streams) ==
  [line |-> line, beh |-> beh, streams |-> streams, pc |-> "create",
   io |-> [quiet |-> FALSE, level |-> 0, inter |-> TRUE, decoOut |-> FALSE, decoErr |-> FALSE],
   sel |-> "", status |-> -1, calls |-> <<>>, outTags |-> {}, errTags |-> {}, outB |-> FALSE, errB |-> FALSE,
   page |-> "none", answer |-> "none", answer2 |-> "none", consumed |-> 0, seen |-> NoIO, built |-> 0]

Stage(s) ==
  CASE s.pc = "create" -> [s EXCEPT !.io = CreateIO(s.line, s.streams), !.pc = "preresolve"]
    \* PRE_RESOLVE listener resolve_help_command
    [] s.pc = "preresolve" -> IF Given(s.line, HelpT) THEN [s EXCEPT !.sel = "help", !.pc = "prehandle"]
                              ELSE [s EXCEPT !.pc = "resolve"]
    [] s.pc = "resolve" -> [s EXCEPT !.sel = Resolve(s.line), !.pc = "prehandle"]
    \* PRE_HANDLE listener print_version (the parsed args carry the version option)
    [] s.pc = "prehandle" -> IF VersionParsed(s.line, s.sel)
                             THEN [s EXCEPT !.page = IF s.io.quiet THEN "none" ELSE "version", !.outB = ~s.io.quiet,
                                            !.status = 0, !.pc = "done"]
                             ELSE [s EXCEPT !.pc = "handle"]
    [] s.pc = "handle" ->
         IF s.sel = "help"
         THEN [s EXCEPT !.page = IF s.io.quiet THEN "none" ELSE HelpPage(s.line), !.outB = ~s.io.quiet,
                        !.status = 0, !.pc = "done"]
         \* Command._do_handle looks the handler up only now, after the PRE_HANDLE listeners: a command without one fails
         \* here (AttributeError -> error report), a factory is called here
         ELSE IF Cmd[s.sel].handler = "none" THEN [s EXCEPT !.page = IF s.io.quiet THEN "none" ELSE "other", !.pc = "report"]
         ELSE LET vis == IF s.io.quiet THEN {} ELSE 1..(s.io.level + 1)
              IN [s EXCEPT !.calls = <<s.sel>>, !.built = IF Cmd[s.sel].handler = "factory" THEN 1 ELSE 0, !.outTags = vis, !.errTags = vis,
                           !.outB = ~s.io.quiet, !.errB = ~s.io.quiet,
                           !.answer = IF s.io.inter THEN "typed" ELSE "default",
                           \* the two questions without default: what was typed, or None - never a prompt, never a read
                           !.answer2 = IF s.io.inter THEN "typed" ELSE "default",
                           !.consumed = IF s.io.inter THEN 3 ELSE 0,
                           !.seen = [ran |-> TRUE, quiet |-> s.io.quiet, level |-> s.io.level, inter |-> s.io.inter,
                                     ansiOut |-> s.io.decoOut, ansiErr |-> s.io.decoErr],
                           !.page = "n/a",
                           !.status = IF s.beh = "code" THEN 3 ELSE 0,
                           !.pc = IF s.beh = "raise" THEN "report" ELSE "done"]
    \* ConsoleApplication.run: the exception is reported on the output, status 1
    [] s.pc = "report" -> [s EXCEPT !.status = 1, !.outB = ~s.io.quiet, !.pc = "done"]
    [] OTHER -> s

RECURSIVE RunAll(_)
RunAll(s) == IF s.pc = "done" THEN s ELSE RunAll(Stage(s))

Esc(bytes, deco) == IF ~bytes THEN 0 ELSE IF deco THEN 2 ELSE 1        \* 0 nothing written, 1 text without ESC, 2 ESC
ObsOf(s) == [status |-> s.status, calls |-> s.calls, outTags |-> s.outTags, errTags |-> s.errTags,
             outEsc |-> Esc(s.outB, s.io.decoOut), errEsc |-> Esc(s.errB, s.io.decoErr),
             io |-> s.seen, page |-> s.page, answer |-> s.answer, answer2 |-> s.answer2, consumed |-> s.consumed,
             args |-> IF s.calls # <<>> THEN Args(s.line) ELSE <<>>, built |-> s.built,
             argsSame |-> TRUE]         \* the RawArgs object holds the same tokens after the run as before

\* ================================================================== P-layer (o: observation with sets for the tags)
\* "the quiet switch suppresses all output of the run including error reports"
PQuiet(line, o) == Given(line, QuietT) => (o.outEsc = 0 /\ o.errEsc = 0)
\* "-v, -vv and -vvv select the three verbosity levels": whatever handler runs sees the strongest one given, and
\* exactly the lines up to that level come out on both streams
PVerbosity(line, o) == (Given(line, VerbT) /\ o.io.ran) =>
   /\ o.io.level = Level(line)
   /\ (~Given(line, QuietT) => (o.outTags = 1..(Level(line) + 1) /\ o.errTags = 1..(Level(line) + 1)))
\* "the no-ANSI switch removes every escape sequence" (nothing is said about both switches together)
\* - also none from a component that asks the output whether it supports them
PNoAnsi(line, o) == (Given(line, NoAnsiT) /\ ~Given(line, AnsiT)) =>
   (o.outEsc # 2 /\ o.errEsc # 2 /\ ~o.io.ansiOut /\ ~o.io.ansiErr)
\* "the ANSI switch forces decoration on any stream": styled text (tagged lines, pages) comes out with escapes
PAnsi(line, o) == (Given(line, AnsiT) /\ ~Given(line, NoAnsiT)) =>
   /\ ((o.outTags # {} \/ o.page \notin {"none", "n/a", "other"}) => o.outEsc = 2)
   /\ (o.errTags # {} => o.errEsc = 2)
   /\ (o.io.ran => (o.io.ansiOut /\ o.io.ansiErr))
\* "the no-interaction switch makes questions return their defaults" - without reading
\* (a question without a default returns None, its default)
PNoInteraction(line, o) == (Given(line, NoIntT) /\ o.io.ran) =>
   (o.answer = "default" /\ o.answer2 = "default" /\ o.consumed = 0 /\ ~o.io.inter)
\* the switches have the listed effects and no other: they never choose the command - the handler that runs is the one
\* of the command named by the path (its default sub-command), however many switches follow and whatever they are called
PCommand(line, o) == (InScope(line) /\ o.calls # <<>>) => o.calls = <<RunsFor(Walk(Lead(line)))>>
\* "the help switch placed after the command path prints that command's help ... status 0 ... without invoking the handler"
\* (the command named by the path, or the default sub-command that runs for it; no path: the application's page or the
\*  page of the built-in default command; quiet prints nothing; with the version switch either text may come out)
HelpPages(line) ==
  LET c == Walk(Lead(line))
  IN (IF c = "" THEN {"app", "cmd:help"} ELSE {"cmd:" \o c, "cmd:" \o RunsFor(c)})
     \cup (IF Given(line, QuietT) THEN {"none"} ELSE {})
PHelp(line, o) == (Given(line, HelpT) /\ InScope(line)) =>
   /\ o.status = 0 /\ o.calls = <<>>
   /\ o.page \in HelpPages(line) \cup (IF Given(line, VersionT) THEN {"version"} ELSE {})
\* "the version switch prints name and version, ... status 0 and without invoking the command's handler"
PVersion(line, o) == (Given(line, VersionT) /\ InScope(line)) =>
   /\ o.status = 0 /\ o.calls = <<>>
   /\ o.page \in {"version"} \cup (IF Given(line, QuietT) THEN {"none"} ELSE {})
                  \cup (IF Given(line, HelpT) THEN HelpPages(line) ELSE {})
\* "the same tokens placed after '--' have none of these effects": the run equals the run of the line without them,
\* apart from the positional arguments the handler receives (ob: observation of StripLits(line))
SameRun(o, ob) == /\ o.status = ob.status /\ o.calls = ob.calls /\ o.outTags = ob.outTags /\ o.errTags = ob.errTags
                  /\ o.outEsc = ob.outEsc /\ o.errEsc = ob.errEsc /\ o.io = ob.io /\ o.page = ob.page
                  /\ o.answer = ob.answer /\ o.answer2 = ob.answer2 /\ o.consumed = ob.consumed
\* the values after "--" are the last ones the handler receives: the other run's, with the look-alikes among them
ArgsOK(line, o, ob) ==
  LET all == Tokens(Lits(line))
      kept == Tokens(Lits(StripLits(line)))
      n == Len(ob.args) - Len(kept)
  IN n >= 0 /\ SubSeq(ob.args, n + 1, Len(ob.args)) = kept /\ o.args = SubSeq(ob.args, 1, n) \o all
PAfterDD(line, o, ob) == HasSwLits(line) => (SameRun(o, ob) /\ (o.io.ran => ArgsOK(line, o, ob)))

PAll(line, o) == /\ PQuiet(line, o) /\ PVerbosity(line, o) /\ PNoAnsi(line, o) /\ PAnsi(line, o)
                 /\ PNoInteraction(line, o) /\ PHelp(line, o) /\ PVersion(line, o) /\ PCommand(line, o)
=============================================================================
