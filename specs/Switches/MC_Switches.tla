---------------------------- MODULE MC_Switches ----------------------------
(* C09: lines are BUILT by actions - starting from a valid base line, switch tokens are inserted one at a time at
   any gap after the command path and before "--" (InsertSw), switch look-alikes anywhere after "--" (InsertLit) -
   then the run pipeline is stepped (Go, RunStep).  BFS therefore reaches every line with at most MaxSw switches
   (every subset, spelling, order and placement; a line is one state however it was built); -simulate walks to
   lines with many switches.  Every finished run is emitted for replay.                                         *)
EXTENDS Switches, Json

CONSTANTS BaseIds,    \* which base lines (indices of Bases)
          Toks,       \* switch tokens that may be inserted
          MaxSw,      \* at most so many inserted before "--"
          LitToks,    \* look-alikes that may be put after "--"
          MaxLit,
          Behs,       \* handler behaviours: "ok", "code", "raise"
          Streams,    \* which of the two streams support ANSI: "none", "both", "out", "err"
          Rounds,     \* 1: one run;  2: a second line is run on the SAME application object
          SecondIds   \* base lines of the second run

VARIABLES line, beh, streams, phase, s, round, prev
mvars == <<line, beh, streams, phase, s, round, prev>>
NoPrev == [has |-> FALSE, line |-> <<>>, beh |-> "ok", streams |-> "none", obs |-> ObsOf(S0(<<>>, "ok", "none"))]

N(t) == [k |-> "name", t |-> <<t>>]
P(t) == [k |-> "pos", t |-> <<t>>]
O(t) == [k |-> "own", t |-> t]
L(t) == [k |-> "lit", t |-> <<t>>]
G(t) == [k |-> "glob", t |-> <<t>>]
Sw(t) == [k |-> "sw", t |-> <<t>>]
DD == [k |-> "dd", t |-> <<"--">>]

Bases == <<
  <<N("pkg"), P("x")>>,                                              \*  1
  <<N("pkg"), P("x"), O(<<"--opt", "v">>)>>,                         \*  2
  <<N("pkg"), P("x"), DD, L("y")>>,                                  \*  3
  <<N("srv")>>,                                                      \*  4  (runs srv list)
  <<N("srv"), N("add"), P("h1")>>,                                   \*  5
  <<N("top"), P("a"), P("b")>>,                                      \*  6
  <<>>,                                                              \*  7  no command: the built-in default command
  <<N("pkg"), O(<<"-o", "v">>), P("x"), P("y")>>,                    \*  8
  <<N("pkg"), O(<<"--flag">>), P("x"), O(<<"--opt=v">>)>>,           \*  9
  <<N("pkg"), P("x"), DD>>,                                          \* 10
  <<N("srv"), O(<<"-a">>)>>,                                         \* 11
  <<N("srv"), N("add"), P("h1"), P("z"), DD, L("w")>>,               \* 12
  <<N("srv"), N("list"), P("z")>>,                                   \* 13
  <<N("srv"), P("z")>>,                                              \* 14
  <<N("top")>>,                                                      \* 15
  <<N("pkg"), O(<<"-ov">>), O(<<"-f">>), P("x")>>,                   \* 16
  <<N("grp")>>,                                                      \* 17  a container without handler: only help / version work
  <<N("lazy"), P("a")>>,                                             \* 18  handler built by a factory
  <<N("grp"), N("one"), P("z")>>,                                    \* 19
  <<N("hub")>>,                                                      \* 20  sub-commands named like the switches
  <<N("hub"), P("a")>>,                                              \* 21
  <<N("hub"), P("a"), DD, L("b")>>,                                  \* 22
  <<N("pkg"), P("x"), G("--verbose")>>,                              \* 23  an optional-value option directly before what is inserted
  <<N("pkg"), P("x"), G("--verbose"), DD, L("y")>>,                  \* 24  ... directly before "--"
  <<N("top"), G("--verbose=3"), P("a")>>                             \* 25
>>

InsertAt(l, p, u) == SubSeq(l, 1, p) \o <<u>> \o SubSeq(l, p + 1, Len(l))
NSw(l) == Cardinality({i \in 1..Len(l) : l[i].k = "sw"})
NSwLit(l) == Cardinality({i \in 1..Len(l) : SwLit(l[i])})

Init == /\ \E b \in BaseIds : line = Bases[b]
        /\ beh \in Behs /\ streams \in Streams
        /\ phase = "build" /\ s = S0(<<>>, "ok", "none") /\ round = 1 /\ prev = NoPrev

InsertSw == /\ phase = "build" /\ NSw(line) < MaxSw
            /\ \E tok \in Toks : \E p \in NNames(line)..(DDIndex(line) - 1) :
                 LET l2 == InsertAt(line, p, Sw(tok)) IN BareVOK(l2) /\ line' = l2
            /\ UNCHANGED <<beh, streams, phase, s, round, prev>>
InsertLit == /\ phase = "build" /\ NSwLit(line) < MaxLit /\ DDIndex(line) <= Len(line)
             /\ \E tok \in LitToks : \E p \in DDIndex(line)..Len(line) : line' = InsertAt(line, p, L(tok))
             /\ UNCHANGED <<beh, streams, phase, s, round, prev>>
Go == /\ phase = "build" /\ phase' = "run" /\ s' = S0(line, beh, streams)
      /\ UNCHANGED <<line, beh, streams, round, prev>>
RunStep == /\ phase = "run" /\ s.pc # "done" /\ s' = Stage(s)
           /\ UNCHANGED <<line, beh, streams, phase, round, prev>>
\* the application object is used again: another line, possibly another handler behaviour and other streams.
\* Nothing of the first run is kept - the model of the second run is the same S0 / Stage as for a fresh application.
Again == /\ phase = "run" /\ s.pc = "done" /\ round < Rounds /\ round' = round + 1
         /\ prev' = [has |-> TRUE, line |-> line, beh |-> beh, streams |-> streams, obs |-> ObsOf(s)]
         /\ \E b \in SecondIds : line' = Bases[b]
         /\ beh' \in Behs /\ streams' \in Streams /\ phase' = "build" /\ s' = S0(<<>>, "ok", "none")
Next == InsertSw \/ InsertLit \/ Go \/ RunStep \/ Again
Spec == Init /\ [][Next]_mvars

\* ------------------------------------------------------------------ the property on the model's own runs
Fin == phase = "run" /\ s.pc = "done"
Last == Fin /\ round = Rounds
O9 == ObsOf(s)
H_inscope == phase = "build" => InScope(line)
P_quiet == Fin => PQuiet(line, O9)
P_verbosity == Fin => PVerbosity(line, O9)
P_noansi == Fin => PNoAnsi(line, O9)
P_ansi == Fin => PAnsi(line, O9)
P_nointeraction == Fin => PNoInteraction(line, O9)
P_help == Fin => PHelp(line, O9)
P_version == Fin => PVersion(line, O9)
P_command == Fin => PCommand(line, O9)
\* relational: against a second run of the line without the look-alikes
P_afterdd == Fin => PAfterDD(line, O9, ObsOf(RunAll(S0(StripLits(line), beh, streams))))
A_runall == Fin => s = RunAll(S0(line, beh, streams))

\* ------------------------------------------------------------------ emission
SetSeq(S) == [k \in 1..Cardinality(S) |-> k]      \* the tag sets are initial segments 1..n
ObsJ(o) == [status |-> o.status, calls |-> o.calls, outTags |-> SetSeq(o.outTags), errTags |-> SetSeq(o.errTags),
            outEsc |-> o.outEsc, errEsc |-> o.errEsc, io |-> o.io, page |-> o.page, answer |-> o.answer,
            answer2 |-> o.answer2, consumed |-> o.consumed, args |-> o.args, built |-> o.built, argsSame |-> o.argsSame]
Emit == Last => PrintT(ToJson([units |-> line, beh |-> beh, streams |-> streams, exp |-> ObsJ(O9),
                               prev |-> [has |-> prev.has, units |-> prev.line, beh |-> prev.beh, streams |-> prev.streams,
                                         exp |-> ObsJ(prev.obs)]]))
=============================================================================
