SPECIFICATION Spec
CONSTANTS
  BaseIds = {2, 3, 5}
  Toks = {"-q", "-vv", "--ansi", "--no-ansi", "-n", "-h", "-V"}
  MaxSw = 2
  LitToks = {"--quiet", "--ansi"}
  MaxLit = 1
  Behs = {"ok"}
  Streams = {"both", "out"}
  Rounds = 1
  SecondIds = {1}
INVARIANT H_inscope
INVARIANT P_quiet
INVARIANT P_verbosity
INVARIANT P_noansi
INVARIANT P_ansi
INVARIANT P_nointeraction
INVARIANT P_help
INVARIANT P_version
INVARIANT P_command
INVARIANT P_afterdd
INVARIANT A_runall
INVARIANT Emit
