--------------------------- MODULE SwitchesTrace ---------------------------
(* Recorded runs of ConsoleApplication.run on the fixed application checked against Switches.
   event: [units : the line ([k, t] records), beh, streams,
           obs   : [status, exc, calls, built (how often a handler factory ran), outTags, errTags (arrays), outEsc, errEsc, io [ran, quiet, level, inter], page,
                    answer, consumed, args, outId, errId (interned stream texts)],
           hasBase, base : the observation of the same line without the switch look-alikes after "--"]
   A trace = the lines run one after the other on ONE application object (the model keeps nothing between runs).
   P-clauses: the P-layer of Switches on the observation.  A-clauses (only for lines inside the modelled placements):
   equality with the A-layer's run.                                                                          *)
EXTENDS Switches, TraceKit

VARIABLES tid, l
tvars == <<tid, l>>
T == Traces[tid]
Ev == T[l]

\* JSON arrays -> sets for the tags
Obs(r) == [status |-> r.status, calls |-> r.calls, outTags |-> Range(r.outTags), errTags |-> Range(r.errTags),
           outEsc |-> r.outEsc, errEsc |-> r.errEsc, io |-> r.io, page |-> r.page, answer |-> r.answer, answer2 |-> r.answer2,
           consumed |-> r.consumed, args |-> r.args, built |-> r.built, argsSame |-> r.argsSame]

FamKey(line) == (IF Given(line, QuietT) THEN "q" ELSE "") \o (IF Given(line, HelpT) THEN "h" ELSE "")
                \o (IF Given(line, VersionT) THEN "V" ELSE "")
KindsOK(line) == \A i \in 1..Len(line) :
                   /\ line[i].k \in {"name", "pos", "own", "sw", "dd", "lit", "glob"} /\ Len(line[i].t) >= 1
                   /\ (line[i].k = "sw" => (Len(line[i].t) = 1 /\ line[i].t[1] \in SwitchT))
                   /\ (line[i].k = "dd" => line[i].t = <<"--">>)
                   /\ (line[i].k # "dd" => \A j \in 1..Len(line[i].t) : line[i].t[j] # "--")

Clauses(e) ==
  LET line == e.units
      o == Obs(e.obs)
      a == ObsOf(RunAll(S0(line, e.beh, e.streams)))
      in == InScope(line)
  IN /\ Check(tid, l, "H.units", "", KindsOK(line) /\ LitsLast(line) /\ e.hasBase = HasSwLits(line))
     /\ Check(tid, l, "P.quiet", IF e.obs.status = 0 THEN "" ELSE "failing-run", PQuiet(line, o))
     /\ Check(tid, l, "P.verbosity", "", PVerbosity(line, o))
     /\ Check(tid, l, "P.noansi", "", PNoAnsi(line, o))
     /\ Check(tid, l, "P.ansi", "", PAnsi(line, o))
     /\ Check(tid, l, "P.nointeraction", "", PNoInteraction(line, o))
     /\ Check(tid, l, "P.command", "", PCommand(line, o))
     /\ Check(tid, l, "P.help", FamKey(line), PHelp(line, o))
     /\ Check(tid, l, "P.version", FamKey(line), PVersion(line, o))
     /\ Check(tid, l, "P.afterdd", "", e.hasBase => PAfterDD(line, o, Obs(e.base)))
     /\ Check(tid, l, "P.afterdd.text", "", e.hasBase => (e.obs.outId = e.base.outId /\ e.obs.errId = e.base.errId))
     /\ Note(tid, l, "A.run", in => o = a)
     /\ Note(tid, l, "A.contained", e.obs.exc = "")

TInit == tid \in 1..NTraces /\ l = 1
TEvent == l <= Len(T) /\ Clauses(Ev) /\ l' = l + 1 /\ tid' = tid
TDone == l = Len(T) + 1 /\ l' = l + 1 /\ tid' = tid /\ Accept(tid)
TNext == TEvent \/ TDone
TSpec == TInit /\ [][TNext]_tvars
=============================================================================
