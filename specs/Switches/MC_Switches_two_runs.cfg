SPECIFICATION Spec
CONSTANTS
  BaseIds = {2, 4}
  Toks = {"-q", "--ansi", "-n", "-h", "-V"}
  MaxSw = 1
  LitToks = {"-q"}
  MaxLit = 0
  Behs = {"meddle"}
  Streams = {"none", "err"}
  Rounds = 2
  SecondIds = {2, 17}
INVARIANT H_inscope
INVARIANT P_quiet
INVARIANT P_verbosity
INVARIANT P_noansi
INVARIANT P_ansi
INVARIANT P_nointeraction
INVARIANT P_help
INVARIANT P_version
INVARIANT P_command
INVARIANT P_afterdd
INVARIANT A_runall
INVARIANT Emit
