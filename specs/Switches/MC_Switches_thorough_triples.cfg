SPECIFICATION Spec
CONSTANTS
  BaseIds = {1, 2, 3, 4, 5, 6, 7}
  Toks = {"-q", "-vv", "--ansi", "--no-ansi", "-n", "-h", "-V"}
  MaxSw = 3
  LitToks = {"-q", "-h"}
  MaxLit = 2
  Behs = {"ok"}
  Streams = {"none", "out"}
  Rounds = 1
  SecondIds = {1}
INVARIANT H_inscope
INVARIANT P_quiet
INVARIANT P_verbosity
INVARIANT P_noansi
INVARIANT P_ansi
INVARIANT P_nointeraction
INVARIANT P_help
INVARIANT P_version
INVARIANT P_command
INVARIANT P_afterdd
INVARIANT A_runall
INVARIANT Emit
