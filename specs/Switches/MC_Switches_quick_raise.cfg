SPECIFICATION Spec
CONSTANTS
  BaseIds = {3, 4}
  Toks = {"-q", "-vv", "--ansi", "--no-ansi", "-n", "-h", "-V"}
  MaxSw = 2
  LitToks = {"-q"}
  MaxLit = 1
  Behs = {"raise"}
  Streams = {"none"}
INVARIANT H_inscope
INVARIANT P_quiet
INVARIANT P_verbosity
INVARIANT P_noansi
INVARIANT P_ansi
INVARIANT P_nointeraction
INVARIANT P_help
INVARIANT P_version
INVARIANT P_afterdd
INVARIANT A_runall
INVARIANT Emit
