SPECIFICATION Spec
CONSTANTS
  BaseIds = {1, 2, 3, 4, 5, 6, 7, 8, 9, 10, 11, 12, 13, 14, 15, 16, 17, 18, 19, 20, 21, 22, 23, 24, 25}
  Toks = {"-q", "--quiet", "-v", "-vv", "-vvv", "--ansi", "--no-ansi", "-n", "--no-interaction", "-h", "--help", "-V", "--version"}
  MaxSw = 2
  LitToks = {"-q", "--help", "-vvv"}
  MaxLit = 1
  Behs = {"ok", "code", "meddle"}
  Streams = {"none", "both", "out", "err"}
  Rounds = 1
  SecondIds = {1}
INVARIANT H_inscope
INVARIANT P_quiet
INVARIANT P_verbosity
INVARIANT P_noansi
INVARIANT P_ansi
INVARIANT P_nointeraction
INVARIANT P_help
INVARIANT P_version
INVARIANT P_command
INVARIANT P_afterdd
INVARIANT A_runall
INVARIANT Emit
