SPECIFICATION TSpec
