------------------------------ MODULE Streams ------------------------------
(* Extension beyond the twenty properties: input side, output streams and three utilities of clikit.
   Everything here is an A-layer - a transcription of what the code does (observations about where that differs
   from a reasonable reading of the docstrings are in docs/notes_ext_streams.md).  Disagreement with the real
   classes is DRIFT, never a VIOLATION.

   Three state machines share the variables (st.mk tells which):
     "in"   Input over StringInputStream ("string"), over StreamInputStream on a text stream ("text", also
            StandardInputStream with sys.stdin substituted) or over NullInputStream ("null")
     "out"  BufferedOutputStream ("buffered"), StreamOutputStream on a fake text stream ("stream", also
            Standard/ErrorOutputStream with sys.stdout / sys.stderr substituted), NullOutputStream ("null")
     "term" utils.terminal.Terminal: COLUMNS / LINES first, then the cached platform query, then the fallback
   and pure functions as tables: FormatTime, SupportsAnsi, SupportsUtf8, Similar (find_similar_command_names).
   Text is a sequence of 1-character strings; "N" stands for the newline character.                          *)
EXTENDS Integers, Sequences, FiniteSets, TLC

VARIABLES st,     \* the machine's state (a record; field mk)
          last    \* the last operation with its result
vars == <<st, last>>

NL == "N"
Range(f) == {f[k] : k \in DOMAIN f}
Min(a, b) == IF a < b THEN a ELSE b

\* ------------------------------------------------------------------ results
RNone == [k |-> "none", v |-> <<>>, b |-> FALSE, i |-> 0, x |-> ""]
RBytes(v) == [RNone EXCEPT !.k = "bytes", !.v = v]
RStr(v) == [RNone EXCEPT !.k = "str", !.v = v]
RBool(b) == [RNone EXCEPT !.k = "bool", !.b = b]
RInt(i) == [RNone EXCEPT !.k = "int", !.i = i]
RExc(x) == [RNone EXCEPT !.k = "exc", !.x = x]
RDefault == [RNone EXCEPT !.k = "default"]      \* the caller's default came back
NoUnder == [text |-> <<>>, flushes |-> 0, closed |-> FALSE]

\* ================================================================== input side
\* StringInputStream keeps bytes: what it returns is `bytes`, except at the end of the data, where the `or ""` /
\* `return ""` of StreamInputStream turn the empty read into the str "".  A text stream gives str throughout.
Data(kind, v) == IF v = <<>> THEN RStr(<<>>) ELSE IF kind = "string" THEN RBytes(v) ELSE RStr(v)

InInit(kind, content) == [mk |-> "in", kind |-> kind, buf |-> content, pos |-> 0, closed |-> FALSE, inter |-> TRUE]

Rest(s) == SubSeq(s.buf, s.pos + 1, Len(s.buf))
\* io.BytesIO.read / io.StringIO.read: n < 0 reads everything that is left
Take(s, n) == IF n < 0 THEN Rest(s) ELSE SubSeq(Rest(s), 1, Min(n, Len(Rest(s))))
\* readline(size): up to and including the first newline, at most size characters if size >= 0 (-1 = None = no limit)
LineLen(r) == IF \E k \in 1..Len(r) : r[k] = NL THEN CHOOSE k \in 1..Len(r) : r[k] = NL /\ \A j \in 1..(k - 1) : r[j] # NL
              ELSE Len(r)
TakeLine(s, n) == LET r == Rest(s)
                      m == IF n < 0 THEN LineLen(r) ELSE Min(n, LineLen(r))
                  IN SubSeq(r, 1, m)

\* Input.read(length, default) / Input.read_line(length, default): not interactive -> the default, untouched stream
InRead(s, n, line) ==
  IF ~s.inter THEN [s |-> s, r |-> RDefault]
  ELSE IF s.kind = "null" THEN [s |-> s, r |-> RStr(<<>>)]
  ELSE IF s.closed THEN [s |-> s, r |-> RExc("UnsupportedOperation")]
  ELSE LET d == IF line THEN TakeLine(s, n) ELSE Take(s, n)
       IN [s |-> [s EXCEPT !.pos = s.pos + Len(d)], r |-> Data(s.kind, d)]
InClose(s) == [s |-> IF s.kind = "null" THEN s ELSE [s EXCEPT !.closed = TRUE], r |-> RNone]
InIsClosed(s) == [s |-> s, r |-> RBool(s.kind # "null" /\ s.closed)]
\* StringInputStream.set / append / clear work on the BytesIO directly: ValueError once it is closed
InSet(s, t) == IF s.closed THEN [s |-> s, r |-> RExc("ValueError")] ELSE [s |-> [s EXCEPT !.buf = t, !.pos = 0], r |-> RNone]
InAppend(s, t) == IF s.closed THEN [s |-> s, r |-> RExc("ValueError")] ELSE [s |-> [s EXCEPT !.buf = s.buf \o t], r |-> RNone]
InClear(s) == InSet(s, <<>>)
InSetInteractive(s, b) == [s |-> [s EXCEPT !.inter = b], r |-> RNone]
InIsInteractive(s) == [s |-> s, r |-> RBool(s.inter)]

\* ================================================================== output streams
OutInit(kind) == [mk |-> "out", kind |-> kind, buf |-> <<>>, closed |-> FALSE, flushes |-> 0]
\* the class of the error raised by a closed stream: IOError (= OSError) in the buffered one, io.UnsupportedOperation otherwise
ClosedExc(kind) == IF kind = "buffered" THEN "OSError" ELSE "UnsupportedOperation"
OutWrite(s, t) ==
  IF s.kind = "null" THEN [s |-> s, r |-> RNone]
  ELSE IF s.closed THEN [s |-> s, r |-> RExc(ClosedExc(s.kind))]
  ELSE [s |-> [s EXCEPT !.buf = s.buf \o t, !.flushes = IF s.kind = "stream" THEN s.flushes + 1 ELSE s.flushes], r |-> RNone]
OutFlush(s) ==
  IF s.kind = "null" THEN [s |-> s, r |-> RNone]
  ELSE IF s.closed THEN [s |-> s, r |-> RExc(ClosedExc(s.kind))]
  ELSE [s |-> [s EXCEPT !.flushes = IF s.kind = "stream" THEN s.flushes + 1 ELSE s.flushes], r |-> RNone]
OutFetch(s) == [s |-> s, r |-> RStr(s.buf)]                                \* buffered only; also after close
OutClear(s) == [s |-> [s EXCEPT !.buf = <<>>], r |-> RNone]                \* buffered only; also after close
OutClose(s) == [s |-> IF s.kind = "null" THEN s ELSE [s EXCEPT !.closed = TRUE], r |-> RNone]
OutIsClosed(s) == [s |-> s, r |-> RBool(s.kind # "null" /\ s.closed)]
\* what the fake stream under a StreamOutputStream has received
Under(s) == IF s.mk = "out" /\ s.kind = "stream" THEN [text |-> s.buf, flushes |-> s.flushes, closed |-> s.closed] ELSE NoUnder

\* ================================================================== Terminal (width / height)
\* env value of COLUMNS / LINES: [set, blank (only white space), numeric, num]; the text is stripped
\* platform query: q = [none, w, h]; on "windows" the console query comes first and tput second
TermInit(plat, q1, q2) == [mk |-> "term", plat |-> plat, q1 |-> q1, q2 |-> q2, cw |-> -1, ch |-> -1, cached |-> FALSE, queries |-> 0]
Unix(plat) == plat \in {"linux", "darwin", "cygwin_nt-10.0"}
Dims(s) ==
  LET d == IF s.plat = "windows" THEN (IF ~s.q1.none THEN s.q1 ELSE s.q2)
           ELSE IF Unix(s.plat) THEN s.q1
           ELSE [none |-> TRUE, w |-> 0, h |-> 0]
      e == IF d.none THEN [w |-> 80, h |-> 25] ELSE [w |-> d.w, h |-> d.h]
  IN IF e.w <= 0 THEN [w |-> 80, h |-> e.h] ELSE e
NQueries(s) == IF s.plat = "windows" THEN (IF s.q1.none THEN 2 ELSE 1) ELSE IF Unix(s.plat) THEN 1 ELSE 0
\* which: "w" or "h".  A non-blank environment value wins every time and is not validated (0, negative);
\* a non-numeric one raises ValueError; otherwise the cached query (made once, for both dimensions)
TermGet(s, which, env) ==
  IF env.set /\ ~env.blank
  THEN (IF env.numeric THEN [s |-> s, r |-> RInt(env.num)] ELSE [s |-> s, r |-> RExc("ValueError")])
  ELSE LET need == IF which = "w" THEN s.cw = -1 ELSE s.ch = -1
           s2 == IF need /\ ~s.cached THEN [s EXCEPT !.cw = Dims(s).w, !.ch = Dims(s).h, !.cached = TRUE, !.queries = s.queries + NQueries(s)]
                 ELSE s
       IN [s |-> s2, r |-> RInt(IF which = "w" THEN s2.cw ELSE s2.ch)]

\* ================================================================== tables
\* utils.time.format_time for integer seconds: [none: nothing returned, n (0 = no number), unit]
CeilDiv(a, b) == (a + b - 1) \div b
FormatTime(t) ==
  IF t <= 0 THEN [none |-> FALSE, n |-> 0, unit |-> "< 1 sec"]
  ELSE IF t <= 2 THEN [none |-> FALSE, n |-> 0, unit |-> "1 sec"]               \* also for 2 seconds
  ELSE IF t <= 59 THEN [none |-> FALSE, n |-> t, unit |-> "secs"]
  ELSE IF t <= 60 THEN [none |-> FALSE, n |-> 0, unit |-> "1 min"]
  ELSE IF t <= 3600 THEN [none |-> FALSE, n |-> CeilDiv(t, 60), unit |-> "mins"]   \* 61 s = "2 mins" .. "60 mins"
  ELSE IF t <= 5400 THEN [none |-> FALSE, n |-> 0, unit |-> "1 hr"]
  ELSE IF t <= 86400 THEN [none |-> FALSE, n |-> CeilDiv(t, 3600), unit |-> "hrs"]
  ELSE IF t <= 129600 THEN [none |-> FALSE, n |-> 0, unit |-> "1 day"]
  ELSE IF t <= 604800 THEN [none |-> FALSE, n |-> CeilDiv(t, 86400), unit |-> "days"]
  ELSE [none |-> TRUE, n |-> 0, unit |-> ""]                                     \* beyond a week: None
TimeBreaks == {0, 2, 59, 60, 3600, 5400, 86400, 129600, 604800}

\* StreamOutputStream.supports_ansi.  isatty: 0 no, 1 yes, 2 fileno() raises io.UnsupportedOperation.
\* On "windows" only the environment part is modelled (the console-mode part needs the Windows API): result "n/a"
SupportsAnsi(plat, ansicon, conemu, term, hasfileno, isatty) ==
  IF plat = "windows"
  THEN (IF ansicon \/ conemu = "ON" \/ term = "xterm" THEN "yes" ELSE IF ~hasfileno THEN "no" ELSE "n/a")
  ELSE IF ~hasfileno THEN "no" ELSE IF isatty = 1 THEN "yes" ELSE "no"
\* supports_utf8: the codec name of the stream's encoding; an unknown encoding counts as UTF-8
SupportsUtf8(enc) == enc \in {"utf-8", "UTF8", "utf_8", "no-such-codec"}

\* ---- find_similar_command_names
RECURSIVE Lev(_, _)
Lev(a, b) == IF a = <<>> THEN Len(b) ELSE IF b = <<>> THEN Len(a)
             ELSE LET c == IF Head(a) = Head(b) THEN 0 ELSE 1
                      x == Lev(Tail(a), b) + 1
                      y == Lev(a, Tail(b)) + 1
                      z == Lev(Tail(a), Tail(b)) + c
                  IN Min(Min(x, y), z)
\* str.find: 0-based position of the first occurrence, -1 if none (the empty text is found at 0)
Occurs(n, h, p) == p + Len(n) <= Len(h) /\ SubSeq(h, p + 1, p + Len(n)) = n
Find(n, h) == IF \E p \in 0..Len(h) : Occurs(n, h, p) THEN CHOOSE p \in 0..Len(h) : Occurs(n, h, p) /\ \A j \in 0..(p - 1) : ~Occurs(n, h, j)
              ELSE -1
Inf == 1000000
Alphabet == <<"-", "a", "b", "c", "d", "e", "f", "g", "h", "i", "j", "k", "l", "m", "n", "o", "p", "q", "r", "s", "t", "u", "v", "w", "x", "y", "z">>
Ord(ch) == CHOOSE k \in 1..Len(Alphabet) : Alphabet[k] = ch
RECURSIVE Less(_, _)          \* a < b as Python compares str
Less(a, b) == IF b = <<>> THEN FALSE ELSE IF a = <<>> THEN TRUE
              ELSE IF Head(a) = Head(b) THEN Less(Tail(a), Tail(b)) ELSE Ord(Head(a)) < Ord(Head(b))
\* candidates: distance <= len(name) / 3, or the name occurs in the candidate; key (distance, position | inf);
\* the names arrive sorted (get_names), the sort is stable: equal keys stay in alphabetical order
Cand(q, n) == Lev(q, n) * 3 <= Len(q) \/ Find(q, n) # -1
Key(q, n) == <<Lev(q, n), IF Find(q, n) # -1 THEN Find(q, n) ELSE Inf>>
Before(q, a, b) == LET ka == Key(q, a) kb == Key(q, b)
                   IN ka[1] < kb[1] \/ (ka[1] = kb[1] /\ (ka[2] < kb[2] \/ (ka[2] = kb[2] /\ Less(a, b))))
RECURSIVE SortBy(_, _)
SortBy(q, S) == IF S = {} THEN <<>>
                ELSE LET m == CHOOSE a \in S : \A b \in S \ {a} : Before(q, a, b) IN <<m>> \o SortBy(q, S \ {m})
Similar(q, names) == SortBy(q, {n \in names : Cand(q, n)})
=============================================================================
