---------------------------- MODULE MC_Streams ----------------------------
(* Operation sequences of the three machines (history-variable pattern: every sequence up to Depth is a state and
   the maximal ones are emitted for replay on the real objects) and the tables of the pure functions (one initial
   state per row, emitted at once).                                                                            *)
EXTENDS Streams, Json

CONSTANTS Depth,        \* length of the operation sequences
          Machines,     \* subset of {"in", "out", "term"}
          Tables,       \* subset of {"time", "ansi", "utf8", "similar"}
          SimilarMax    \* size of the name collections for find_similar_command_names

VARIABLE hist
hvars == <<vars, hist>>

A == <<"a">>
AB_N_C == <<"a", "b", NL, "c">>
N_X == <<NL, "x">>
XY_N == <<"x", "y", NL>>
Contents == {<<>>, AB_N_C, N_X}

Env0 == [set |-> FALSE, blank |-> FALSE, numeric |-> FALSE, num |-> 0]
EnvBlank == [set |-> TRUE, blank |-> TRUE, numeric |-> FALSE, num |-> 0]
EnvNum(n) == [set |-> TRUE, blank |-> FALSE, numeric |-> TRUE, num |-> n]
EnvBad == [set |-> TRUE, blank |-> FALSE, numeric |-> FALSE, num |-> 0]
Envs == {Env0, EnvBlank, EnvNum(120), EnvNum(0), EnvBad}
QNone == [none |-> TRUE, w |-> 0, h |-> 0]
Q(w, h) == [none |-> FALSE, w |-> w, h |-> h]

Op(op, n, t, b, env, r, s) == [op |-> op, n |-> n, t |-> t, b |-> b, env |-> env, r |-> r, under |-> Under(s)]
Do(res, op, n, t, b, env) == /\ st' = res.s /\ last' = Op(op, n, t, b, env, res.r, res.s)

InOps ==
  \/ \E n \in {-1, 0, 1, 3} : Do(InRead(st, n, FALSE), "read", n, <<>>, FALSE, Env0)
  \/ \E n \in {-1, 0, 1, 3} : Do(InRead(st, n, TRUE), "read_line", n, <<>>, FALSE, Env0)
  \/ Do(InClose(st), "close", 0, <<>>, FALSE, Env0)
  \/ Do(InIsClosed(st), "is_closed", 0, <<>>, FALSE, Env0)
  \/ \E b \in BOOLEAN : Do(InSetInteractive(st, b), "set_interactive", 0, <<>>, b, Env0)
  \/ Do(InIsInteractive(st), "is_interactive", 0, <<>>, FALSE, Env0)
  \/ (st.kind = "string" /\ \E t \in {A, XY_N} : Do(InSet(st, t), "set", 0, t, FALSE, Env0))
  \/ (st.kind = "string" /\ Do(InAppend(st, XY_N), "append", 0, XY_N, FALSE, Env0))
  \/ (st.kind = "string" /\ Do(InClear(st), "clear", 0, <<>>, FALSE, Env0))
OutOps ==
  \/ \E t \in {A, XY_N} : Do(OutWrite(st, t), "write", 0, t, FALSE, Env0)
  \/ Do(OutFlush(st), "flush", 0, <<>>, FALSE, Env0)
  \/ Do(OutClose(st), "close", 0, <<>>, FALSE, Env0)
  \/ Do(OutIsClosed(st), "is_closed", 0, <<>>, FALSE, Env0)
  \/ (st.kind = "buffered" /\ Do(OutFetch(st), "fetch", 0, <<>>, FALSE, Env0))
  \/ (st.kind = "buffered" /\ Do(OutClear(st), "clear", 0, <<>>, FALSE, Env0))
TermOps ==
  \/ \E e \in Envs : Do(TermGet(st, "w", e), "width", 0, <<>>, FALSE, e)
  \/ \E e \in Envs : Do(TermGet(st, "h", e), "height", 0, <<>>, FALSE, e)

New(s) == /\ st = s /\ last = Op("new", 0, <<>>, FALSE, Env0, RNone, s) /\ hist = <<>>
\* via: how the object is built - "direct", or through Standard{Input,Output}Stream / ErrorOutputStream with the
\* sys.std* object substituted ("stdin", "stdout", "stderr"); init: the initial content
InitMachines ==
  \/ ("in" \in Machines /\ \E kv \in {<<"string", "direct">>, <<"text", "direct">>, <<"text", "stdin">>, <<"null", "direct">>}, c \in Contents :
        (kv[1] = "null" => c = <<>>) /\ New(InInit(kv[1], c) @@ [via |-> kv[2], init |-> c]))
  \/ ("out" \in Machines /\ \E kv \in {<<"buffered", "direct">>, <<"stream", "direct">>, <<"stream", "stdout">>, <<"stream", "stderr">>, <<"null", "direct">>} :
        New(OutInit(kv[1]) @@ [via |-> kv[2]]))
  \/ ("term" \in Machines /\ \E plat \in {"linux", "darwin", "cygwin_nt-10.0", "windows", "freebsd"} :
        \E q1 \in {QNone, Q(100, 30), Q(0, 40)}, q2 \in {QNone, Q(90, 20)} :
          (plat # "windows" => q2 = QNone) /\ New(TermInit(plat, q1, q2)))

\* ------------------------------------------------------------------ tables (st.mk = "tbl", no steps)
Row(r) == /\ st = [mk |-> "tbl", row |-> r] /\ last = Op("row", 0, <<>>, FALSE, Env0, RNone, [mk |-> "tbl"]) /\ hist = <<>>
TimePoints == UNION {{b - 1, b, b + 1} : b \in TimeBreaks} \cup {7, 61, 119, 120, 121, 3540, 3541, 7200, 7201, 90000, 172800, 172801, 700000}
Names == << <<"a", "d", "d">>, <<"a", "d", "d", "s">>, <<"a", "b", "o", "u", "t">>, <<"b", "a", "d">>, <<"r", "e", "-", "a", "d", "d">>, <<"l", "i", "s", "t">>, <<"d", "a">> >>
Queries == { <<"a", "d", "d">>, <<"a", "d">>, <<"a", "d", "s">>, <<"l", "i", "s">>, <<"a", "b", "u", "t">>, <<>>, <<"x">>, <<"b", "a", "d", "d">> }
InitTables ==
  \/ ("time" \in Tables /\ \E t \in TimePoints : Row([tbl |-> "time", t |-> t, out |-> FormatTime(t)]))
  \/ ("ansi" \in Tables /\ \E plat \in {"linux", "windows"}, ac \in BOOLEAN, ce \in {"", "ON", "OFF"}, tm \in {"", "xterm"},
                               hf \in BOOLEAN, tty \in {0, 1, 2} :
        Row([tbl |-> "ansi", plat |-> plat, ansicon |-> ac, conemu |-> ce, term |-> tm, hasfileno |-> hf, isatty |-> tty,
             out |-> SupportsAnsi(plat, ac, ce, tm, hf, tty)]))
  \/ ("utf8" \in Tables /\ \E enc \in {"utf-8", "UTF8", "utf_8", "latin-1", "ascii", "no-such-codec"} :
        Row([tbl |-> "utf8", enc |-> enc, out |-> SupportsUtf8(enc)]))
  \/ ("similar" \in Tables /\ \E q \in Queries : \E S \in SUBSET (1..Len(Names)) :
        /\ Cardinality(S) \in 1..SimilarMax
        /\ Row([tbl |-> "similar", q |-> q, names |-> S, out |-> Similar(q, {Names[k] : k \in S})]))

Init == InitMachines \/ InitTables
Next == /\ st.mk # "tbl" /\ Len(hist) < Depth
        /\ \/ (st.mk = "in" /\ InOps)
           \/ (st.mk = "out" /\ OutOps)
           \/ (st.mk = "term" /\ TermOps)
        /\ hist' = Append(hist, last')
Spec == Init /\ [][Next]_hvars

RECURSIVE Flat(_)
Flat(s) == IF s = <<>> THEN "" ELSE s[1] \o Flat(Tail(s))
OpJ(o) == [op |-> o.op, n |-> o.n, t |-> Flat(o.t), b |-> o.b, env |-> o.env,
           r |-> [k |-> o.r.k, v |-> Flat(o.r.v), b |-> o.r.b, i |-> o.r.i, x |-> o.r.x],
           under |-> [text |-> Flat(o.under.text), flushes |-> o.under.flushes, closed |-> o.under.closed]]
EmitSeq == (st.mk # "tbl" /\ Len(hist) = Depth) =>
   PrintT(ToJson([mk |-> st.mk,
                  par |-> IF st.mk = "in" THEN [kind |-> st.kind, via |-> st.via, init |-> Flat(st.init)]
                          ELSE IF st.mk = "out" THEN [kind |-> st.kind, via |-> st.via]
                          ELSE [plat |-> st.plat, q1 |-> st.q1, q2 |-> st.q2],
                  ops |-> [k \in 1..Len(hist) |-> OpJ(hist[k])]]))
EmitRow == (st.mk = "tbl") =>
   PrintT(ToJson(IF st.row.tbl = "similar"
                 THEN [tbl |-> "similar", q |-> Flat(st.row.q), names |-> [k \in 1..Len(Names) |-> IF k \in st.row.names THEN Flat(Names[k]) ELSE ""],
                       out |-> [k \in 1..Len(st.row.out) |-> Flat(st.row.out[k])]]
                 ELSE st.row))
TypeOK == st.mk \in {"in", "out", "term", "tbl"} /\ Len(hist) <= Depth
=============================================================================
