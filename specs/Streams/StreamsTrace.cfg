SPECIFICATION TSpec
