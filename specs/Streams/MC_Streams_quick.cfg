SPECIFICATION Spec
CONSTANTS
  Depth = 3
  Machines = {"in", "out", "term"}
  Tables = {"time", "ansi", "utf8", "similar"}
  SimilarMax = 3
INVARIANT TypeOK
INVARIANT EmitSeq
INVARIANT EmitRow
