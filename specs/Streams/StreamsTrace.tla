---------------------------- MODULE StreamsTrace ----------------------------
(* Recorded operation sequences of the real stream / terminal objects, and recorded rows of the pure functions,
   compared with Streams.  Only Note clauses: a difference is DRIFT (the model no longer describes the code).
   event: [op, par [kind, via, init, plat, q1, q2], n, t, b, env, r [k, v, b, i, x], under [text, flushes, closed],
           row [tbl, lo, hi, out [none, n, unit], plat, ansicon, conemu, term, hasfileno, isatty, outs, enc, outb,
                q, names, dist, outl]]
   a machine trace starts with op "new"; table traces consist of op "row" events.                            *)
EXTENDS Streams, TraceKit

VARIABLES tid, l
tvars == <<vars, tid, l>>
T == Traces[tid]
Ev == T[l]

Dummy == [mk |-> "tbl"]
Build(p, mk) ==
  IF mk = "in" THEN InInit(p.kind, p.init)
  ELSE IF mk = "out" THEN OutInit(p.kind)
  ELSE TermInit(p.plat, p.q1, p.q2)

Apply(s, e) ==
  IF s.mk = "in" THEN
    (CASE e.op = "read" -> InRead(s, e.n, FALSE) [] e.op = "read_line" -> InRead(s, e.n, TRUE)
       [] e.op = "close" -> InClose(s) [] e.op = "is_closed" -> InIsClosed(s)
       [] e.op = "set" -> InSet(s, e.t) [] e.op = "append" -> InAppend(s, e.t) [] e.op = "clear" -> InClear(s)
       [] e.op = "set_interactive" -> InSetInteractive(s, e.b) [] e.op = "is_interactive" -> InIsInteractive(s))
  ELSE IF s.mk = "out" THEN
    (CASE e.op = "write" -> OutWrite(s, e.t) [] e.op = "flush" -> OutFlush(s) [] e.op = "fetch" -> OutFetch(s)
       [] e.op = "clear" -> OutClear(s) [] e.op = "close" -> OutClose(s) [] e.op = "is_closed" -> OutIsClosed(s))
  ELSE (CASE e.op = "width" -> TermGet(s, "w", e.env) [] e.op = "height" -> TermGet(s, "h", e.env))

RowOK(r) ==
  CASE r.tbl = "time" -> \A t \in r.lo..r.hi : FormatTime(t) = r.out
    [] r.tbl = "ansi" -> r.outs = SupportsAnsi(r.plat, r.ansicon, r.conemu, r.term, r.hasfileno, r.isatty)
    [] r.tbl = "utf8" -> r.outb = SupportsUtf8(r.enc)
    [] r.tbl = "similar" -> r.outl = Similar(r.q, Range(r.names))
\* the distances the library (pylev) reported are the edit distances of the model
DistOK(r) == r.tbl = "similar" => \A k \in 1..Len(r.names) : r.dist[k] = Lev(r.q, r.names[k])
\* the recorded time segments follow each other without a gap
CoverOK(e) == (e.row.tbl = "time" /\ l > 1 /\ T[l - 1].row.tbl = "time") => e.row.lo = T[l - 1].row.hi + 1

TInit == /\ tid \in 1..NTraces /\ l = 1 /\ st = Dummy /\ last = Dummy
TNew == /\ l <= Len(T) /\ Ev.op = "new" /\ st' = Build(Ev.par, Ev.mk) /\ last' = Dummy
        /\ l' = l + 1 /\ tid' = tid
TOp == /\ l <= Len(T) /\ Ev.op \notin {"new", "row"}
       /\ LET a == Apply(st, Ev)
          IN /\ st' = a.s /\ last' = Dummy
             /\ Note(tid, l, "A." \o st.mk \o "." \o Ev.op, Ev.r = a.r)
             /\ Note(tid, l, "A.under", Ev.under = Under(a.s))
       /\ l' = l + 1 /\ tid' = tid
TRow == /\ l <= Len(T) /\ Ev.op = "row" /\ UNCHANGED vars
        /\ Note(tid, l, "A.table." \o Ev.row.tbl, RowOK(Ev.row))
        /\ Note(tid, l, "A.similar.distance", DistOK(Ev.row))
        /\ Note(tid, l, "A.time.cover", CoverOK(Ev))
        /\ l' = l + 1 /\ tid' = tid
TDone == /\ l = Len(T) + 1 /\ l' = l + 1 /\ tid' = tid /\ UNCHANGED vars /\ Accept(tid)
TNext == TNew \/ TOp \/ TRow \/ TDone
TSpec == TInit /\ [][TNext]_tvars
=============================================================================
