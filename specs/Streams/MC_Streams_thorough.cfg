SPECIFICATION Spec
CONSTANTS
  Depth = 4
  Machines = {"in", "out", "term"}
  Tables = {"time", "ansi", "utf8", "similar"}
  SimilarMax = 5
INVARIANT TypeOK
INVARIANT EmitSeq
INVARIANT EmitRow
