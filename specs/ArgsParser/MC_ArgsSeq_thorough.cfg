SPECIFICATION Spec
CONSTANTS
  MaxReqs = 3
  ResetOptions = TRUE
INVARIANT SameAsFresh
INVARIANT Emit
