SPECIFICATION Spec
CONSTANT MaxLen = 3
INVARIANT Allowed
INVARIANT LenientTotal
INVARIANT StrictOkImpliesLenientSame
INVARIANT ScratchSane
INVARIANT MalformedRejected
INVARIANT Emit
