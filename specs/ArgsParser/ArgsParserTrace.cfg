SPECIFICATION TSpec
INVARIANT Allowed
