----------------------------- MODULE ArgsParser -----------------------------
(* clikit.args.DefaultArgsParser + clikit.api.args.Args   (properties C01, C02, C05)

   A-layer: the parser as the code runs it - one action per token of _parse (TokPositional, TokSeparator,
            TokOption), then Align (_insert_missing_command_names), Validate, Store (typed conversion
            into Args); the scratch maps _arguments / _options are the ordered maps argsS / optsS.
   P-layer: Intended(asg) for a line that spells an assignment (C01); Allowed outcomes, lenient totality and
            strict/lenient agreement for arbitrary token lists (C02); independence of earlier parses (C05).

   Tokens, option names and values are sequences of 1-character strings; argument names are opaque strings. *)
EXTENDS Integers, Sequences, FiniteSets, TLC, Conv

\* ------------------------------------------------------------------ values
NoneV == [t |-> "N"]
TrueV == [t |-> "T"]
Str(s) == [t |-> "s", v |-> s]
IntV(ds) == [t |-> "I", v |-> ds]     \* a (non-negative) Python int given as a default, by its digits
Lst(l) == [t |-> "L", v |-> l]
CmdV(k) == [t |-> "C", v |-> k]             \* the CommandName object inserted for an omitted command name
NoErr == "none"

\* ------------------------------------------------------------------ ordered maps (Python dicts keep insertion order)
Keys(m) == { m[i].k : i \in 1..Len(m) }
HasKey(m, k) == k \in Keys(m)
Idx(m, k) == CHOOSE i \in 1..Len(m) : m[i].k = k
Get(m, k) == m[Idx(m, k)].v
Put(m, k, v) == IF HasKey(m, k) THEN [m EXCEPT ![Idx(m, k)].v = v] ELSE Append(m, [k |-> k, v |-> v])
\* (a value that is not a list can only be a leftover of another format's parse: the defect variant of MC_ArgsSeq)
AppendTo(m, k, v) == IF HasKey(m, k) THEN [m EXCEPT ![Idx(m, k)].v = IF @.t = "L" THEN Lst(@.v \o <<v>>) ELSE Lst(<<v>>)]
                     ELSE Append(m, [k |-> k, v |-> Lst(<<v>>)])

StartsDash(tok) == Len(tok) >= 1 /\ tok[1] = "-"
Drop(s, n) == SubSeq(s, n + 1, Len(s))
PosEq(s) == IF \E i \in 1..Len(s) : s[i] = "="
            THEN CHOOSE i \in 1..Len(s) : s[i] = "=" /\ \A j \in 1..(i - 1) : s[j] # "=" ELSE 0

\* ------------------------------------------------------------------ format queries
\* format = [cnames: Seq([n, al]), args: Seq([name, req, multi, type, nullable, dflt]),
\*           opts: Seq([long, short, mode, type, nullable, dflt])]    mode: "none" | "req" | "opt" | "multi"
OptIdx(f, name) ==   \* has_option/get_option: by long name, or by short name
  LET S == { k \in 1..Len(f.opts) : f.opts[k].long = name \/ (Len(name) = 1 /\ f.opts[k].short = name[1]) }
  IN IF S = {} THEN 0 ELSE CHOOSE k \in S : \A k2 \in S : k <= k2
HasOpt(f, name) == OptIdx(f, name) # 0
Opt(f, name) == f.opts[OptIdx(f, name)]
Accepts(o) == o.mode # "none"
CmdName(k) == CASE k = 1 -> "cmd1" [] k = 2 -> "cmd2" [] k = 3 -> "cmd3" [] OTHER -> "cmdN"
CmdArg(k) == [name |-> CmdName(k), req |-> TRUE, multi |-> FALSE, type |-> "str", nullable |-> FALSE, dflt |-> NoneV]
\* the internal format: one required pseudo-argument per command name, then the real arguments
AllArgs(f) == [k \in 1..Len(f.cnames) |-> CmdArg(k)] \o f.args
Match(cn, tok) == cn.n = tok \/ \E k \in 1..Len(cn.al) : cn.al[k] = tok

\* ------------------------------------------------------------------ option steps (results are records [o, r, e])
R(o, r, e) == [o |-> o, r |-> r, e |-> e]

\* _add_long_option(name, value, tokens): value is NoneV or Str(..)
AddLong(f, o, r, name, value) ==
  IF ~HasOpt(f, name) THEN R(o, r, "NoSuchOption")
  ELSE
    LET op == Opt(f, name) IN
    IF value # NoneV /\ ~Accepts(op) THEN R(o, r, "CannotParse")
    ELSE
      LET look == value = NoneV /\ Accepts(op) /\ Len(r) > 0
          nxt  == IF look THEN r[1] ELSE <<>>
          \* next token non-empty and not a dash token: taken as the value; empty: taken (as ""); dash: left alone
          v1   == IF look /\ Len(nxt) >= 1 /\ nxt[1] # "-" THEN Str(nxt)
                  ELSE IF look /\ Len(nxt) = 0 THEN Str(<<>>) ELSE value
          r1   == IF look /\ (Len(nxt) = 0 \/ nxt[1] # "-") THEN Tail(r) ELSE r
          v2   == IF v1 = Str(<<>>) THEN NoneV ELSE v1          \* "--foo=" and an empty value token mean "no value"
      IN IF v2 = NoneV /\ op.mode \in {"req", "multi"} THEN R(o, r1, "CannotParse")
         ELSE LET v3 == IF v2 = NoneV THEN (IF op.mode = "opt" THEN op.dflt ELSE TrueV) ELSE v2
              IN IF op.mode = "multi" THEN R(AppendTo(o, name, v3), r1, NoErr)
                 ELSE R(Put(o, name, v3), r1, NoErr)

AddShort(f, o, r, name, value) ==
  IF ~HasOpt(f, name) THEN R(o, r, "NoSuchOption")
  ELSE AddLong(f, o, r, Opt(f, name).long, value)

\* value token following an option that accepts a value
PopValue(r) == IF Len(r) = 0 THEN <<NoneV, r>>
               ELSE IF StartsDash(r[1]) THEN <<NoneV, r>>
               ELSE <<Str(r[1]), Tail(r)>>

LongTok(f, o, r, tok) ==
  LET name == Drop(tok, 2)
      p == PosEq(name)
  IN IF p # 0 THEN AddLong(f, o, r, SubSeq(name, 1, p - 1), Str(Drop(name, p)))
     ELSE IF HasOpt(f, name) /\ Accepts(Opt(f, name))
          THEN LET pv == PopValue(r) IN AddLong(f, o, pv[2], name, pv[1])
          ELSE AddLong(f, o, r, name, NoneV)

RECURSIVE ShortSet(_, _, _, _, _)
ShortSet(f, o, r, name, i) ==
  IF i > Len(name) THEN R(o, r, NoErr)
  ELSE IF ~HasOpt(f, <<name[i]>>) THEN R(o, r, "NoSuchOption")
  ELSE LET op == Opt(f, <<name[i]>>) IN
       IF Accepts(op)
       THEN AddLong(f, o, r, op.long, IF i = Len(name) THEN NoneV ELSE Str(Drop(name, i)))
       ELSE LET res == AddLong(f, o, r, op.long, NoneV)
            IN IF res.e # NoErr THEN res ELSE ShortSet(f, res.o, res.r, name, i + 1)

ShortTok(f, o, r, tok) ==
  LET name == Drop(tok, 1) IN
  IF Len(name) > 1
  THEN IF HasOpt(f, <<name[1]>>) /\ Accepts(Opt(f, <<name[1]>>))
       THEN AddShort(f, o, r, <<name[1]>>, Str(Drop(name, 1)))
       ELSE ShortSet(f, o, r, name, 1)
  ELSE IF HasOpt(f, name) /\ Accepts(Opt(f, name))
       THEN LET pv == PopValue(r) IN AddShort(f, o, pv[2], name, pv[1])
       ELSE AddShort(f, o, r, name, NoneV)

\* _parse_argument: <<argsS', error>>; the position is the number of argument keys set so far
Positional(f, a, tok, len) ==
  LET c == Len(a)
      as == AllArgs(f)
      n == Len(as)
  IN IF c < n
     THEN LET ar == as[c + 1] IN
          <<IF ar.multi THEN AppendTo(a, ar.name, Str(tok)) ELSE Put(a, ar.name, Str(tok)), NoErr>>
     ELSE IF c >= 1 /\ c = n /\ as[c].multi
     THEN <<AppendTo(a, as[c].name, Str(tok)), NoErr>>
     ELSE <<a, IF len THEN NoErr ELSE "CannotParse">>

\* ------------------------------------------------------------------ the parser object and one parse
VARIABLES fmt, lenient, line,       \* the request
          rest, popts,              \* _parse: remaining tokens, "still before --"
          argsS, optsS,             \* parser._arguments / parser._options
          err, phase,               \* outcome: NoErr | "CannotParse" | "NoSuchOption" | "ValueError"
          result                    \* the Args object (when phase = "done" and err = NoErr)
vars == <<fmt, lenient, line, rest, popts, argsS, optsS, err, phase, result>>

NoResult == [aset |-> <<>>, aval |-> <<>>, oset |-> <<>>, oval |-> <<>>]

\* parse(): both scratch maps start empty
Begin(f, len, toks) ==
  /\ fmt = f /\ lenient = len /\ line = toks
  /\ rest = toks /\ popts = TRUE /\ argsS = <<>> /\ optsS = <<>> /\ err = NoErr /\ phase = "scan" /\ result = NoResult
BeginNext(f, len, toks) ==
  /\ fmt' = f /\ lenient' = len /\ line' = toks
  /\ rest' = toks /\ popts' = TRUE /\ argsS' = <<>> /\ optsS' = <<>> /\ err' = NoErr /\ phase' = "scan" /\ result' = NoResult

\* an exception leaving _parse: strict - it is the outcome; lenient - the remaining tokens are skipped
Abort(e) ==
  /\ IF lenient THEN err' = NoErr /\ phase' = "align" ELSE err' = e /\ phase' = "done"
  /\ rest' = <<>>

IsPositionalTok(tok) == (popts /\ tok = <<>>) \/ ~popts \/ ~StartsDash(tok) \/ tok = <<"-">>

TokPositional ==
  /\ phase = "scan" /\ rest # <<>>
  /\ LET tok == Head(rest) IN
     /\ IsPositionalTok(tok) /\ ~(popts /\ tok = <<"-", "-">>)
     /\ LET pr == Positional(fmt, argsS, tok, lenient) IN
        IF pr[2] = NoErr THEN argsS' = pr[1] /\ rest' = Tail(rest) /\ UNCHANGED <<err, phase>>
        ELSE Abort(pr[2]) /\ UNCHANGED argsS
  /\ UNCHANGED <<fmt, lenient, line, popts, optsS, result>>

TokSeparator ==
  /\ phase = "scan" /\ rest # <<>> /\ popts /\ Head(rest) = <<"-", "-">>
  /\ popts' = FALSE /\ rest' = Tail(rest)
  /\ UNCHANGED <<fmt, lenient, line, argsS, optsS, err, phase, result>>

TokOption ==
  /\ phase = "scan" /\ rest # <<>> /\ popts
  /\ LET tok == Head(rest) IN
     /\ StartsDash(tok) /\ tok # <<"-">> /\ tok # <<"-", "-">>
     /\ LET res == IF Len(tok) >= 2 /\ tok[2] = "-" THEN LongTok(fmt, optsS, Tail(rest), tok)
                   ELSE ShortTok(fmt, optsS, Tail(rest), tok)
        IN IF res.e = NoErr THEN optsS' = res.o /\ rest' = res.r /\ UNCHANGED <<err, phase>>
           ELSE Abort(res.e) /\ optsS' = res.o
  /\ UNCHANGED <<fmt, lenient, line, popts, argsS, result>>

EndScan == /\ phase = "scan" /\ rest = <<>> /\ phase' = "align"
           /\ UNCHANGED <<fmt, lenient, line, rest, popts, argsS, optsS, err, result>>

\* ---- _insert_missing_command_names: re-align the positional values when leading command names were omitted
RECURSIVE Flatten(_)
Flatten(m) == IF m = <<>> THEN <<>>
              ELSE (IF Head(m).v.t = "L" THEN Head(m).v.v ELSE <<Head(m).v>>) \o Flatten(Tail(m))
RECURSIVE SkipCount(_, _, _)      \* how many leading values spell the leading command names
SkipCount(vals, cns, k) ==
  IF k < Len(vals) /\ k < Len(cns) /\ vals[k + 1].t = "s" /\ vals[k + 1].v # <<>> /\ Match(cns[k + 1], vals[k + 1].v)
  THEN SkipCount(vals, cns, k + 1) ELSE k
RECURSIVE Assign(_, _, _, _)      \* values (from index i) onto arguments (from index j): <<map, tooMany>>
Assign(vals, i, as, st) ==
  \* st = [j, m]: next argument index, map built so far
  IF i > Len(vals) THEN <<st.m, FALSE>>
  ELSE IF st.j > Len(as) THEN <<st.m, TRUE>>
  ELSE LET ar == as[st.j] IN
       IF ar.multi THEN Assign(vals, i + 1, as, [j |-> st.j, m |-> AppendTo(st.m, ar.name, vals[i])])
       ELSE Assign(vals, i + 1, as, [j |-> st.j + 1, m |-> Put(st.m, ar.name, vals[i])])
RECURSIVE Update(_, _)
Update(m, fixed) == IF fixed = <<>> THEN m ELSE Update(Put(m, Head(fixed).k, Head(fixed).v), Tail(fixed))

Align ==
  /\ phase = "align"
  /\ LET vals == Flatten(argsS)
         n == Len(fmt.cnames)
         k == SkipCount(vals, fmt.cnames, 0)
         names == [j \in 1..(n - k) |-> [k |-> CmdArg(k + j).name, v |-> CmdV(k + j)]]   \* omitted names are filled in
         as == Assign(vals, k + 1, AllArgs(fmt), [j |-> n + 1, m |-> names])
     IN IF as[2] /\ ~lenient
        THEN err' = "CannotParse" /\ phase' = "done" /\ UNCHANGED argsS
        ELSE argsS' = Update(argsS, as[1]) /\ phase' = "validate" /\ UNCHANGED err
  /\ UNCHANGED <<fmt, lenient, line, rest, popts, optsS, result>>

Validate ==
  /\ phase = "validate"
  /\ LET as == AllArgs(fmt)
         missing == \E k \in 1..Len(as) : as[k].req /\ ~HasKey(argsS, as[k].name)
     IN IF missing /\ ~lenient THEN err' = "CannotParse" /\ phase' = "done"
        ELSE err' = NoErr /\ phase' = "store"
  /\ UNCHANGED <<fmt, lenient, line, rest, popts, argsS, optsS, result>>

\* ---- Args.set_argument / set_option: typed conversion
ConvV(el, v) ==      \* v: NoneV | Str; TrueV / Lst only reach here when a scratch map carries entries of another format
  IF v.t = "N" THEN Conv(el.type, el.nullable, TRUE, <<>>)
  ELSE IF v.t = "T" THEN (CASE el.type = "str" -> [k |-> "str", v |-> <<"t", "r", "u", "e">>]
                            [] el.type = "bool" -> [k |-> "bool", v |-> TRUE]
                            [] el.type = "int" -> [k |-> "int", neg |-> FALSE, digits |-> <<"1">>]
                            [] OTHER -> [k |-> "float?"])
  ELSE IF v.t = "L" THEN (IF el.type = "str" THEN [k |-> "str", v |-> <<"<list>">>] ELSE [k |-> "ValueError"])
  \* a default that is a Python int (parse_string: str(n); parse_boolean: by its decimal text; parse_int: itself)
  ELSE IF v.t = "I" THEN (CASE el.type = "str" -> [k |-> "str", v |-> v.v]
                            [] el.type = "bool" -> (IF v.v = <<"1">> THEN [k |-> "bool", v |-> TRUE]
                                                    ELSE IF v.v = <<"0">> THEN [k |-> "bool", v |-> FALSE] ELSE [k |-> "ValueError"])
                            [] el.type = "int" -> [k |-> "int", neg |-> FALSE, digits |-> v.v]
                            [] OTHER -> [k |-> "float?"])
  ELSE Conv(el.type, el.nullable, FALSE, v.v)
ConvList(el, vs) == [k \in 1..Len(vs) |-> ConvV(el, vs[k])]
Bad(c) == c.k = "ValueError"
TypedArg(ar, v) ==
  IF ar.multi THEN LET l == ConvList(ar, IF v.t = "L" THEN v.v ELSE <<v>>) IN
                   [bad |-> \E k \in 1..Len(l) : Bad(l[k]), v |-> [k |-> "list", v |-> l]]
  ELSE LET c == ConvV(ar, v) IN [bad |-> Bad(c), v |-> c]
TypedOpt(op, v) ==
  IF op.mode = "multi" THEN LET l == ConvList(op, IF v.t = "L" THEN v.v ELSE <<v>>) IN
                            [bad |-> \E k \in 1..Len(l) : Bad(l[k]), v |-> [k |-> "list", v |-> l]]
  ELSE IF Accepts(op) THEN LET c == ConvV(op, v) IN [bad |-> Bad(c), v |-> c]
  ELSE [bad |-> FALSE, v |-> [k |-> "bool", v |-> TRUE]]
\* the raw default an Args object reports for what was not given
RawV(d) == IF d.t = "N" THEN [k |-> "none"]
           ELSE IF d.t = "s" THEN [k |-> "str", v |-> d.v]
           ELSE IF d.t = "T" THEN [k |-> "bool", v |-> TRUE]
           ELSE IF d.t = "I" THEN [k |-> "int", neg |-> FALSE, digits |-> d.v]
           ELSE [k |-> "list", v |-> [j \in 1..Len(d.v) |-> [k |-> "str", v |-> d.v[j].v]]]
ArgDefault(ar) == IF ar.multi /\ ar.dflt.t = "N" THEN [k |-> "list", v |-> <<>>] ELSE RawV(ar.dflt)
OptDefault(op) == IF op.mode = "none" THEN [k |-> "bool", v |-> FALSE]
                  ELSE IF op.mode = "multi" /\ op.dflt.t = "N" THEN [k |-> "list", v |-> <<>>] ELSE RawV(op.dflt)

\* options are stored in the order their keys were first seen; a later key of the same option overrides
LastKeyOf(m, f, j) ==
  LET S == { i \in 1..Len(m) : HasOpt(f, m[i].k) /\ OptIdx(f, m[i].k) = j } IN
  IF S = {} THEN 0 ELSE CHOOSE i \in S : \A i2 \in S : i2 <= i
Store ==
  /\ phase = "store"
  /\ LET aT == [j \in 1..Len(fmt.args) |->
                  IF HasKey(argsS, fmt.args[j].name) THEN TypedArg(fmt.args[j], Get(argsS, fmt.args[j].name))
                  ELSE [bad |-> FALSE, v |-> ArgDefault(fmt.args[j])]]
         oAll == [i \in 1..Len(optsS) |->
                  IF HasOpt(fmt, optsS[i].k) THEN TypedOpt(Opt(fmt, optsS[i].k), optsS[i].v) ELSE [bad |-> FALSE, v |-> [k |-> "none"]]]
         oT == [j \in 1..Len(fmt.opts) |->
                  IF LastKeyOf(optsS, fmt, j) = 0 THEN [bad |-> FALSE, v |-> OptDefault(fmt.opts[j])]
                  ELSE oAll[LastKeyOf(optsS, fmt, j)]]
         bad == (\E j \in 1..Len(aT) : aT[j].bad) \/ (\E i \in 1..Len(oAll) : oAll[i].bad)
     IN IF bad THEN err' = "ValueError" /\ result' = NoResult
        ELSE /\ err' = NoErr
             /\ result' = [aset |-> [j \in 1..Len(fmt.args) |-> HasKey(argsS, fmt.args[j].name)],
                           aval |-> [j \in 1..Len(aT) |-> aT[j].v],
                           oset |-> [j \in 1..Len(fmt.opts) |-> LastKeyOf(optsS, fmt, j) # 0],
                           oval |-> [j \in 1..Len(oT) |-> oT[j].v]]
  /\ phase' = "done"
  /\ UNCHANGED <<fmt, lenient, line, rest, popts, argsS, optsS>>

ParseStep == TokPositional \/ TokSeparator \/ TokOption \/ EndScan \/ Align \/ Validate \/ Store
Finished == phase = "done"

\* ------------------------------------------------------------------ P-layer (C02): what may come out at all
Allowed == Finished => err \in {NoErr, "CannotParse", "NoSuchOption", "ValueError"}
LenientTotal == (Finished /\ lenient) => err \in {NoErr, "ValueError"}
ScratchSane == \A i \in 1..Len(optsS) : HasOpt(fmt, optsS[i].k)

\* ------------------------------------------------------------------ P-layer (C02): malformed lines, read off the line alone
\* A token that starts with a dash is never taken as the value of an option, so every such token in front of the first
\* "--" is an option token whatever surrounds it.  Three of the faults the statement names can therefore be recognised
\* on the line itself, without following the scan (surplus / missing arguments need the scan: single-fault mutations).
SepAt(ln) == IF \E i \in 1..Len(ln) : ln[i] = <<"-", "-">>
             THEN CHOOSE i \in 1..Len(ln) : ln[i] = <<"-", "-">> /\ \A j \in 1..(i - 1) : ln[j] # <<"-", "-">>
             ELSE Len(ln) + 1
IsLongTok(t) == Len(t) > 2 /\ t[1] = "-" /\ t[2] = "-"
IsShortTok(t) == Len(t) >= 2 /\ t[1] = "-" /\ t[2] # "-"
LongName(t) == LET n == Drop(t, 2) IN IF PosEq(n) = 0 THEN n ELSE SubSeq(n, 1, PosEq(n) - 1)
HasEq(t) == PosEq(Drop(t, 2)) # 0
\* an option token whose name identifies no option of the format
UsesUnknownOption(f, ln) == \E i \in 1..(SepAt(ln) - 1) :
   \/ IsLongTok(ln[i]) /\ ~HasOpt(f, LongName(ln[i]))
   \/ IsShortTok(ln[i]) /\ ~HasOpt(f, <<ln[i][2]>>)
\* --flag=value for an option that takes no value
GivesValueToFlag(f, ln) == \E i \in 1..(SepAt(ln) - 1) :
   IsLongTok(ln[i]) /\ HasEq(ln[i]) /\ HasOpt(f, LongName(ln[i])) /\ ~Accepts(Opt(f, LongName(ln[i])))
\* --name (value required) followed by nothing, by an empty token or by a token that starts with a dash; or --name=
OmitsRequiredValue(f, ln) == \E i \in 1..(SepAt(ln) - 1) :
   /\ IsLongTok(ln[i]) /\ HasOpt(f, LongName(ln[i])) /\ Opt(f, LongName(ln[i])).mode \in {"req", "multi"}
   /\ IF HasEq(ln[i]) THEN Drop(ln[i], 2 + PosEq(Drop(ln[i], 2))) = <<>>
      ELSE i = Len(ln) \/ ln[i + 1] = <<>> \/ StartsDash(ln[i + 1])
MalformedOnItsFace(f, ln) == UsesUnknownOption(f, ln) \/ GivesValueToFlag(f, ln) \/ OmitsRequiredValue(f, ln)
ScanErrors == {"CannotParse", "NoSuchOption"}
\* the model itself rejects every such line in strict mode (consistency of the P-predicates with the A-layer)
MalformedRejected == (Finished /\ ~lenient /\ MalformedOnItsFace(fmt, line)) => err \in ScanErrors
=============================================================================
