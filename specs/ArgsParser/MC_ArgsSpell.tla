---------------------------- MODULE MC_ArgsSpell ----------------------------
(* C01 exhaustive: for every format of the family, TLC builds every well-formed recipe item by item (every
   spelling style, every interleaving of options among names and positionals, optional "--"), renders it, runs
   the parser model on the tokens in the chosen mode and checks RoundTrip: the result is Intended(AsgOf(recipe)). *)
EXTENDS ArgsSpell, Json
CONSTANTS MaxItems, MaxPos
VARIABLES fi, recipe, st
svars == <<vars, fi, recipe, st>>

A(name, req, multi, type, nullable, dflt) == [name |-> name, req |-> req, multi |-> multi, type |-> type, nullable |-> nullable, dflt |-> dflt]
O(long, short, mode, type, nullable, dflt) == [long |-> long, short |-> short, mode |-> mode, type |-> type, nullable |-> nullable, dflt |-> dflt]
AA == <<"a", "a">>
BB == <<"b", "-", "b">>
SRV == [n |-> <<"s", "r", "v">>, al |-> <<<<"s">>>>]
ADD == [n |-> <<"a", "d", "d">>, al |-> <<>>]
Formats == <<
  [cnames |-> <<SRV>>, args |-> <<A("x", TRUE, FALSE, "str", FALSE, NoneV), A("y", FALSE, FALSE, "int", FALSE, NoneV)>>,
   opts |-> <<O(AA, "a", "none", "str", FALSE, NoneV), O(BB, "b", "req", "str", TRUE, NoneV)>>],
  [cnames |-> <<>>, args |-> <<A("z", TRUE, TRUE, "str", FALSE, NoneV)>>,
   opts |-> <<O(AA, "a", "opt", "str", FALSE, Str(<<"d">>)), O(BB, "", "multi", "int", FALSE, NoneV)>>],
  [cnames |-> <<SRV, ADD>>, args |-> <<A("x", FALSE, FALSE, "str", TRUE, Str(<<"q">>))>>,
   opts |-> <<O(AA, "a", "none", "str", FALSE, NoneV), O(BB, "b", "none", "str", FALSE, NoneV)>>],
  [cnames |-> <<>>, args |-> <<A("x", TRUE, FALSE, "bool", FALSE, NoneV), A("y", FALSE, FALSE, "str", TRUE, NoneV)>>,
   opts |-> <<O(AA, "a", "req", "int", TRUE, NoneV), O(BB, "b", "opt", "int", FALSE, Str(<<"5">>))>>],
  [cnames |-> <<>>, args |-> <<>>, opts |-> <<O(AA, "a", "multi", "str", FALSE, NoneV), O(BB, "b", "none", "str", FALSE, NoneV)>>],
  [cnames |-> <<ADD>>, args |-> <<A("x", FALSE, FALSE, "str", FALSE, NoneV), A("z", FALSE, TRUE, "int", FALSE, NoneV)>>,
   opts |-> <<O(AA, "", "req", "str", FALSE, NoneV)>>]
>>
PoolOf(type) == CASE type = "str" -> {<<"x">>, <<"n", "u", "l", "l">>, <<"-", "q">>, <<"a", "d", "d">>, <<>>, <<"a", "_", "b">>}
                  [] type = "int" -> {<<"7">>, <<"-", "3">>}
                  [] type = "bool" -> {<<"t", "r", "u", "e">>, <<"0">>}
Styles == {"l=", "l_", "s+", "s_", "l", "s"}
GStyles == {"s", "s+", "s_"}

F == Formats[fi]
\* the next positional's argument (the type decides the value pool)
PosArg == LET n == st.npos + 1 IN
          IF n <= Len(F.args) THEN F.args[n] ELSE F.args[Len(F.args)]
Items ==
  {[k |-> "name", i |-> st.names + 1, alias |-> al] : al \in 0..1}
  \cup (IF F.args = <<>> THEN {} ELSE {[k |-> "pos", v |-> v] : v \in PoolOf(PosArg.type)})
  \cup {[k |-> "sep"]}
  \cup UNION {{[k |-> "opt", j |-> j, style |-> s, v |-> v] : s \in Styles \ {"l", "s"}, v \in PoolOf(F.opts[j].type)} : j \in 1..Len(F.opts)}
  \cup {[k |-> "opt", j |-> j, style |-> s, v |-> <<>>] : j \in 1..Len(F.opts), s \in {"l", "s"}}
  \cup UNION {{[k |-> "grp", j |-> j, j2 |-> j2, style |-> s, v |-> v] : s \in {"s+", "s_"}, v \in PoolOf(F.opts[j2].type)}
               : <<j, j2>> \in (1..Len(F.opts)) \X (1..Len(F.opts))}
  \cup {[k |-> "grp", j |-> p[1], j2 |-> p[2], style |-> "s", v |-> <<>>] : p \in (1..Len(F.opts)) \X (1..Len(F.opts))}

SInit == /\ fi \in 1..Len(Formats) /\ recipe = <<>> /\ st = St0
         /\ \E len \in BOOLEAN : lenient = len
         /\ fmt = Formats[fi] /\ line = <<>> /\ rest = <<>> /\ popts = TRUE /\ argsS = <<>> /\ optsS = <<>>
         /\ err = NoErr /\ phase = "spell" /\ result = NoResult

\* one more item, keeping the recipe completable: no option twice unless multi-valued, not too many positionals
MayAdd(it) ==
  /\ ItemOK(F, st, it)
  /\ (it.k = "pos" => st.npos < MaxPos /\ st.npos + 1 <= NPosMax(F))
  /\ (it.k = "opt" => (F.opts[it.j].mode = "multi" \/ OptOcc(recipe, it.j) = <<>>)
                     /\ (F.opts[it.j].mode = "multi" => it.style \notin {"l", "s"}))
  /\ (it.k = "grp" => OptOcc(recipe, it.j) = <<>> /\ (F.opts[it.j2].mode = "multi" \/ OptOcc(recipe, it.j2) = <<>>)
                     /\ (F.opts[it.j2].mode = "multi" => it.style # "s"))
SpAdd == /\ phase = "spell" /\ Len(recipe) < MaxItems
         /\ \E it \in Items : /\ MayAdd(it)
                             /\ recipe' = Append(recipe, it) /\ st' = StAfter(F, st, it)
                             /\ line' = line \o RenderItem(F, it)
         /\ UNCHANGED <<fi, fmt, lenient, rest, popts, argsS, optsS, err, phase, result>>
SpDone == /\ phase = "spell" /\ WellFormed(F, recipe)
          /\ phase' = "scan" /\ rest' = line
          /\ UNCHANGED <<fi, recipe, st, fmt, lenient, line, popts, argsS, optsS, err, result>>
SNext == SpAdd \/ SpDone \/ (ParseStep /\ UNCHANGED <<fi, recipe, st>>)
SSpec == SInit /\ [][SNext]_svars

RoundTrip == Finished => (err = NoErr /\ result = Intended(F, AsgOf(F, recipe)))
SpellConsistent == phase # "spell" => line = Render(F, recipe)
ASSUME PrintT(<<"FORMATS", ToJson(Formats)>>)
Emit == Finished => PrintT(ToJson([f |-> fi, lenient |-> lenient, line |-> line, recipe |-> recipe, err |-> err, result |-> result]))
=============================================================================
