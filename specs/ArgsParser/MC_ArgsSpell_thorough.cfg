SPECIFICATION SSpec
CONSTANTS
  MaxItems = 4
  MaxPos = 2
INVARIANT RoundTrip
INVARIANT SpellConsistent
INVARIANT Emit
