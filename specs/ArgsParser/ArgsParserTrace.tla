-------------------------- MODULE ArgsParserTrace --------------------------
(* Recorded parses of the real DefaultArgsParser checked against ArgsParser.
   A trace is a sequence of requests issued to ONE parser object.  event:
   [f (format record), line, lenient,
    obs   [err, result]      outcome on the shared parser object
    fresh [err, result]      outcome of the same request on a fresh parser object
    other [err, result]      outcome of the same request in the other leniency mode (fresh parser)
    mut [kind, j]            kind "" or the single fault applied to the rendered recipe (ArgsSpell.MutLine)
    untouched                TRUE iff argv list, raw-args tokens and format listings were the same after the call
    hasRecipe, recipe        the recipe (ArgsSpell) the driver rendered the line from, for well-formed lines (C01)
    hasExtra, extra          access by position / short name / dictionaries, observed on obs when it succeeded]
   The model runs the request; P-clauses are evaluated on the observed outcomes, the model's own outcome is
   compared as an A-clause.                                                                                *)
EXTENDS ArgsSpell, TraceKit

VARIABLES tid, l
tvars == <<vars, tid, l>>
T == Traces[tid]
Ev == T[l]
EmptyFmt == [cnames |-> <<>>, args |-> <<>>, opts |-> <<>>]

TInit == /\ tid \in 1..NTraces /\ l = 1
         /\ IF Len(Traces[tid]) >= 1 THEN Begin(Traces[tid][1].f, Traces[tid][1].lenient, Traces[tid][1].line)
            ELSE Begin(EmptyFmt, FALSE, <<>>)

TStep == l <= Len(T) /\ ~Finished /\ ParseStep /\ UNCHANGED <<tid, l>>

Errors == {NoErr, "CannotParse", "NoSuchOption", "ValueError"}
Strict(e) == IF e.lenient THEN e.other ELSE e.obs
Lenient(e) == IF e.lenient THEN e.obs ELSE e.other

Clauses(e) ==
  /\ Check(tid, l, "P.errors.documented_only", e.obs.err, e.obs.err \in Errors /\ e.other.err \in Errors)
  /\ Check(tid, l, "P.lenient.no_parse_error", Lenient(e).err, Lenient(e).err \in {NoErr, "ValueError"})
  /\ Check(tid, l, "P.lenient.same_as_strict", "", Strict(e).err = NoErr => Lenient(e) = Strict(e))
  \* faults that can be read off the line alone (unknown option, value for a flag, required value left out)
  /\ Check(tid, l, "P.strict.rejects_unknown_option", Strict(e).err, UsesUnknownOption(e.f, e.line) => Strict(e).err \in ScanErrors)
  /\ Check(tid, l, "P.strict.rejects_flag_value", Strict(e).err, GivesValueToFlag(e.f, e.line) => Strict(e).err \in ScanErrors)
  /\ Check(tid, l, "P.strict.rejects_missing_value", Strict(e).err, OmitsRequiredValue(e.f, e.line) => Strict(e).err \in ScanErrors)
  \* the same format declared through command configurations, the mode chosen through Command.parse(raw, lenient):
  \* an explicit mode wins, without one the configuration decides
  /\ Check(tid, l, "P.route.command", IF e.cmd.built THEN "" ELSE e.cmd.dflt.err,
           /\ e.cmd.built
           /\ e.cmd.yes = Lenient(e) /\ e.cmd.no = Strict(e)
           /\ e.cmd.dflt = (IF e.cmd.cfgLenient THEN Lenient(e) ELSE Strict(e)))
  /\ Check(tid, l, "H.recipe.render", "", (e.hasRecipe /\ e.mut.kind = "") => e.line = Render(e.f, e.recipe))
  /\ Check(tid, l, "H.mutation.render", e.mut.kind, e.mut.kind # "" => e.line = MutLine(e.f, e.recipe, e.mut))
  /\ Check(tid, l, "P.mutation.error_class", e.mut.kind,
           (e.mut.kind # "" /\ MutPre(e.f, e.recipe, e.mut)) => Strict(e).err = MutExpect(e.mut))
  \* a recipe the (deliberately sloppy) random generator made but which is not a spelling: counted, nothing claimed
  /\ Note(tid, l, "H.recipe.not_wellformed", e.hasRecipe => WellFormed(e.f, e.recipe))
  /\ Note(tid, l, "H.mutation.not_applicable", e.mut.kind # "" => MutPre(e.f, e.recipe, e.mut))
  /\ Check(tid, l, "P.roundtrip.strict", Strict(e).err,
           (e.hasRecipe /\ e.mut.kind = "" /\ WellFormed(e.f, e.recipe)) =>
              (Strict(e).err = NoErr /\ Strict(e).result = Intended(e.f, AsgOf(e.f, e.recipe))))
  /\ Check(tid, l, "P.roundtrip.lenient", Lenient(e).err,
           (e.hasRecipe /\ e.mut.kind = "" /\ WellFormed(e.f, e.recipe)) =>
              (Lenient(e).err = NoErr /\ Lenient(e).result = Intended(e.f, AsgOf(e.f, e.recipe))))
  /\ Check(tid, l, "P.access.by_position", "", e.hasExtra => (e.extra.avalPos = e.obs.result.aval /\ e.extra.asetPos = e.obs.result.aset))
  /\ Check(tid, l, "P.access.by_short_name", "", e.hasExtra => (e.extra.ovalShort = e.obs.result.oval /\ e.extra.osetShort = e.obs.result.oset))
  /\ Check(tid, l, "P.access.dictionaries", "",
           e.hasExtra => /\ e.extra.allA = e.obs.result.aval /\ e.extra.allO = e.obs.result.oval
                         /\ e.extra.setA = e.obs.result.aset /\ e.extra.setO = e.obs.result.oset /\ e.extra.extraKeys = <<>>)
  /\ Check(tid, l, "P.pure.same_as_fresh", "", e.obs = e.fresh)
  \* the same request answered in a fresh process that never parsed anything and runs under another string-hash seed:
  \* outcome, result and the text of the error message (compared by digest)
  /\ Check(tid, l, "P.pure.same_as_pristine", e.pristine.err,
           e.pristine.err = e.obs.err /\ e.pristine.result = e.obs.result /\ e.pristine.msg = e.msg)
  /\ Check(tid, l, "P.pure.inputs_untouched", "", e.untouched)
  /\ Note(tid, l, "A.outcome", e.obs.err = err /\ (err = NoErr => e.obs.result = result))

TCompare ==
  /\ l <= Len(T) /\ Finished
  /\ Clauses(Ev)
  /\ l' = l + 1 /\ tid' = tid
  /\ IF l + 1 <= Len(T) THEN BeginNext(T[l + 1].f, T[l + 1].lenient, T[l + 1].line) ELSE UNCHANGED vars

TDone == /\ l = Len(T) + 1 /\ l' = l + 1 /\ tid' = tid /\ UNCHANGED vars /\ Accept(tid)
TNext == TStep \/ TCompare \/ TDone
TSpec == TInit /\ [][TNext]_tvars
=============================================================================
