SPECIFICATION Spec
CONSTANTS
  MaxReqs = 2
  ResetOptions = FALSE
INVARIANT SameAsFresh
