SPECIFICATION Spec
CONSTANTS
  MaxReqs = 2
  ResetOptions = TRUE
INVARIANT SameAsFresh
INVARIANT Emit
