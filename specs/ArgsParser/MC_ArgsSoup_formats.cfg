SPECIFICATION Spec
CONSTANT MaxLen = 0
INVARIANT Allowed
