SPECIFICATION Spec
CONSTANT MaxLen = 4
INVARIANT Allowed
INVARIANT LenientTotal
INVARIANT StrictOkImpliesLenientSame
INVARIANT ScratchSane
INVARIANT MalformedRejected
INVARIANT Emit
