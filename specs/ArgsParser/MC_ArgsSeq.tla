----------------------------- MODULE MC_ArgsSeq -----------------------------
(* C05: parsing is a pure function of (tokens, format, mode).
   Two instances of the parser model live in one state: S - one long-lived parser object that serves a sequence
   of requests, its scratch maps surviving between requests exactly as far as parse() lets them; F - a parser
   object created for each request.  Every request is run on F, then on S; SameAsFresh compares the outcomes.
   ResetOptions = TRUE is the code as repaired (both scratch maps are reset on entry); FALSE is the pinned defect
   (only the arguments were reset) and must make TLC report SameAsFresh violated - the vacuity guard.           *)
EXTENDS Integers, Sequences, FiniteSets, TLC, Json

CONSTANTS MaxReqs, ResetOptions
VARIABLES sfmt, slenient, sline, srest, spopts, sargsS, soptsS, serr, sphase, sresult,
          ffmt, flenient, fline, frest, fpopts, fargsS, foptsS, ferr, fphase, fresult,
          turn,      \* "F" | "S" | "next"
          hist       \* outcomes so far: [f, lenient, line, err, result]
svars == <<sfmt, slenient, sline, srest, spopts, sargsS, soptsS, serr, sphase, sresult>>
fvars == <<ffmt, flenient, fline, frest, fpopts, fargsS, foptsS, ferr, fphase, fresult>>
allvars == <<svars, fvars, turn, hist>>

S == INSTANCE ArgsParser WITH fmt <- sfmt, lenient <- slenient, line <- sline, rest <- srest, popts <- spopts,
                              argsS <- sargsS, optsS <- soptsS, err <- serr, phase <- sphase, result <- sresult
F == INSTANCE ArgsParser WITH fmt <- ffmt, lenient <- flenient, line <- fline, rest <- frest, popts <- fpopts,
                              argsS <- fargsS, optsS <- foptsS, err <- ferr, phase <- fphase, result <- fresult

A(name, req, multi, type, nullable, dflt) == [name |-> name, req |-> req, multi |-> multi, type |-> type, nullable |-> nullable, dflt |-> dflt]
O(long, short, mode, type, nullable, dflt) == [long |-> long, short |-> short, mode |-> mode, type |-> type, nullable |-> nullable, dflt |-> dflt]
AA == <<"a", "a">>
BB == <<"b", "b">>
NoneV == [t |-> "N"]
\* formats sharing option names, so that what one parse leaves behind means something to the next
Formats == <<
  [cnames |-> <<>>, args |-> <<A("x", FALSE, FALSE, "str", FALSE, NoneV)>>,
   opts |-> <<O(AA, "a", "none", "str", FALSE, NoneV), O(BB, "b", "req", "str", FALSE, NoneV)>>],
  [cnames |-> <<>>, args |-> <<A("x", TRUE, FALSE, "str", FALSE, NoneV), A("z", FALSE, TRUE, "str", FALSE, NoneV)>>,
   opts |-> <<O(AA, "a", "multi", "str", FALSE, NoneV)>>],
  [cnames |-> <<[n |-> <<"s", "r", "v">>, al |-> <<>>]>>, args |-> <<A("x", FALSE, FALSE, "str", FALSE, NoneV)>>,
   opts |-> <<O(BB, "b", "none", "str", FALSE, NoneV)>>]
>>
Lines == { <<>>, <<<<"x">>>>, <<<<"-", "-", "a", "a">>>>, <<<<"-", "-", "a", "a", "=", "v">>, <<"x">>>>, <<<<"-", "b">>, <<"x">>>>,
           <<<<"-", "-", "z", "z">>>>, <<<<"x">>, <<"y">>, <<"-", "-", "b", "b">>, <<"w">>>>, <<<<"s", "r", "v">>, <<"-", "b">>>>,
           <<<<"x">>, <<"y">>, <<"z">>>> }
Requests == { <<k, len, ln>> : k \in 1..Len(Formats), len \in BOOLEAN, ln \in Lines }

BeginS(f, len, toks) ==       \* parse() on the long-lived object
  /\ sfmt' = f /\ slenient' = len /\ sline' = toks /\ srest' = toks /\ spopts' = TRUE
  /\ sargsS' = <<>>
  /\ soptsS' = IF ResetOptions THEN <<>> ELSE soptsS
  /\ serr' = "none" /\ sphase' = "scan" /\ sresult' = S!NoResult
BeginF(f, len, toks) ==       \* a new parser object
  /\ ffmt' = f /\ flenient' = len /\ fline' = toks /\ frest' = toks /\ fpopts' = TRUE
  /\ fargsS' = <<>> /\ foptsS' = <<>> /\ ferr' = "none" /\ fphase' = "scan" /\ fresult' = F!NoResult

Init == /\ \E r \in Requests : S!Begin(Formats[r[1]], r[2], r[3]) /\ F!Begin(Formats[r[1]], r[2], r[3])
        /\ turn = "F" /\ hist = <<>>
StepF == turn = "F" /\ ~F!Finished /\ F!ParseStep /\ UNCHANGED <<svars, turn, hist>>
SwitchS == turn = "F" /\ F!Finished /\ turn' = "S" /\ UNCHANGED <<svars, fvars, hist>>
StepS == turn = "S" /\ ~S!Finished /\ S!ParseStep /\ UNCHANGED <<fvars, turn, hist>>
Record == /\ turn = "S" /\ S!Finished /\ turn' = "next"
          /\ hist' = Append(hist, [f |-> CHOOSE k \in 1..Len(Formats) : Formats[k] = sfmt, lenient |-> slenient, line |-> sline,
                                   err |-> serr, result |-> sresult])
          /\ UNCHANGED <<svars, fvars>>
NextReq == /\ turn = "next" /\ Len(hist) < MaxReqs
           /\ \E r \in Requests : BeginS(Formats[r[1]], r[2], r[3]) /\ BeginF(Formats[r[1]], r[2], r[3])
           /\ turn' = "F" /\ UNCHANGED hist
Next == StepF \/ SwitchS \/ StepS \/ Record \/ NextReq
Spec == Init /\ [][Next]_allvars

SameAsFresh == (turn = "S" /\ S!Finished) => (serr = ferr /\ sresult = fresult)
ASSUME PrintT(<<"FORMATS", ToJson(Formats)>>)
Emit == (turn = "next" /\ Len(hist) = MaxReqs) => PrintT(ToJson(hist))
=============================================================================
