SPECIFICATION SSpec
CONSTANTS
  MaxItems = 7
  MaxPos = 3
INVARIANT RoundTrip
INVARIANT SpellConsistent
INVARIANT Emit
