---------------------------- MODULE MC_ArgsSoup ----------------------------
(* C02: every token list up to MaxLen over an adversarial alphabet x a family of small formats.
   Each input is parsed strictly and then leniently by the same parser object (so the agreement clause is a
   state invariant and parser re-use is exercised); both outcomes are emitted for replay.                 *)
EXTENDS ArgsParser, Json
CONSTANT MaxLen
VARIABLES fi, first      \* index of the format; outcome of the strict parse once it is finished
svars == <<vars, fi, first>>

A(name, req, multi, type, nullable, dflt) == [name |-> name, req |-> req, multi |-> multi, type |-> type, nullable |-> nullable, dflt |-> dflt]
O(long, short, mode, type, nullable, dflt) == [long |-> long, short |-> short, mode |-> mode, type |-> type, nullable |-> nullable, dflt |-> dflt]
AA == <<"a", "a">>
BB == <<"b", "b">>
Formats == <<
  [cnames |-> <<>>, args |-> <<>>, opts |-> <<>>],
  [cnames |-> <<>>, args |-> <<A("x", TRUE, FALSE, "str", FALSE, NoneV)>>, opts |-> <<O(AA, "a", "none", "str", FALSE, NoneV)>>],
  [cnames |-> <<>>, args |-> <<A("x", TRUE, FALSE, "str", FALSE, NoneV), A("y", FALSE, FALSE, "int", FALSE, NoneV)>>,
   opts |-> <<O(AA, "a", "req", "str", TRUE, NoneV), O(BB, "b", "none", "str", FALSE, NoneV)>>],
  [cnames |-> <<>>, args |-> <<A("z", FALSE, TRUE, "str", FALSE, NoneV)>>,
   opts |-> <<O(AA, "a", "opt", "int", FALSE, NoneV), O(BB, "", "multi", "str", FALSE, NoneV)>>],
  [cnames |-> <<[n |-> <<"s", "r", "v">>, al |-> <<<<"s">>>>]>>, args |-> <<A("x", FALSE, FALSE, "str", FALSE, NoneV)>>,
   opts |-> <<O(AA, "a", "opt", "str", FALSE, Str(<<"d">>))>>],
  [cnames |-> <<>>, args |-> <<>>, opts |-> <<O(AA, "a", "req", "int", TRUE, NoneV), O(BB, "b", "none", "bool", FALSE, NoneV)>>],
  [cnames |-> <<>>, args |-> <<A("x", TRUE, FALSE, "bool", FALSE, NoneV), A("z", FALSE, TRUE, "int", TRUE, NoneV)>>,
   opts |-> <<O(AA, "a", "multi", "int", FALSE, NoneV), O(BB, "b", "opt", "bool", TRUE, NoneV)>>]
>>
TokAlpha == { <<>>, <<"-">>, <<"-", "-">>, <<"-", "-", "-">>, <<"-", "-", "=">>, <<"-", "=">>,
              <<"-", "-", "a", "a">>, <<"-", "-", "a", "a", "=", "x">>, <<"-", "-", "a", "a", "=">>, <<"-", "-", "a", "a", "=", "7">>,
              <<"-", "-", "z", "z">>, <<"-", "a">>, <<"-", "a", "x">>, <<"-", "a", "b">>, <<"-", "b", "a">>, <<"-", "z">>,
              <<"-", "5">>, <<"n", "u", "l", "l">>, <<"x">>, <<"7">>, <<"s", "r", "v">>, <<"s">>,
              <<"-", "-", "b", "b">>, <<"-", "b">>, <<"-", "-", "a">>,
              <<"-", "-", "-", "a", "a">> }      \* one dash too many in front of a declared name
Lines(n) == UNION { [1..k -> TokAlpha] : k \in 0..n }

Outcome == [err |-> err, result |-> result]
NoOutcome == [err |-> "pending", result |-> NoResult]

Init == \E k \in 1..Len(Formats), toks \in Lines(MaxLen) :
          fi = k /\ first = NoOutcome /\ Begin(Formats[k], FALSE, toks)
\* the same parser object parses the same input again, leniently
Again == /\ Finished /\ ~lenient /\ first' = Outcome /\ BeginNext(fmt, TRUE, line) /\ UNCHANGED fi
Next == (ParseStep /\ UNCHANGED <<fi, first>>) \/ Again
Spec == Init /\ [][Next]_svars

\* whenever strict parsing succeeds, lenient parsing returns the identical result
StrictOkImpliesLenientSame == (Finished /\ lenient /\ first.err = NoErr) => (err = NoErr /\ result = first.result)
ASSUME PrintT(<<"FORMATS", ToJson(Formats)>>)
Emit == Finished => PrintT(ToJson([f |-> fi, lenient |-> lenient, line |-> line, err |-> err, result |-> result]))
=============================================================================
