SPECIFICATION SSpec
CONSTANTS
  MaxItems = 3
  MaxPos = 2
INVARIANT RoundTrip
INVARIANT SpellConsistent
INVARIANT Emit
