------------------------------ MODULE ArgsSpell ------------------------------
(* C01: which command lines spell an assignment, and what the assignment means.

   An assignment gives, per argument and option of a format, NotGiven / Flag (given without value) / Str(text) /
   Lst(texts).  A recipe is a sequence of items; Render turns it into tokens; RecipeOK says the recipe is one of
   the spellings the property speaks of (GNU-style syntax can express it unambiguously).  The Sp* actions build
   exactly the valid recipes token by token, so TLC enumerates all spellings and interleavings.             *)
EXTENDS ArgsParser

NotGiven == [t |-> "-"]
FlagV == [t |-> "F"]

\* ------------------------------------------------------------------ Intended(fmt, asg): the P-layer of C01
TypedOf(el, txt) == Conv(el.type, el.nullable, FALSE, txt)
TypedList(el, l) == [k |-> "list", v |-> [j \in 1..Len(l) |-> TypedOf(el, l[j].v)]]
IntendedArg(ar, g) ==
  IF g = NotGiven THEN ArgDefault(ar)
  ELSE IF ar.multi THEN TypedList(ar, g.v) ELSE TypedOf(ar, g.v)
IntendedOpt(op, g) ==
  IF g = NotGiven THEN OptDefault(op)
  ELSE IF op.mode = "none" THEN [k |-> "bool", v |-> TRUE]
  ELSE IF op.mode = "multi" THEN TypedList(op, g.v)
  ELSE IF g = FlagV THEN ConvV(op, op.dflt)          \* optional value left out: the option's default
  ELSE TypedOf(op, g.v)
Intended(f, asg) ==
  [aset |-> [j \in 1..Len(f.args) |-> asg.args[j] # NotGiven],
   aval |-> [j \in 1..Len(f.args) |-> IntendedArg(f.args[j], asg.args[j])],
   oset |-> [j \in 1..Len(f.opts) |-> asg.opts[j] # NotGiven],
   oval |-> [j \in 1..Len(f.opts) |-> IntendedOpt(f.opts[j], asg.opts[j])]]

\* ------------------------------------------------------------------ recipes
\* items: [k "name", i, alias (0 = the name itself)] [k "pos", v] [k "sep"]
\*        [k "opt", j, style, v]   style: "l=" --long=v | "l_" --long v | "s+" -sv | "s_" -s v | "l" --long | "s" -s
\*        [k "grp", j, j2, style, v]  -<s_j><s_j2>  with style "s" (both flags) | "s+" (-abv) | "s_" (-ab v)
DD == <<"-", "-">>
LongT(op) == DD \o op.long
ShortT(op) == <<"-", op.short>>
RenderItem(f, it) ==
  CASE it.k = "name" -> <<IF it.alias = 0 THEN f.cnames[it.i].n ELSE f.cnames[it.i].al[it.alias]>>
    [] it.k = "pos" -> <<it.v>>
    [] it.k = "sep" -> <<DD>>
    [] it.k = "opt" ->
         LET op == f.opts[it.j] IN
         (CASE it.style = "l=" -> <<LongT(op) \o <<"=">> \o it.v>>
            [] it.style = "l_" -> <<LongT(op), it.v>>
            [] it.style = "s+" -> <<ShortT(op) \o it.v>>
            [] it.style = "s_" -> <<ShortT(op), it.v>>
            [] it.style = "l" -> <<LongT(op)>>
            [] it.style = "s" -> <<ShortT(op)>>)
    [] it.k = "grp" ->
         LET a == f.opts[it.j]
             b == f.opts[it.j2]
             g == <<"-", a.short, b.short>>
         IN (CASE it.style = "s" -> <<g>> [] it.style = "s+" -> <<g \o it.v>> [] it.style = "s_" -> <<g, it.v>>)
RECURSIVE Render(_, _)
Render(f, rc) == IF rc = <<>> THEN <<>> ELSE RenderItem(f, Head(rc)) \o Render(f, Tail(rc))

\* ---- validity of one more item, given the summary `st` of what was emitted so far
\* st = [names: number of command names given, stopped: no more names may follow, sep, bare: the previous token is an
\*       optional-value option without value (a following plain token would be taken as its value), npos]
St0 == [names |-> 0, stopped |-> FALSE, sep |-> FALSE, bare |-> FALSE, npos |-> 0]
SepValueOK(v) == v # <<>> /\ ~StartsDash(v)       \* a value in a token of its own
ItemOK(f, st, it) ==
  CASE it.k = "name" -> /\ ~st.stopped /\ ~st.bare /\ ~st.sep /\ it.i = st.names + 1 /\ it.i <= Len(f.cnames)
                        /\ it.alias \in 0..Len(f.cnames[it.i].al)
    [] it.k = "pos" -> /\ ~st.bare
                       /\ (st.sep \/ ~StartsDash(it.v))
                       \* with command names left out, the first positional must not read as the next one
                       /\ (st.npos = 0 /\ st.names < Len(f.cnames) => ~Match(f.cnames[st.names + 1], it.v))
    [] it.k = "sep" -> ~st.sep
    [] it.k = "opt" ->
         LET op == f.opts[it.j] IN
         /\ ~st.sep
         /\ (CASE it.style = "l=" -> Accepts(op) /\ it.v # <<>>
               [] it.style = "l_" -> Accepts(op) /\ SepValueOK(it.v)
               [] it.style = "s+" -> Accepts(op) /\ op.short # "" /\ it.v # <<>>
               [] it.style = "s_" -> Accepts(op) /\ op.short # "" /\ SepValueOK(it.v)
               [] it.style = "l" -> op.mode \in {"none", "opt"}
               [] it.style = "s" -> op.mode \in {"none", "opt"} /\ op.short # "")
    [] it.k = "grp" ->
         LET a == f.opts[it.j]
             b == f.opts[it.j2]
         IN /\ ~st.sep /\ a.mode = "none" /\ a.short # "" /\ b.short # "" /\ it.j # it.j2
            /\ (CASE it.style = "s" -> b.mode \in {"none", "opt"}
                  [] it.style = "s+" -> Accepts(b) /\ it.v # <<>>
                  [] it.style = "s_" -> Accepts(b) /\ SepValueOK(it.v))
BareAfter(f, it) ==
  \/ (it.k = "opt" /\ it.style \in {"l", "s"} /\ f.opts[it.j].mode = "opt")
  \/ (it.k = "grp" /\ it.style = "s" /\ f.opts[it.j2].mode = "opt")
StAfter(f, st, it) ==
  [names |-> IF it.k = "name" THEN st.names + 1 ELSE st.names,
   stopped |-> st.stopped \/ it.k \in {"pos", "sep"},
   sep |-> st.sep \/ it.k = "sep",
   bare |-> BareAfter(f, it),
   npos |-> IF it.k = "pos" THEN st.npos + 1 ELSE st.npos]
RECURSIVE RecipeOKFrom(_, _, _)
RecipeOKFrom(f, st, rc) == IF rc = <<>> THEN TRUE
                           ELSE ItemOK(f, st, Head(rc)) /\ RecipeOKFrom(f, StAfter(f, st, Head(rc)), Tail(rc))
RecipeOK(f, rc) == RecipeOKFrom(f, St0, rc)

\* ---- the assignment a recipe spells (values in command-line order)
PosTexts(rc) == SelectSeq(rc, LAMBDA it : it.k = "pos")
RECURSIVE OptOcc(_, _)      \* occurrences of option j: sequence of FlagV / Str
OptOcc(rc, j) ==
  IF rc = <<>> THEN <<>>
  ELSE LET it == Head(rc)
           here == IF it.k = "opt" /\ it.j = j THEN <<IF it.style \in {"l", "s"} THEN FlagV ELSE Str(it.v)>>
                   ELSE IF it.k = "grp" /\ it.j = j THEN <<FlagV>>
                   ELSE IF it.k = "grp" /\ it.j2 = j THEN <<IF it.style = "s" THEN FlagV ELSE Str(it.v)>>
                   ELSE <<>>
       IN here \o OptOcc(Tail(rc), j)
\* positional texts fill the arguments in order; a trailing multi-valued argument takes the rest
ArgOf(f, ps, j) ==
  LET ar == f.args[j] IN
  IF ar.multi THEN (IF Len(ps) >= j THEN Lst([k \in 1..(Len(ps) - j + 1) |-> Str(ps[j + k - 1].v)]) ELSE NotGiven)
  ELSE IF Len(ps) >= j THEN Str(ps[j].v) ELSE NotGiven
OptOf(f, occ, j) ==
  IF occ = <<>> THEN NotGiven
  ELSE IF f.opts[j].mode = "multi" THEN Lst(occ)
  ELSE occ[Len(occ)]
AsgOf(f, rc) ==
  [args |-> [j \in 1..Len(f.args) |-> ArgOf(f, PosTexts(rc), j)],
   opts |-> [j \in 1..Len(f.opts) |-> OptOf(f, OptOcc(rc, j), j)]]
\* a recipe must spell a complete, well-formed assignment: no surplus positionals, every required argument,
\* single-valued options at most once, multi-valued occurrences all with values
NPosMax(f) == IF Len(f.args) > 0 /\ f.args[Len(f.args)].multi THEN 99 ELSE Len(f.args)
NRequired(f) == Cardinality({j \in 1..Len(f.args) : f.args[j].req})
Complete(f, rc) ==
  /\ Len(PosTexts(rc)) <= NPosMax(f) /\ Len(PosTexts(rc)) >= NRequired(f)
  /\ \A j \in 1..Len(f.opts) :
       LET occ == OptOcc(rc, j) IN
       /\ (f.opts[j].mode # "multi" => Len(occ) <= 1)
       /\ (f.opts[j].mode = "multi" => \A k \in 1..Len(occ) : occ[k] # FlagV)
\* the texts convert to the declared types (otherwise the line is malformed: C02's business)
Converts(el, txt) == ~Bad(Conv(el.type, el.nullable, FALSE, txt))
AsgConverts(f, asg) ==
  /\ \A j \in 1..Len(f.args) : LET g == asg.args[j] IN
       IF g = NotGiven THEN TRUE
       ELSE IF f.args[j].multi THEN \A k \in 1..Len(g.v) : Converts(f.args[j], g.v[k].v) ELSE Converts(f.args[j], g.v)
  /\ \A j \in 1..Len(f.opts) : LET g == asg.opts[j] IN
       IF g = NotGiven \/ f.opts[j].mode = "none" THEN TRUE
       ELSE IF g = FlagV THEN ~Bad(ConvV(f.opts[j], f.opts[j].dflt))
       ELSE IF g.t = "s" THEN Converts(f.opts[j], g.v)
       ELSE \A k \in 1..Len(g.v) : Converts(f.opts[j], g.v[k].v)
WellFormed(f, rc) == RecipeOK(f, rc) /\ Complete(f, rc) /\ AsgConverts(f, AsgOf(f, rc))

\* ------------------------------------------------------------------ single-fault mutations of a spelling (C02)
\* mut = [kind, j]: one token appended to / removed from the end of a well-formed line; the fault fixes the error class
RECURSIVE FinalSt(_, _, _)
FinalSt(f, st, rc) == IF rc = <<>> THEN st ELSE FinalSt(f, StAfter(f, st, Head(rc)), Tail(rc))
ZZ == <<"z", "z", "9">>
LastIsPos(rc) == rc # <<>> /\ rc[Len(rc)].k = "pos"
MutPre(f, rc, mut) ==
  LET st == FinalSt(f, St0, rc) IN
  /\ WellFormed(f, rc)
  /\ CASE mut.kind \in {"surplus", "surplussep"} -> ~st.bare /\ Len(PosTexts(rc)) = NPosMax(f)   \* every argument slot is taken
       [] mut.kind \in {"unknown", "unknownval"} -> ~st.sep /\ ~HasOpt(f, ZZ)
       \* one dash too many in front of a declared long name: the name "-long" is not declared
       [] mut.kind = "overdash" -> ~st.sep /\ mut.j \in 1..Len(f.opts)
       [] mut.kind = "unkshort" -> ~st.sep /\ \A j \in 1..Len(f.opts) : f.opts[j].short # "Q"
       [] mut.kind = "flagvalue" -> ~st.sep /\ mut.j \in 1..Len(f.opts) /\ f.opts[mut.j].mode = "none"
       [] mut.kind = "stripvalue" -> ~st.sep /\ mut.j \in 1..Len(f.opts) /\ f.opts[mut.j].mode \in {"req", "multi"}
       [] mut.kind = "dropreq" -> LastIsPos(rc) /\ Len(PosTexts(rc)) = NRequired(f)          \* the last required argument goes
MutLine(f, rc, mut) ==
  CASE mut.kind = "surplus" -> Render(f, rc) \o <<ZZ>>
    \* the surplus positional is a "--" behind the separator (a second "--" is a value like any other)
    [] mut.kind = "surplussep" -> Render(f, rc) \o (IF FinalSt(f, St0, rc).sep THEN <<DD>> ELSE <<DD, DD>>)
    [] mut.kind = "unknown" -> Render(f, rc) \o <<DD \o ZZ>>
    [] mut.kind = "unknownval" -> Render(f, rc) \o <<DD \o ZZ \o <<"=", "v">>>>
    [] mut.kind = "overdash" -> Render(f, rc) \o <<<<"-">> \o LongT(f.opts[mut.j])>>
    [] mut.kind = "unkshort" -> Render(f, rc) \o <<<<"-", "Q">>>>
    [] mut.kind = "flagvalue" -> Render(f, rc) \o <<LongT(f.opts[mut.j]) \o <<"=", "v">>>>
    [] mut.kind = "stripvalue" -> Render(f, rc) \o <<LongT(f.opts[mut.j])>>
    [] mut.kind = "dropreq" -> Render(f, SubSeq(rc, 1, Len(rc) - 1))
MutExpect(mut) == IF mut.kind \in {"unknown", "unknownval", "overdash", "unkshort"} THEN "NoSuchOption" ELSE "CannotParse"
=============================================================================
