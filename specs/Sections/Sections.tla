------------------------------ MODULE Sections ------------------------------
(* clikit.api.io.SectionOutput  (property C15)  on the shared Terminal model.

   A line is a sequence of cells (1-character strings, what a viewer sees of it - style tags removed).

   P-layer (from the statement): `content` - per section, in creation order, the lines it currently holds:
            write_line appends the lines of the message, clear() empties, clear(n) drops the last n lines,
            overwrite replaces everything by the message.  The property, ANSI mode: after every operation the
            screen shows the lines that were on the output before the sections (`pre`), then the lines of all
            sections in creation order, each folded at the terminal width - nothing else (ScreenMatches).
            Plain mode: nothing but printable characters and newlines is emitted (NoControl) and the output is
            the written lines appended in call order, one per line (PlainAppend); clears emit nothing.
   A-layer (from section_output.py): per section the `_content` list (lines; the "\n" entries are implied)
            and the `_lines` row counter; the operations emit terminal ops exactly as the code does:
            cursor-up over the rows of this and all newer sections, erase-to-end-of-screen, re-print.
            `secs` is kept in creation order; the code's shared list is newest-first, so "the sections before
            self in the list" are the sections after i here.
            ClearCountsRows = TRUE models the repaired clear(n) (rows of the removed lines are counted);
            FALSE is the pinned code (`_lines -= n`, cursor-up n), kept so that TLC can exhibit the defect.
            PlainNewline = TRUE models the repaired plain-mode write_line (newline kept); FALSE the pinned code.
   TLC checks A => P: ScreenMatches / PlainAppend / NoControl are invariants of Spec.                       *)
EXTENDS Naturals, Sequences, Terminal

CONSTANTS ClearCountsRows, PlainNewline

VARIABLES ansi,     \* BOOLEAN: the output decorates (ANSI) or not (plain); fixed per behaviour
          pre,      \* lines on the output before any section wrote
          content,  \* P: Seq (sections in creation order) of Seq(line)
          plog,     \* P, plain mode: every line written so far, in call order
          secs,     \* A: Seq of [content : Seq(line), lines : Nat]
          term,     \* the terminal (environment)
          last      \* the last operation as an event record [op, s, lines, n, ops]
vars == <<ansi, pre, content, plog, secs, term, last>>

\* ------------------------------------------------------------------ P-layer
RECURSIVE Concat(_)
Concat(ss) == IF ss = <<>> THEN <<>> ELSE Head(ss) \o Concat(Tail(ss))

PWrite(cs, i, ls) == [cs EXCEPT ![i] = @ \o ls]
PClear(cs, i) == [cs EXCEPT ![i] = <<>>]
PClearN(cs, i, n) == [cs EXCEPT ![i] = SubSeq(@, 1, Len(@) - n)]          \* domain: 1 <= n <= Len(cs[i])
POverwrite(cs, i, ls) == [cs EXCEPT ![i] = ls]

ExpectedScreen(p, cs, w) == Visible(FoldAll(p \o Concat(cs), w))
ExpectedPlain(p, log, w) == Visible(FoldAll(p \o log, w))

ScreenMatches == ansi => Screen(term) = ExpectedScreen(pre, content, term.w)
PlainAppend == ~ansi => Screen(term) = ExpectedPlain(pre, plog, term.w)
NoControl == ~ansi => OnlyPlain(last.ops)

\* ------------------------------------------------------------------ A-layer
Rows(line, w) == RowsNeeded(Len(line), w)                  \* ceil(len / width) or 1
RECURSIVE SumRows(_, _)
SumRows(ls, w) == IF ls = <<>> THEN 0 ELSE Rows(Head(ls), w) + SumRows(Tail(ls), w)
RECURSIVE SumLines(_, _)
SumLines(ss, from) == IF from > Len(ss) THEN 0 ELSE ss[from].lines + SumLines(ss, from + 1)

\* string + "\n" for every line: an empty line is only the newline
RECURSIVE Print(_)
Print(ls) == IF ls = <<>> THEN <<>>
             ELSE (IF Head(ls) = <<>> THEN <<OpLF>> ELSE <<OpText(Head(ls)), OpLF>>) \o Print(Tail(ls))

\* _pop_stream_content_until_current_section(extra): move up over `extra` rows of this section and all rows of
\* the newer sections, erase to the end of the screen; the erased content of the newer sections is re-printed
PopOps(ss, i, extra) == LET n == extra + SumLines(ss, i + 1) IN IF n > 0 THEN <<OpCUU(n), OpED(0)>> ELSE <<>>
Below(ss, i) == Concat([k \in 1..(Len(ss) - i) |-> ss[i + k].content])

AWrite(ss, i, ls, w) ==
  [ops  |-> PopOps(ss, i, 0) \o Print(ls) \o Print(Below(ss, i)),
   secs |-> [ss EXCEPT ![i] = [content |-> @.content \o ls, lines |-> @.lines + SumRows(ls, w)]]]

AClear(ss, i) ==
  IF ss[i].content = <<>> THEN [ops |-> <<>>, secs |-> ss]
  ELSE [ops  |-> PopOps(ss, i, ss[i].lines) \o Print(Below(ss, i)),
        secs |-> [ss EXCEPT ![i] = [content |-> <<>>, lines |-> 0]]]

AClearN(ss, i, n, w) ==
  IF ss[i].content = <<>> THEN [ops |-> <<>>, secs |-> ss]
  ELSE LET c    == ss[i].content
           keep == IF n >= Len(c) THEN 0 ELSE Len(c) - n           \* del _content[-(2n):]
           gone == SubSeq(c, keep + 1, Len(c))
           rows == IF ClearCountsRows THEN SumRows(gone, w) ELSE n
           left == IF ss[i].lines >= rows THEN ss[i].lines - rows ELSE 0   \* (pinned code: may go negative)
       IN [ops  |-> PopOps(ss, i, rows) \o Print(Below(ss, i)),
           secs |-> [ss EXCEPT ![i] = [content |-> SubSeq(c, 1, keep), lines |-> left]]]

AOverwrite(ss, i, ls, w) ==                                 \* clear(); write_line(message)
  LET a == AClear(ss, i)
      b == AWrite(a.secs, i, ls, w)
  IN [ops |-> a.ops \o b.ops, secs |-> b.secs]

\* plain mode: the section degrades to an ordinary output; nothing is recorded, clears do nothing
RECURSIVE PrintNoNL(_)
PrintNoNL(ls) == IF ls = <<>> THEN <<>>
                 ELSE (IF Head(ls) = <<>> THEN <<>> ELSE <<OpText(Head(ls))>>)
                      \o (IF Len(ls) > 1 THEN <<OpLF>> ELSE <<>>) \o PrintNoNL(Tail(ls))
PlainWrite(ss, ls) == [ops |-> IF PlainNewline THEN Print(ls) ELSE PrintNoNL(ls), secs |-> ss]
PlainNothing(ss) == [ops |-> <<>>, secs |-> ss]

\* ------------------------------------------------------------------ behaviours
NoLines == <<>>
Event(op, i, ls, n, ops) == [op |-> op, s |-> i, lines |-> ls, n |-> n, ops |-> ops]

InitWith(w, a, p) ==
  /\ ansi = a /\ pre = p /\ content = <<>> /\ plog = <<>> /\ secs = <<>>
  /\ term = ApplyOps(TermNew(w), Print(p))
  /\ last = Event("init", 0, p, w, Print(p))

Step(op, i, ls, n, pc, pl, a) ==
  /\ content' = pc /\ plog' = pl /\ secs' = a.secs
  /\ term' = ApplyOps(term, a.ops)
  /\ last' = Event(op, i, ls, n, a.ops)
  /\ UNCHANGED <<ansi, pre>>

Create ==
  /\ content' = Append(content, <<>>) /\ secs' = Append(secs, [content |-> <<>>, lines |-> 0])
  /\ last' = Event("create", Len(secs) + 1, NoLines, 0, <<>>)
  /\ UNCHANGED <<ansi, pre, plog, term>>

WriteLine(i, ls) ==
  IF ansi THEN Step("write", i, ls, 0, PWrite(content, i, ls), plog, AWrite(secs, i, ls, term.w))
  ELSE Step("write", i, ls, 0, content, plog \o ls, PlainWrite(secs, ls))

Overwrite(i, ls) ==
  IF ansi THEN Step("overwrite", i, ls, 0, POverwrite(content, i, ls), plog, AOverwrite(secs, i, ls, term.w))
  ELSE Step("overwrite", i, ls, 0, content, plog \o ls, PlainWrite(secs, ls))

Clear(i) ==
  IF ansi THEN Step("clear", i, NoLines, 0, PClear(content, i), plog, AClear(secs, i))
  ELSE Step("clear", i, NoLines, 0, content, plog, PlainNothing(secs))

ClearN(i, n) ==
  IF ansi THEN /\ n >= 1 /\ n <= Len(content[i])
               /\ Step("clearn", i, NoLines, n, PClearN(content, i, n), plog, AClearN(secs, i, n, term.w))
  ELSE n >= 1 /\ Step("clearn", i, NoLines, n, content, plog, PlainNothing(secs))

\* ------------------------------------------------------------------ A-layer coherence (not part of the property)
Coherent == ansi => /\ Len(secs) = Len(content)
                    /\ \A i \in 1..Len(secs) : /\ secs[i].content = content[i]
                                               /\ secs[i].lines = SumRows(content[i], term.w)
CursorBelow == ansi => /\ term.c = 0 /\ ~term.pw
                       /\ term.r = Len(FoldAll(pre \o Concat(content), term.w)) + 1
TermOK == WellFormed(term)
=============================================================================
