------------------------------ MODULE Sections ------------------------------
(* clikit.api.io.SectionOutput  (property C15)  on the shared Terminal model.

   A line is a sequence of cells (1-character strings, what a viewer sees of it - style tags removed).

   P-layer (from the statement): `content` - per section, in creation order, the lines it currently holds:
            write_line appends the lines of the message, clear() empties, clear(n) drops the last n lines (all, if
            fewer are held),
            overwrite replaces everything by the message.  The property, ANSI mode: after every operation the
            screen shows the lines that were on the output before the sections (`pre`), then the lines of all
            sections in creation order, each folded at the terminal width - nothing else (ScreenMatches).
            Plain mode: nothing but printable characters and newlines is emitted (NoControl) and the output is
            the written lines appended in call order, one per line (PlainAppend); clears emit nothing.
   A-layer (from section_output.py): per section the `_content` list (lines; the "\n" entries are implied)
            and the `_lines` row counter; the operations emit terminal ops exactly as the code does:
            cursor-up over the rows of this and all newer sections, erase-to-end-of-screen, re-print.
            `secs` is kept in creation order; the code's shared list is newest-first, so "the sections before
            self in the list" are the sections after i here.
            ClearCountsRows = TRUE models the repaired clear(n) (rows of the removed lines are counted);
            FALSE is the pinned code (`_lines -= n`, cursor-up n), kept so that TLC can exhibit the defect.
            PlainNewline = TRUE models the repaired plain-mode write_line (newline kept); FALSE the pinned code.
   Gates:   every section has its own quiet flag and verbosity (`gate`; a new section is not quiet, verbosity 0 -
            nothing is inherited).  A write_line carrying a message-level flag (1 verbose, 2 very verbose,
            4 debug) that the gate does not let through - or any write on a quiet section - is *suppressed*: it
            changes neither the screen nor the content (P), and the code returns before any bookkeeping (A).
            clear / overwrite on a quiet section: QuietClears = FALSE keeps them out of the domain (the code
            empties its bookkeeping but cannot touch the screen - see notes, finding 3); TRUE is the proposed
            repair: they are suppressed like a write.
   TLC checks A => P: ScreenMatches / PlainAppend / NoControl are invariants of Spec.                       *)
EXTENDS Naturals, Sequences, Terminal
LOCAL INSTANCE SequencesExt       \* FoldLeft (iterative)

CONSTANTS ClearCountsRows, PlainNewline, QuietClears

VARIABLES ansi,     \* BOOLEAN: the output decorates (ANSI) or not (plain); fixed per behaviour
          pre,      \* lines on the output before any section wrote
          content,  \* P: Seq (sections in creation order) of Seq(line)
          plog,     \* P, plain mode: every line written so far, in call order
          gate,     \* P: Seq of [quiet : BOOLEAN, verb : 0..4, ind : Nat]  per section
          secs,     \* A: Seq of [content : Seq(line), lines : Nat]
          term,     \* the terminal (environment)
          last      \* the last operation as an event record [op, s, lines, n, ops]
vars == <<ansi, pre, content, plog, gate, secs, term, last>>

\* ------------------------------------------------------------------ P-layer
Concat(ss) == FoldLeft(LAMBDA acc, x : acc \o x, <<>>, ss)

PWrite(cs, i, ls) == [cs EXCEPT ![i] = @ \o ls]
PClear(cs, i) == [cs EXCEPT ![i] = <<>>]
PClearN(cs, i, n) == [cs EXCEPT ![i] = IF n >= Len(@) THEN <<>> ELSE SubSeq(@, 1, Len(@) - n)]   \* n >= 1; more than held: all
POverwrite(cs, i, ls) == [cs EXCEPT ![i] = ls]

\* Output._may_write: quiet suppresses everything; a flag asks for at least that verbosity (0 = always)
MayWrite(g, flag) == ~g.quiet /\ (flag = 0 \/ g.verb >= flag)
NewGate == [quiet |-> FALSE, verb |-> 0, ind |-> 0]
\* indentation set on a section: every line of a message is shown behind `ind` blanks (the empty line stays blank);
\* Stored = what the section keeps (all lines indented), Printed = what the first print emits (empty lines bare)
Stored(ls, k) == [j \in 1..Len(ls) |-> Blanks(k) \o ls[j]]
Printed(ls, k) == [j \in 1..Len(ls) |-> IF ls[j] = <<>> THEN <<>> ELSE Blanks(k) \o ls[j]]

ExpectedScreen(p, cs, w) == Visible(FoldAll(p \o Concat(cs), w))
ExpectedPlain(p, log, w) == Visible(FoldAll(p \o log, w))

ScreenMatches == ansi => Screen(term) = ExpectedScreen(pre, content, term.w)
PlainAppend == ~ansi => Screen(term) = ExpectedPlain(pre, plog, term.w)
NoControl == ~ansi => OnlyPlain(last.ops)

\* ------------------------------------------------------------------ A-layer
Rows(line, w) == RowsNeeded(Len(line), w)                  \* ceil(len / width) or 1
SumRows(ls, w) == FoldLeft(LAMBDA acc, x : acc + Rows(x, w), 0, ls)
RECURSIVE SumLines(_, _)
SumLines(ss, from) == IF from > Len(ss) THEN 0 ELSE ss[from].lines + SumLines(ss, from + 1)

\* string + "\n" for every line: an empty line is only the newline
Emitted(ls) == FoldLeft(LAMBDA acc, x : acc \o (IF x = <<>> THEN <<OpLF>> ELSE <<OpText(x), OpLF>>), <<>>, ls)

\* _pop_stream_content_until_current_section(extra): move up over `extra` rows of this section and all rows of
\* the newer sections, erase to the end of the screen; the erased content of the newer sections is re-printed
PopOps(ss, i, extra) == LET n == extra + SumLines(ss, i + 1) IN IF n > 0 THEN <<OpCUU(n), OpED(0)>> ELSE <<>>
Below(ss, i) == Concat([k \in 1..(Len(ss) - i) |-> ss[i + k].content])

AWrite(ss, i, ls, w, k) ==                                  \* k: the section's indentation
  [ops  |-> PopOps(ss, i, 0) \o Emitted(Printed(ls, k)) \o Emitted(Below(ss, i)),
   secs |-> [ss EXCEPT ![i] = [content |-> @.content \o Stored(ls, k), lines |-> @.lines + SumRows(Stored(ls, k), w)]]]

AClear(ss, i) ==
  IF ss[i].content = <<>> THEN [ops |-> <<>>, secs |-> ss]
  ELSE [ops  |-> PopOps(ss, i, ss[i].lines) \o Emitted(Below(ss, i)),
        secs |-> [ss EXCEPT ![i] = [content |-> <<>>, lines |-> 0]]]

AClearN(ss, i, n, w) ==
  IF ss[i].content = <<>> THEN [ops |-> <<>>, secs |-> ss]
  ELSE LET c    == ss[i].content
           keep == IF n >= Len(c) THEN 0 ELSE Len(c) - n           \* del _content[-(2n):]
           gone == SubSeq(c, keep + 1, Len(c))
           rows == IF ClearCountsRows THEN SumRows(gone, w) ELSE n
           left == IF ss[i].lines >= rows THEN ss[i].lines - rows ELSE 0   \* (pinned code: may go negative)
       IN [ops  |-> PopOps(ss, i, rows) \o Emitted(Below(ss, i)),
           secs |-> [ss EXCEPT ![i] = [content |-> SubSeq(c, 1, keep), lines |-> left]]]

AOverwrite(ss, i, ls, w, k) ==                              \* clear(); write_line(message)
  LET a == AClear(ss, i)
      b == AWrite(a.secs, i, ls, w, k)
  IN [ops |-> a.ops \o b.ops, secs |-> b.secs]

\* plain mode: the section degrades to an ordinary output; nothing is recorded, clears do nothing
EmittedNoNL(ls) == LET all == Emitted(ls) IN SubSeq(all, 1, Len(all) - 1)      \* "\n".join(lines)
PlainWrite(ss, ls) == [ops |-> IF PlainNewline THEN Emitted(ls) ELSE EmittedNoNL(ls), secs |-> ss]
PlainNothing(ss) == [ops |-> <<>>, secs |-> ss]

\* ------------------------------------------------------------------ behaviours
NoLines == <<>>
Event(op, i, ls, n, ops) == [op |-> op, s |-> i, lines |-> ls, n |-> n, ops |-> ops]

InitWith(w, a, p) ==
  /\ ansi = a /\ pre = p /\ content = <<>> /\ plog = <<>> /\ gate = <<>> /\ secs = <<>>
  /\ term = ApplyOps(TermNew(w), Emitted(p))
  /\ last = Event("init", 0, p, w, Emitted(p))

\* what an operation does to the P-state (pc, pl) and what the A-layer emits / becomes (a) - one case table
\* shared by the actions below and by SectionsTrace (which applies the *observed* ops to the terminal instead)
\* for "write" n is the message-level flag (0, 1, 2, 4), for "clearn" the number of lines
InDomain(op, i, n) ==
  /\ op \in {"write", "overwrite", "clear", "clearn"} /\ i \in 1..Len(secs)
  /\ op = "clearn" => n >= 1                                 \* also beyond the lines held: a full clear
  /\ op = "write" => n \in {0, 1, 2, 4}
  /\ (op # "write" /\ gate[i].quiet) => QuietClears

Suppressed(op, i, n) == IF op = "write" THEN ~MayWrite(gate[i], n) ELSE gate[i].quiet

Effect(op, i, ls, n) ==
  IF Suppressed(op, i, n) THEN [pc |-> content, pl |-> plog, a |-> PlainNothing(secs)]
  ELSE IF ansi THEN
    CASE op = "write"     -> [pc |-> PWrite(content, i, Stored(ls, gate[i].ind)), pl |-> plog,
                              a |-> AWrite(secs, i, ls, term.w, gate[i].ind)]
      [] op = "overwrite" -> [pc |-> POverwrite(content, i, Stored(ls, gate[i].ind)), pl |-> plog,
                              a |-> AOverwrite(secs, i, ls, term.w, gate[i].ind)]
      [] op = "clear"     -> [pc |-> PClear(content, i),         pl |-> plog, a |-> AClear(secs, i)]
      [] op = "clearn"    -> [pc |-> PClearN(content, i, n),     pl |-> plog, a |-> AClearN(secs, i, n, term.w)]
  ELSE
    CASE op \in {"write", "overwrite"} -> [pc |-> content, pl |-> plog \o Printed(ls, gate[i].ind),
                                           a |-> PlainWrite(secs, Printed(ls, gate[i].ind))]
      [] OTHER                         -> [pc |-> content, pl |-> plog,       a |-> PlainNothing(secs)]

Do(op, i, ls, n) ==
  /\ InDomain(op, i, n)
  /\ \E e \in {Effect(op, i, ls, n)} :                      \* (a singleton: evaluated once, then bound)
       /\ content' = e.pc /\ plog' = e.pl /\ secs' = e.a.secs
       /\ term' = ApplyOps(term, e.a.ops)
       /\ last' = Event(op, i, ls, n, e.a.ops)
  /\ UNCHANGED <<ansi, pre, gate>>

Create ==
  /\ content' = Append(content, <<>>) /\ secs' = Append(secs, [content |-> <<>>, lines |-> 0])
  /\ gate' = Append(gate, NewGate)
  /\ last' = Event("create", Len(secs) + 1, NoLines, 0, <<>>)
  /\ UNCHANGED <<ansi, pre, plog, term>>

\* set_quiet / set_verbosity / indent on one section: no output, no change of content
SetGate(op, i, n) ==
  /\ i \in 1..Len(secs)
  /\ gate' = CASE op = "quiet" -> [gate EXCEPT ![i].quiet = (n = 1)]
               [] op = "verb" -> [gate EXCEPT ![i].verb = n]
               [] OTHER -> [gate EXCEPT ![i].ind = n]          \* "indent"
  /\ last' = Event(op, i, NoLines, n, <<>>)
  /\ UNCHANGED <<ansi, pre, content, plog, secs, term>>
SetQuiet(i, q) == SetGate("quiet", i, IF q THEN 1 ELSE 0)
SetVerbosity(i, v) == v \in {0, 1, 2, 4} /\ SetGate("verb", i, v)
SetIndent(i, k) == SetGate("indent", i, k)

WriteLine(i, ls) == Do("write", i, ls, 0)
WriteLineFlag(i, ls, flag) == Do("write", i, ls, flag)
Overwrite(i, ls) == Do("overwrite", i, ls, 0)
Clear(i) == Do("clear", i, NoLines, 0)
ClearN(i, n) == Do("clearn", i, NoLines, n)

\* ------------------------------------------------------------------ A-layer coherence (not part of the property)
Coherent == ansi => /\ Len(secs) = Len(content)
                    /\ \A i \in 1..Len(secs) : /\ secs[i].content = content[i]
                                               /\ secs[i].lines = SumRows(content[i], term.w)
CursorBelow == ansi => /\ term.c = 0 /\ ~term.pw
                       /\ term.r = Len(FoldAll(pre \o Concat(content), term.w)) + 1
TermOK == WellFormed(term)
=============================================================================
