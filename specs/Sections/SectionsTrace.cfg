SPECIFICATION TSpec
CONSTANTS
  ClearCountsRows = TRUE
  PlainNewline = TRUE
  QuietClears = TRUE
INVARIANT TermOK
