SPECIFICATION TSpec
CONSTANTS
  ClearCountsRows = TRUE
  PlainNewline = TRUE
  QuietClears = FALSE
INVARIANT TermOK
