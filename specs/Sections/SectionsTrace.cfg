SPECIFICATION TSpec
CONSTANTS
  ClearCountsRows = TRUE
  PlainNewline = TRUE
INVARIANT TermOK
