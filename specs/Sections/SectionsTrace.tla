--------------------------- MODULE SectionsTrace ---------------------------
(* Recorded operation sequences of real SectionOutputs checked against Sections.
   event: [op, s, lines, n,          -- the call: "init" | "create" | "write" | "overwrite" | "clear" | "clearn" | "quiet" |
                                        "verb"; section (creation index); the visible lines of the message; n = lines
                                        of clear(n) / message-level flag of a write / 0|1 of set_quiet / verbosity
           w, ansi,                  -- "init": terminal width (COLUMNS), whether the output decorates
           exc,                      -- "" or the class name of an exception that escaped the call
           ops,                      -- the bytes the call added to the stream, tokenised (engine/termbytes.py)
           rows, cnt]                -- per section: the `lines` property, number of "\n" in `content`
   The terminal is driven by the *observed* ops; the P-state by the calls; TLC compares (P-clauses):
     P.completes         no exception escapes an operation of the domain
     P.screen            ANSI: screen = lines before the sections + contents of all sections in creation order
     P.plain.nocontrol   plain: only printable characters and newlines reach the stream
     P.plain.append      plain: the stream is the written lines appended, one per line
   A-clauses (Note -> DRIFT): the ops / row counters / line counts of the A-layer.                            *)
EXTENDS Sections, TraceKit
LOCAL INSTANCE SequencesExt

VARIABLES tid, l,
          taint     \* some earlier clear(n) of this trace removed a line that folds into several rows
tvars == <<vars, tid, l, taint>>
T == Traces[tid]
E == T[l]

TInit == /\ tid \in 1..NTraces /\ l = 1
         /\ LET e == Traces[tid][1] IN
            /\ ansi = e.ansi /\ pre = e.lines /\ content = <<>> /\ plog = <<>> /\ gate = <<>> /\ secs = <<>>
            /\ term = TermNew(e.w)
            /\ last = Event("none", 0, NoLines, 0, <<>>)
         /\ taint = FALSE

Adv == l' = l + 1 /\ tid' = tid
Is(op) == l <= Len(T) /\ E.op = op

\* the A-layer's ops and the observed ones are compared modulo colour codes and the chunking of text
NormStep(acc, o) ==
  IF o.k = "sgr" THEN acc
  ELSE IF o.k = "text" /\ acc # <<>> /\ acc[Len(acc)].k = "text" THEN [acc EXCEPT ![Len(acc)].s = @ \o o.s]
  ELSE Append(acc, o)
Norm(ops) == FoldLeft(NormStep, <<>>, ops)

\* which violation of P.screen this is: clear(n) whose removed lines fold into more than n rows is the region of
\* the defect found on the pinned tree (the code counted lines, not rows); the row counter stays wrong afterwards,
\* so a later call of the same trace may be the first to show it
Wraps(i, n) == \E k \in (IF n >= Len(content[i]) THEN 1 ELSE Len(content[i]) - n + 1)..Len(content[i]) : Len(content[i][k]) > term.w
TaintNow == taint \/ (ansi /\ E.op = "clearn" /\ InDomain(E.op, E.s, E.n) /\ Wraps(E.s, E.n))
ScreenKey == IF TaintNow THEN "clearn-wrapped" ELSE E.op

Clauses ==
  /\ Check(tid, l, "P.completes", E.exc, E.exc = "")
  /\ IF ansi THEN /\ Check(tid, l, "H.ops.known", "", AllKnown(E.ops))
                  /\ Check(tid, l, "P.screen", ScreenKey, Screen(term') = ExpectedScreen(pre, content', term.w))
     ELSE /\ Check(tid, l, "P.plain.nocontrol", E.op, OnlyPlain(E.ops))
          /\ Check(tid, l, "P.plain.append", E.op, Screen(term') = ExpectedPlain(pre, plog', term.w))
  /\ Note(tid, l, "A.rows", E.rows = [i \in 1..Len(secs') |-> secs'[i].lines])
  /\ Note(tid, l, "A.count", E.cnt = [i \in 1..Len(secs') |-> Len(secs'[i].content)])

\* the lines above the sections are put on the stream by the harness itself
TStart == /\ l = 1 /\ Is("init") /\ Adv
          /\ term' = ApplyOps(term, E.ops)
          /\ last' = Event("init", 0, E.lines, E.w, E.ops)
          /\ UNCHANGED <<ansi, pre, content, plog, gate, secs, taint>>
          /\ Check(tid, l, "P.completes", E.exc, E.exc = "")
          /\ Check(tid, l, "H.init", "", OnlyPlain(E.ops) /\ Screen(term') = Visible(FoldAll(pre, term.w)))

TCreate == /\ l > 1 /\ Is("create") /\ Adv
           /\ content' = Append(content, <<>>) /\ secs' = Append(secs, [content |-> <<>>, lines |-> 0])
           /\ gate' = Append(gate, NewGate)
           /\ term' = ApplyOps(term, E.ops)
           /\ last' = Event("create", E.s, NoLines, 0, E.ops)
           /\ UNCHANGED <<ansi, pre, plog, taint>>
           /\ Check(tid, l, "H.create.index", "", E.s = Len(secs) + 1)
           /\ Clauses
           /\ Note(tid, l, "A.ops", E.ops = <<>>)

TOp == /\ l > 1 /\ l <= Len(T) /\ E.op \in {"write", "overwrite", "clear", "clearn"} /\ Adv
       /\ Check(tid, l, "H.domain", "", InDomain(E.op, E.s, E.n))
       /\ \E e \in {Effect(E.op, E.s, E.lines, E.n)} :
          /\ content' = e.pc /\ plog' = e.pl /\ secs' = e.a.secs
          /\ term' = ApplyOps(term, E.ops)
          /\ last' = Event(E.op, E.s, E.lines, E.n, E.ops)
          /\ UNCHANGED <<ansi, pre, gate>> /\ taint' = TaintNow
          /\ Clauses
          /\ Note(tid, l, "A.ops", Norm(E.ops) = Norm(e.a.ops))

\* set_quiet / set_verbosity on one section: expected to be silent (A-clause); whatever reaches the stream is
\* applied to the terminal and the screen clause evaluated as after any other call
TGate == /\ l > 1 /\ l <= Len(T) /\ E.op \in {"quiet", "verb", "indent"} /\ Adv
         /\ Check(tid, l, "H.domain", "", E.s \in 1..Len(secs) /\ (E.op # "indent" => E.n \in {0, 1, 2, 4}))
         /\ gate' = CASE E.op = "quiet" -> [gate EXCEPT ![E.s].quiet = (E.n = 1)]
                      [] E.op = "verb" -> [gate EXCEPT ![E.s].verb = E.n]
                      [] OTHER -> [gate EXCEPT ![E.s].ind = E.n]
         /\ term' = ApplyOps(term, E.ops)
         /\ last' = Event(E.op, E.s, NoLines, E.n, E.ops)
         /\ UNCHANGED <<ansi, pre, content, plog, secs, taint>>
         /\ Clauses
         /\ Note(tid, l, "A.ops", E.ops = <<>>)

TDone == /\ l = Len(T) + 1 /\ l' = l + 1 /\ tid' = tid /\ UNCHANGED <<vars, taint>> /\ Accept(tid)

TNext == TStart \/ TCreate \/ TOp \/ TGate \/ TDone
TSpec == TInit /\ [][TNext]_tvars
=============================================================================
