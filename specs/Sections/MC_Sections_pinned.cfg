SPECIFICATION HSpec
CONSTANTS
  ClearCountsRows = FALSE
  PlainNewline = TRUE
  QuietClears = FALSE
  Flags <- NoFlags
  Verbs <- NoFlags
  Indents <- NoFlags
  QuietOps = FALSE
  W = 4
  Lens <- LensQuick
  Pairs <- PairsQuick
  MaxN = 2
  MaxSections = 3
  Depth = 6
  Modes <- AnsiOnly
  Pres <- OnePre
VIEW HView
INVARIANT ScreenMatches
INVARIANT PlainAppend
INVARIANT NoControl
INVARIANT TermOK
