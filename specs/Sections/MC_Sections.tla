---------------------------- MODULE MC_Sections ----------------------------
(* Model-checking harness for Sections.
   Lines are built from symbols that identify (line id, position), so a screen cell tells which character of
   which written line it shows.  `hist` records the operation sequence; it is kept out of the VIEW, so TLC
   explores the abstract state space (one state per (state, depth)) while every state carries one operation
   sequence that leads to it - those sequences are emitted as JSON behaviours and replayed on the real
   SectionOutput ("one implementation run per reachable (state, last operation) at the depth bound").      *)
EXTENDS Sections, Json, TLC

CONSTANTS W,            \* terminal width
          Lens,         \* lengths of single-line writes and overwrites
          Pairs,        \* <<len1, len2>> of two-line writes
          MaxN,         \* clear(n): n in 1..MaxN
          Flags,        \* message-level flags of flagged single-line writes ({} = none)
          Verbs,        \* verbosities a section may be set to ({} = never)
          QuietOps,     \* BOOLEAN: set_quiet on single sections
          Indents,      \* indentations a section may be given ({} = never)
          MaxSections, Depth

VARIABLES hist, nextId
hvars == <<vars, hist, nextId>>

Alphabet == <<"a","b","c","d","e","f","g","h","i","j","k","l","m","n","o","p","q","r","s","t","u","v","w","x","y","z",
              "A","B","C","D","E","F","G","H","I","J","K","L","M","N","O","P","Q","R","S","T","U","V","W","X","Y","Z",
              "0","1","2","3","4","5","6","7","8","9">>
Sym(id, k) == Alphabet[(((id - 1) * 9 + (k - 1)) % 62) + 1]
Line(id, len) == [k \in 1..len |-> Sym(id, k)]

MCModes == BOOLEAN
AnsiOnly == {TRUE}
PlainOnly == {FALSE}
CONSTANT Modes
MCPres == {<<>>, << <<"#", "#">> >>}                       \* nothing / one line above the sections
OnePre == {<< <<"#", "#">> >>}
CONSTANT Pres
LensQuick == {0, 2, 4, 5, 9}                                \* below / at / above the width, two wraps (W = 4)
PairsQuick == {<<2, 5>>, <<9, 0>>, <<4, 4>>}
LensSmall == {2, 5}
NoFlags == {}
FlagsQ == {1, 4}
VerbsQ == {0, 1}
IndentsQ == {0, 3}
PairsNone == {}
LensOne == {5}
LensGate == {0, 5}
LensMid == {2, 5, 9}
PairsSmall == {<<0, 9>>}
LensW7 == {0, 3, 7, 8, 15}
PairsW7 == {<<3, 8>>, <<15, 0>>, <<7, 7>>}

HInit == /\ \E a \in Modes, p \in Pres : InitWith(W, a, p)
         /\ hist = <<>> /\ nextId = 1

\* one named action per operation kind (TLC reports coverage per action; the driver refuses a run in which one
\* of them never fired)
\* what is recorded per operation: the event plus the A-layer's bookkeeping afterwards (compared with the section
\* objects' `lines` / number of content lines when the behaviour is replayed)
Obs == last @@ [rows |-> [i \in 1..Len(secs) |-> secs[i].lines], cnt |-> [i \in 1..Len(secs) |-> Len(secs[i].content)]]
H(A) == Len(hist) < Depth /\ A /\ hist' = Append(hist, Obs')
HCreate == \E k \in {Len(secs) + 1} : H(k <= MaxSections /\ Create /\ UNCHANGED nextId)
HWrite1 == \E i \in 1..Len(secs), n \in Lens : H(WriteLine(i, <<Line(nextId, n)>>) /\ nextId' = nextId + 1)
HWrite2 == \E i \in 1..Len(secs), p \in Pairs :
             H(WriteLine(i, <<Line(nextId, p[1]), Line(nextId + 1, p[2])>>) /\ nextId' = nextId + 2)
HOverwrite == \E i \in 1..Len(secs), n \in Lens : H(Overwrite(i, <<Line(nextId, n)>>) /\ nextId' = nextId + 1)
HClear == \E i \in 1..Len(secs) : H(Clear(i) /\ UNCHANGED nextId)
HClearN == \E i \in 1..Len(secs), n \in 1..MaxN : H(ClearN(i, n) /\ UNCHANGED nextId)

HWriteF == \E i \in 1..Len(secs), f \in Flags : H(WriteLineFlag(i, <<Line(nextId, 2)>>, f) /\ nextId' = nextId + 1)
HQuiet == \E i \in 1..Len(secs) : QuietOps /\ H(SetQuiet(i, ~gate[i].quiet) /\ UNCHANGED nextId)
HVerb == \E i \in 1..Len(secs), v \in Verbs : v # gate[i].verb /\ H(SetVerbosity(i, v) /\ UNCHANGED nextId)

HIndent == \E i \in 1..Len(secs), k \in Indents : k # gate[i].ind /\ H(SetIndent(i, k) /\ UNCHANGED nextId)

HNext == HCreate \/ HWrite1 \/ HWrite2 \/ HOverwrite \/ HClear \/ HClearN \/ HWriteF \/ HQuiet \/ HVerb \/ HIndent
HSpec == HInit /\ [][HNext]_hvars

\* hist is a history variable only: two states that differ in hist alone behave alike
HView == <<vars, nextId, Len(hist)>>

Behaviour == [w |-> W, ansi |-> ansi, pre |-> pre, events |-> hist]
Emit == Len(hist) = Depth => PrintT(ToJson(Behaviour))
=============================================================================
