SPECIFICATION HSpec
CONSTANTS
  ClearCountsRows = TRUE
  PlainNewline = TRUE
  QuietClears = FALSE
  Flags <- NoFlags
  Verbs <- NoFlags
  Indents <- NoFlags
  QuietOps = FALSE
  W = 4
  Lens <- LensQuick
  Pairs <- PairsQuick
  MaxN = 3
  MaxSections = 3
  Depth = 12
  Modes <- MCModes
  Pres <- MCPres
VIEW HView
INVARIANT ScreenMatches
INVARIANT PlainAppend
INVARIANT NoControl
INVARIANT Coherent
INVARIANT CursorBelow
INVARIANT TermOK
INVARIANT Emit
