SPECIFICATION HSpec
CONSTANTS
  ClearCountsRows = TRUE
  PlainNewline = TRUE
  QuietClears = FALSE
  Flags <- NoFlags
  Verbs <- NoFlags
  Indents <- NoFlags
  QuietOps = FALSE
  W = 4
  Lens <- LensSmall
  Pairs <- PairsSmall
  MaxN = 3
  MaxSections = 3
  Depth = 7
  Modes <- MCModes
  Pres <- OnePre
VIEW HView
INVARIANT ScreenMatches
INVARIANT PlainAppend
INVARIANT NoControl
INVARIANT Coherent
INVARIANT CursorBelow
INVARIANT TermOK
INVARIANT Emit
