SPECIFICATION HSpec
CONSTANTS
  ClearCountsRows = TRUE
  PlainNewline = TRUE
  QuietClears = TRUE
  Flags <- FlagsQ
  Verbs <- VerbsQ
  Indents <- IndentsQ
  QuietOps = TRUE
  W = 4
  Lens <- LensGate
  Pairs <- PairsNone
  MaxN = 1
  MaxSections = 2
  Depth = 6
  Modes <- AnsiOnly
  Pres <- OnePre
VIEW HView
INVARIANT ScreenMatches
INVARIANT PlainAppend
INVARIANT NoControl
INVARIANT Coherent
INVARIANT CursorBelow
INVARIANT TermOK
INVARIANT Emit
