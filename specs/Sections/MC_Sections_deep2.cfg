SPECIFICATION HSpec
CONSTANTS
  ClearCountsRows = TRUE
  PlainNewline = TRUE
  QuietClears = FALSE
  Flags <- NoFlags
  Verbs <- NoFlags
  Indents <- NoFlags
  QuietOps = FALSE
  W = 4
  Lens <- LensMid
  Pairs <- PairsSmall
  MaxN = 2
  MaxSections = 2
  Depth = 8
  Modes <- AnsiOnly
  Pres <- OnePre
VIEW HView
INVARIANT ScreenMatches
INVARIANT PlainAppend
INVARIANT NoControl
INVARIANT Coherent
INVARIANT CursorBelow
INVARIANT TermOK
