SPECIFICATION RSpec
CONSTANTS
  Repaired = TRUE
  MaxStyles = 3
  UseAligns = TRUE
  RComps <- AlignComps
  RIOs <- IndIOs
  Depth = 3
  OwnFields <- MCOwn
  BorderFields <- MCBorder
  Values <- MCValues
INVARIANT TypeOK
INVARIANT NoAliasing
INVARIANT RenderPure
INVARIANT Emit
