------------------------------- MODULE Styles -------------------------------
(* Style objects and repeated renders   (property C17, second half)

   clikit.ui.style.TableStyle / BorderStyle factories, ExceptionTrace._FRAME_SNIPPET_CACHE and the stateless
   components (Table, Paragraph, LabeledParagraph, EmptyLine, NameVersion, help pages).

   P-layer: what is rendered depends only on what is rendered:
            NoAliasing   the text a table shows under style s is determined by s's own history (the factory that made
                         it and the customisations applied to that object), whatever happened to other style objects;
            RenderPure   the text a component shows on an I/O is determined by (how the component was built, the
                         I/O's capabilities), whatever was rendered before.
   A-layer: the heap of BorderStyle cells with the lazily created class-level singletons (_none, _ascii, _solid)
            that the TableStyle factories share and overwrite, and the class-level snippet cache of ExceptionTrace
            keyed by frame.  Repaired = TRUE models proposed_fixes/C17-styles-*.diff: factories hand out fresh
            BorderStyle objects; the snippet cache key includes the I/O's UTF-8 capability.                      *)
EXTENDS Naturals, Sequences, FiniteSets, TLC

CONSTANTS Repaired,
          MaxStyles,    \* bound on TableStyle objects created in one behaviour
          OwnFields, BorderFields, Values   \* customisation menu: attributes of TableStyle / of its BorderStyle

Kinds == {"borderless", "compact", "ascii", "solid"}
BaseOf(kind) == CASE kind \in {"borderless", "compact"} -> "none" [] kind = "ascii" -> "ascii" [] kind = "solid" -> "solid"

\* BorderStyle defaults per factory (only the attributes the menu can touch or the factories write are kept;
\* the glyphs of the solid style are written H V X)
AllBorder == {"line_ht_char", "line_hc_char", "line_vc_char", "crossing_c_char"}
BorderDefault(base) ==
  CASE base = "none"  -> [line_ht_char |-> "", line_hc_char |-> "", line_vc_char |-> " ", crossing_c_char |-> ""]
    [] base = "ascii" -> [line_ht_char |-> "-", line_hc_char |-> "-", line_vc_char |-> "|", crossing_c_char |-> "+"]
    [] base = "solid" -> [line_ht_char |-> "H", line_hc_char |-> "H", line_vc_char |-> "V", crossing_c_char |-> "X"]
\* what TableStyle.<kind>() writes into the BorderStyle it obtained
Overrides(kind, b) ==
  CASE kind = "borderless" -> [b EXCEPT !.line_hc_char = "=", !.line_vc_char = " ", !.crossing_c_char = " "]
    [] kind = "compact"    -> [b EXCEPT !.line_hc_char = "", !.line_vc_char = " ", !.crossing_c_char = ""]
    [] OTHER -> b
OwnDefault(kind) ==
  IF kind \in {"ascii", "solid"} THEN [padding_char |-> " ", cell_format |-> " {} "]
  ELSE [padding_char |-> " ", cell_format |-> "{}"]

\* ------------------------------------------------------------------ components that are rendered
\* component kinds; "trace" / "trace2" are error traces of exceptions raised at two different source lines
Components == {"table", "para", "labeled", "namever", "empty", "apphelp", "cmdhelp", "trace", "trace2"}
IsTrace(c) == c \in {"trace", "trace2"}
\* an I/O: [utf8, ansi, verb]   verb \in {"normal", "verbose", "debug"}

VARIABLES
  \* A-layer
  heap,      \* BorderStyle objects: sequence of attribute records (index = identity)
  single,    \* class attributes BorderStyle._none/_ascii/_solid: index into heap, 0 = not created yet
  styles,    \* TableStyle objects: [kind, cell (its border_style), own (own attributes)]
  snip,      \* ExceptionTrace._FRAME_SNIPPET_CACHE: set of [frame, utf8] meaning "snippet of frame cached, drawn with/without UTF-8 glyphs"
  \* P-layer
  own,       \* per TableStyle: its own history <<kind, <<field, value>>, ...>>
  last       \* observation of the last operation
vars == <<heap, single, styles, snip, own, last>>

Init == /\ heap = <<>> /\ single = [b \in {"none", "ascii", "solid"} |-> 0] /\ styles = <<>> /\ snip = {}
        /\ own = <<>> /\ last = [op |-> "init"]

\* what a table drawn with style s shows depends on exactly these attribute values
Effective(s) == [own |-> styles[s].own, border |-> heap[styles[s].cell]]
AllEffective == [s \in 1..Len(styles) |-> Effective(s)]

\* TableStyle.<kind>()
Make(kind) ==
  /\ Len(styles) < MaxStyles
  /\ LET base == BaseOf(kind)
         cached == ~Repaired /\ single[base] # 0
         cell == IF cached THEN single[base] ELSE Len(heap) + 1
         h1 == IF cached THEN heap ELSE Append(heap, BorderDefault(base))
     IN /\ heap' = [h1 EXCEPT ![cell] = Overrides(kind, h1[cell])]
        /\ single' = IF Repaired THEN single ELSE [single EXCEPT ![base] = cell]
        /\ styles' = Append(styles, [kind |-> kind, cell |-> cell, own |-> OwnDefault(kind)])
  /\ own' = Append(own, <<kind>>)
  /\ last' = [op |-> "make", kind |-> kind, s |-> Len(styles) + 1, field |-> "", value |-> ""]
  /\ UNCHANGED snip

\* style.<field> = value   /   style.border_style.<field> = value
Customise(s, field, value) ==
  /\ s \in 1..Len(styles)
  /\ IF field \in OwnFields
     THEN /\ styles' = [styles EXCEPT ![s].own = [@ EXCEPT ![field] = value]] /\ heap' = heap
     ELSE /\ heap' = [heap EXCEPT ![styles[s].cell] = [@ EXCEPT ![field] = value]] /\ styles' = styles
  /\ own' = [own EXCEPT ![s] = Append(@, <<field, value>>)]
  /\ last' = [op |-> "custom", kind |-> "", s |-> s, field |-> field, value |-> value]
  /\ UNCHANGED <<single, snip>>

\* ---- rendering a component on an I/O.  inst distinguishes separately built, equal instances.
\* The error trace at debug verbosity shows a code snippet per frame; snippets are cached per frame.
Glyphs(c, io) ==
  IF ~(IsTrace(c) /\ io.verb = "debug") THEN io.utf8
  ELSE IF Repaired THEN io.utf8
  ELSE IF \E e \in snip : e.frame = c THEN (CHOOSE e \in snip : e.frame = c).utf8 ELSE io.utf8
\* abstract text: everything the drawn text may depend on.  Components carry style tags, so ANSI and plain text
\* differ (not for the empty line); verbosity selects the trace layout; a trace draws its markers with or without
\* UTF-8 glyphs, and - in debug snippets - with the glyphs of the cached snippet
View(c, io, g) == [comp |-> c, ansi |-> IF c = "empty" THEN FALSE ELSE io.ansi,
                   verb |-> IF IsTrace(c) THEN io.verb ELSE "-",
                   glyphs |-> IF IsTrace(c) THEN io.utf8 ELSE TRUE,
                   snippet |-> IF IsTrace(c) /\ io.verb = "debug" THEN g ELSE TRUE]
Shown(c, io) == View(c, io, Glyphs(c, io))
Pure(c, io) == View(c, io, io.utf8)

Render(c, inst, io) ==
  /\ last' = [op |-> "render", comp |-> c, inst |-> inst, io |-> io, shown |-> Shown(c, io)]
  /\ snip' = IF IsTrace(c) /\ io.verb = "debug" /\ ~(\E e \in snip : e.frame = c /\ (Repaired => e.utf8 = io.utf8))
             THEN snip \cup {[frame |-> c, utf8 |-> io.utf8]} ELSE snip
  /\ UNCHANGED <<heap, single, styles, own>>

\* ------------------------------------------------------------------ P-layer
\* the attribute values a style built by its own history alone would have
RECURSIVE Apply(_, _)
Apply(e, h) == IF h = <<>> THEN e
               ELSE LET f == Head(h)[1]
                        v == Head(h)[2]
                    IN Apply(IF f \in OwnFields THEN [e EXCEPT !.own = [@ EXCEPT ![f] = v]]
                             ELSE [e EXCEPT !.border = [@ EXCEPT ![f] = v]], Tail(h))
Alone(h) == Apply([own |-> OwnDefault(h[1]), border |-> Overrides(h[1], BorderDefault(BaseOf(h[1])))], Tail(h))

\* creating or customising one style never changes what a table built with another shows
NoAliasing == \A s \in 1..Len(styles) : Effective(s) = Alone(own[s])
\* a render shows what a first render on a fresh process would show
RenderPure == last.op = "render" => last.shown = Pure(last.comp, last.io)

TypeOK == /\ Len(styles) <= MaxStyles /\ Len(own) = Len(styles)
          /\ \A s \in 1..Len(styles) : styles[s].cell \in 1..Len(heap)
=============================================================================
