------------------------------- MODULE Styles -------------------------------
(* Style objects and repeated renders   (property C17, second half)

   clikit.ui.style.TableStyle / BorderStyle factories, ExceptionTrace._FRAME_SNIPPET_CACHE and the stateless
   components (Table, Paragraph, LabeledParagraph, EmptyLine, NameVersion, help pages).

   P-layer: what is rendered depends only on what is rendered:
            NoAliasing   the text a table shows under style s is determined by s's own history (the factory that made
                         it and the customisations applied to that object), whatever happened to other style objects;
            RenderPure   the text a component shows on an I/O is determined by (how the component was built, the
                         I/O's capabilities), whatever was rendered before.
   A-layer: the heap of BorderStyle cells with the lazily created class-level singletons (_none, _ascii, _solid)
            that the TableStyle factories share and overwrite, and the class-level snippet cache of ExceptionTrace
            keyed by frame.  Repaired = TRUE models proposed_fixes/C17-styles-*.diff: factories hand out fresh
            BorderStyle objects; the snippet cache key includes the I/O's UTF-8 capability.                      *)
EXTENDS Naturals, Sequences, FiniteSets, TLC

CONSTANTS Repaired,
          MaxStyles,    \* bound on TableStyle objects created in one behaviour
          OwnFields, BorderFields, Values   \* customisation menu of the model checker: attributes of TableStyle / BorderStyle, values

Kinds == {"borderless", "compact", "ascii", "solid"}
BaseOf(kind) == CASE kind \in {"borderless", "compact"} -> "none" [] kind = "ascii" -> "ascii" [] kind = "solid" -> "solid"

\* every attribute a table drawn with a style depends on.
\* TableStyle: string-valued attributes (cell styles are written "" = None, "bold" = an untagged Style,
\* "hdr:bold" / "hdr:red" = two different Style objects that carry the same tag "hdr"), the list of column
\* alignments and the default alignment (0 left, 1 right, 2 centred)
OwnAll == {"padding_char", "cell_format", "header_cell_format", "cell_style", "header_cell_style"}
\* BorderStyle: the fifteen characters and the style of the rules (glyphs of the solid style are written as letters)
BorderAll == {"line_ht_char", "line_hc_char", "line_hb_char", "line_vl_char", "line_vc_char", "line_vr_char",
              "corner_tl_char", "corner_tr_char", "corner_bl_char", "corner_br_char",
              "crossing_c_char", "crossing_l_char", "crossing_t_char", "crossing_r_char", "crossing_b_char", "style"}
BorderDefault(base) ==
  CASE base = "none"  -> [f \in BorderAll |-> IF f = "line_vc_char" THEN " " ELSE ""]
    [] base = "ascii" -> [f \in BorderAll |-> IF f \in {"line_ht_char", "line_hc_char", "line_hb_char"} THEN "-"
                                              ELSE IF f \in {"line_vl_char", "line_vc_char", "line_vr_char"} THEN "|"
                                              ELSE IF f = "style" THEN "" ELSE "+"]
    [] base = "solid" -> [line_ht_char |-> "H", line_hc_char |-> "H", line_hb_char |-> "H",
                          line_vl_char |-> "V", line_vc_char |-> "V", line_vr_char |-> "V",
                          corner_tl_char |-> "A", corner_tr_char |-> "B", corner_bl_char |-> "C", corner_br_char |-> "D",
                          crossing_c_char |-> "X", crossing_l_char |-> "L", crossing_t_char |-> "T",
                          crossing_r_char |-> "R", crossing_b_char |-> "U", style |-> ""]
\* what TableStyle.<kind>() writes into the BorderStyle it obtained
Overrides(kind, b) ==
  CASE kind = "borderless" -> [b EXCEPT !.line_hc_char = "=", !.line_vc_char = " ", !.crossing_c_char = " "]
    [] kind = "compact"    -> [b EXCEPT !.line_hc_char = "", !.line_vc_char = " ", !.crossing_c_char = ""]
    [] OTHER -> b
OwnDefault(kind) ==
  LET fmt == IF kind \in {"ascii", "solid"} THEN " {} " ELSE "{}"
  IN [padding_char |-> " ", cell_format |-> fmt, header_cell_format |-> fmt, cell_style |-> "", header_cell_style |-> "",
      aligns |-> <<>>, dflt |-> 0]

\* the customisations.  An entry of a style's own history:
\*   [f: attribute or method, v: string value, col, a: integers, seq: list of alignments]
Entry(f, v, col, a, seq) == [f |-> f, v |-> v, col |-> col, a |-> a, seq |-> seq]
AlignOps == {"set_column_alignment", "column_alignments", "default_column_alignment"}
\* TableStyle.set_column_alignment(col, a): the list grows (filled with the default alignment) as needed
SetColumn(al, dflt, col, a) ==
  LET grown == IF col > Len(al) - 1 THEN al \o [j \in 1..((IF Len(al) > col THEN Len(al) - col ELSE col - Len(al)) + 1) |-> dflt] ELSE al
  IN [grown EXCEPT ![col + 1] = a]
\* one customisation applied to the attribute values [own, border] of a style
ApplyEntry(e, h) ==
  CASE h.f = "set_column_alignment" -> [e EXCEPT !.own.aligns = SetColumn(e.own.aligns, e.own.dflt, h.col, h.a)]
    [] h.f = "column_alignments" -> [e EXCEPT !.own.aligns = h.seq]
    [] h.f = "default_column_alignment" -> [e EXCEPT !.own.dflt = h.a]
    [] h.f \in OwnAll -> [e EXCEPT !.own = [@ EXCEPT ![h.f] = h.v]]
    [] OTHER -> [e EXCEPT !.border = [@ EXCEPT ![h.f] = h.v]]

\* ------------------------------------------------------------------ components that are rendered
\* component kinds; "trace" / "trace2" are error traces of exceptions raised at two different source lines
\* "parared": a paragraph using the stock tag c1 on an I/O whose formatter's style set gives c1 other attributes
\* "labels": ONE LabelAlignment with two aligned LabeledParagraphs, rendered as a block layout does it (align, then each
\* paragraph) at the indentation of the I/O record; "block": ONE BlockLayout that is filled with the same paragraph and
\* labeled paragraphs before each render - what help pages are made of
Components == {"table", "para", "parared", "labeled", "labels", "block", "namever", "empty", "apphelp", "cmdhelp", "trace", "trace2"}
IsTrace(c) == c \in {"trace", "trace2"}
\* an I/O: [utf8, ansi, verb, width, ind]   verb \in {"normal", "verbose", "debug"}, width = terminal columns,
\* ind = the indentation passed to render (error traces take none, the empty line ignores it)
\* components whose text is wrapped to the terminal width
Wraps(c) == c \in {"table", "para", "parared", "labeled", "labels", "block", "apphelp", "cmdhelp"}
Indents(c) == ~IsTrace(c) /\ c # "empty"

VARIABLES
  \* A-layer
  heap,      \* BorderStyle objects: sequence of attribute records (index = identity)
  single,    \* class attributes BorderStyle._none/_ascii/_solid: index into heap, 0 = not created yet
  styles,    \* TableStyle objects: [kind, cell (its border_style), own (own attributes)]
  snip,      \* ExceptionTrace._FRAME_SNIPPET_CACHE: set of [frame, utf8] meaning "snippet of frame cached, drawn with/without UTF-8 glyphs"
  \* P-layer
  own,       \* per TableStyle: its own history: the factory call, then its customisations (Entry records)
  last       \* observation of the last operation
vars == <<heap, single, styles, snip, own, last>>

Init == /\ heap = <<>> /\ single = [b \in {"none", "ascii", "solid"} |-> 0] /\ styles = <<>> /\ snip = {}
        /\ own = <<>> /\ last = [op |-> "init"]

\* what a table drawn with style s shows depends on exactly these attribute values
Effective(s) == [own |-> styles[s].own, border |-> heap[styles[s].cell]]
AllEffective == [s \in 1..Len(styles) |-> Effective(s)]

\* TableStyle.<kind>()
Make(kind) ==
  /\ Len(styles) < MaxStyles
  /\ LET base == BaseOf(kind)
         cached == ~Repaired /\ single[base] # 0
         cell == IF cached THEN single[base] ELSE Len(heap) + 1
         h1 == IF cached THEN heap ELSE Append(heap, BorderDefault(base))
     IN /\ heap' = [h1 EXCEPT ![cell] = Overrides(kind, h1[cell])]
        /\ single' = IF Repaired THEN single ELSE [single EXCEPT ![base] = cell]
        /\ styles' = Append(styles, [kind |-> kind, cell |-> cell, own |-> OwnDefault(kind)])
  /\ own' = Append(own, <<Entry("make", kind, 0, 0, <<>>)>>)
  /\ last' = [op |-> "make", kind |-> kind, s |-> Len(styles) + 1, field |-> "", value |-> "", col |-> 0, a |-> 0, seq |-> <<>>]
  /\ UNCHANGED snip

\* style.<field> = value   /   style.border_style.<field> = value      (string-valued attributes)
Customise(s, field, value) ==
  /\ s \in 1..Len(styles)
  /\ IF field \in OwnAll
     THEN /\ styles' = [styles EXCEPT ![s].own = [@ EXCEPT ![field] = value]] /\ heap' = heap
     ELSE /\ heap' = [heap EXCEPT ![styles[s].cell] = [@ EXCEPT ![field] = value]] /\ styles' = styles
  /\ own' = [own EXCEPT ![s] = Append(@, Entry(field, value, 0, 0, <<>>))]
  /\ last' = [op |-> "custom", kind |-> "", s |-> s, field |-> field, value |-> value, col |-> 0, a |-> 0, seq |-> <<>>]
  /\ UNCHANGED <<single, snip>>

\* style.set_column_alignment(col, a)  /  style.column_alignments = seq  /  style.default_column_alignment = a
\* (every TableStyle object owns its list of alignments)
Align(s, how, col, a, seq) ==
  /\ s \in 1..Len(styles) /\ how \in AlignOps
  /\ styles' = [styles EXCEPT ![s].own = ApplyEntry([own |-> @, border |-> <<>>], Entry(how, "", col, a, seq)).own]
  /\ own' = [own EXCEPT ![s] = Append(@, Entry(how, "", col, a, seq))]
  /\ last' = [op |-> "align", kind |-> "", s |-> s, field |-> how, value |-> "", col |-> col, a |-> a, seq |-> seq]
  /\ UNCHANGED <<heap, single, snip>>

\* ---- rendering a component on an I/O.  inst distinguishes separately built, equal instances.
\* The error trace at debug verbosity shows a code snippet per frame; snippets are cached per frame.
Glyphs(c, io) ==
  IF ~(IsTrace(c) /\ io.verb = "debug") THEN io.utf8
  ELSE IF Repaired THEN io.utf8
  ELSE IF \E e \in snip : e.frame = c THEN (CHOOSE e \in snip : e.frame = c).utf8 ELSE io.utf8
\* abstract text: everything the drawn text may depend on.  Components carry style tags, so ANSI and plain text
\* differ (not for the empty line); verbosity selects the trace layout; a trace draws its markers with or without
\* UTF-8 glyphs, and - in debug snippets - with the glyphs of the cached snippet
View(c, io, g) == [comp |-> c, ansi |-> IF c = "empty" THEN FALSE ELSE io.ansi,
                   verb |-> IF IsTrace(c) THEN io.verb ELSE "-",
                   glyphs |-> IF IsTrace(c) THEN io.utf8 ELSE TRUE,
                   width |-> IF Wraps(c) THEN io.width ELSE 0,
                   ind |-> IF Indents(c) THEN io.ind ELSE 0,
                   snippet |-> IF IsTrace(c) /\ io.verb = "debug" THEN g ELSE TRUE]
Shown(c, io) == View(c, io, Glyphs(c, io))
Pure(c, io) == View(c, io, io.utf8)

Render(c, inst, io) ==
  /\ last' = [op |-> "render", comp |-> c, inst |-> inst, io |-> io, shown |-> Shown(c, io)]
  /\ snip' = IF IsTrace(c) /\ io.verb = "debug" /\ ~(\E e \in snip : e.frame = c /\ (Repaired => e.utf8 = io.utf8))
             THEN snip \cup {[frame |-> c, utf8 |-> io.utf8]} ELSE snip
  /\ UNCHANGED <<heap, single, styles, own>>

\* ------------------------------------------------------------------ P-layer
\* the attribute values a style built by its own history alone would have
RECURSIVE Apply(_, _)
Apply(e, h) == IF h = <<>> THEN e ELSE Apply(ApplyEntry(e, Head(h)), Tail(h))
Alone(h) == Apply([own |-> OwnDefault(h[1].v), border |-> Overrides(h[1].v, BorderDefault(BaseOf(h[1].v)))], Tail(h))

\* creating or customising one style never changes what a table built with another shows
NoAliasing == \A s \in 1..Len(styles) : Effective(s) = Alone(own[s])
\* a render shows what a first render on a fresh process would show
RenderPure == last.op = "render" => last.shown = Pure(last.comp, last.io)

TypeOK == /\ Len(styles) <= MaxStyles /\ Len(own) = Len(styles)
          /\ \A s \in 1..Len(styles) : styles[s].cell \in 1..Len(heap)
=============================================================================
