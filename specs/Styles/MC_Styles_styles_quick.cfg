SPECIFICATION SSpec
CONSTANTS
  Repaired = TRUE
  MaxStyles = 3
  UseAligns = TRUE
  RComps <- Components
  RIOs <- IOsAll
  Depth = 3
  OwnFields <- MCOwnAll
  BorderFields <- MCBorderAll
  Values <- MCValues
INVARIANT TypeOK
INVARIANT NoAliasing
INVARIANT RenderPure
INVARIANT Emit
