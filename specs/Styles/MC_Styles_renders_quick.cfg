SPECIFICATION RSpec
CONSTANTS
  Repaired = TRUE
  MaxStyles = 3
  UseAligns = TRUE
  RComps <- Components
  RIOs <- IOsAll
  Depth = 2
  OwnFields <- MCOwn
  BorderFields <- MCBorder
  Values <- MCValues
INVARIANT TypeOK
INVARIANT NoAliasing
INVARIANT RenderPure
INVARIANT Emit
