SPECIFICATION TSpec
CONSTANTS
  Repaired = TRUE
  MaxStyles = 99
  OwnFields <- TOwn
  BorderFields <- TBorder
  Values = {}
INVARIANT TypeOK
