----------------------------- MODULE StylesTrace -----------------------------
(* Recorded operations on the real TableStyle / BorderStyle classes and recorded renders of components, checked
   against Styles.  Event (every event carries every field):
     op      "make" | "custom" | "align" | "render"
     kind, s, field, value        arguments of make / custom (string-valued attribute of the style or its border_style)
     field, col, a, seq           align: field = "set_column_alignment" (col, a) | "column_alignments" (seq) |
                                  "default_column_alignment" (a)
     comp, inst, io               arguments of render (io = [utf8, ansi, verb])
     ids     after make/custom/align: for every existing style object, the identity of the text a fixed table shows
             when rendered with it now (equal numbers <=> equal text, interned by the driver)
     refs    after make/custom/align: for every style object the identity of the text a fresh process shows for a style
             with this own history alone, or 0 when the driver took no reference
     fields  after make/custom/align: the attribute values read from every style object (A-layer comparison only)
     exc     make/custom/align: class of an exception the call raised ("" = none)
     id      for render: identity of the rendered text
     ref     for render: identity of the text that a fresh process shows for an equally built component on an
             equally capable I/O (rendered by the driver in a forked child that has rendered nothing before)
   P.noalias   two style objects (or one at two moments) with the same own history show the same table
   P.rerender  a render shows what a fresh process shows, and two renders of equally built components on equally
               capable I/Os show the same text                                                                *)
EXTENDS Styles, TraceKit

VARIABLES tid, l,
          pts,    \* [h: own history, id] seen so far
          rpts    \* [comp, io, id, shown] seen so far
tvars == <<vars, tid, l, pts, rpts>>

T == Traces[tid]
Ev == T[l]

TInit == tid \in 1..NTraces /\ l = 1 /\ pts = {} /\ rpts = {} /\ Init
Adv == l' = l + 1 /\ tid' = tid

StyleClauses(e) ==
  LET new == {[h |-> own'[s], id |-> e.ids[s], kind |-> styles'[s].kind] : s \in 1..Len(styles')}
      all == pts \cup new
      bad == {p \in new : \E q \in all : q.h = p.h /\ q.id # p.id}
             \cup {p \in new : \E s \in 1..Len(styles') : own'[s] = p.h /\ e.refs[s] # 0 /\ e.refs[s] # e.ids[s]}
  IN /\ Check(tid, l, "P.noalias", "raised/" \o e.exc, e.exc = "")        \* a factory or setter raised
     /\ Check(tid, l, "H.ids", "", Len(e.ids) = Len(styles') /\ Len(e.refs) = Len(styles'))
     /\ Check(tid, l, "P.noalias", IF bad = {} THEN "" ELSE (CHOOSE p \in bad : TRUE).kind, bad = {})
     /\ Note(tid, l, "A.heap", e.fields = AllEffective')
     /\ pts' = all /\ rpts' = rpts

TMake == /\ l <= Len(T) /\ Ev.op = "make" /\ Adv
         /\ Make(Ev.kind)
         /\ StyleClauses(Ev)

TCustom == /\ l <= Len(T) /\ Ev.op = "custom" /\ Adv
           /\ Customise(Ev.s, Ev.field, Ev.value)
           /\ StyleClauses(Ev)

TAlign == /\ l <= Len(T) /\ Ev.op = "align" /\ Adv
          /\ Align(Ev.s, Ev.field, Ev.col, Ev.a, Ev.seq)
          /\ StyleClauses(Ev)

TRender ==
  /\ l <= Len(T) /\ Ev.op = "render" /\ Adv
  /\ Render(Ev.comp, Ev.inst, Ev.io)
  /\ LET p == [comp |-> Ev.comp, io |-> Ev.io, id |-> Ev.id, shown |-> last'.shown]
         all == rpts \cup {p}
     IN /\ Check(tid, l, "P.rerender", Ev.comp,
                 Ev.id = Ev.ref /\ \A q \in all : (q.comp = p.comp /\ q.io = p.io) => q.id = p.id)
        /\ Note(tid, l, "A.shown", \A q \in all : (q.shown = p.shown) <=> (q.id = p.id))
        /\ rpts' = all /\ pts' = pts

TDone == /\ l = Len(T) + 1 /\ l' = l + 1 /\ tid' = tid /\ UNCHANGED <<vars, pts, rpts>> /\ Accept(tid)

TNext == TMake \/ TCustom \/ TAlign \/ TRender \/ TDone
TSpec == TInit /\ [][TNext]_tvars

TOwn == {"padding_char", "cell_format"}
TBorder == {"line_ht_char", "line_hc_char", "line_vc_char", "crossing_c_char"}
=============================================================================
