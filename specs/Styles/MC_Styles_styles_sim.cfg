SPECIFICATION SSpec
CONSTANTS
  Repaired = TRUE
  MaxStyles = 3
  Depth = 7
  OwnFields <- MCOwn2
  BorderFields <- MCBorder2
  Values <- MCValues2
INVARIANT TypeOK
INVARIANT NoAliasing
INVARIANT RenderPure
INVARIANT Emit
