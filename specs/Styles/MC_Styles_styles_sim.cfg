SPECIFICATION SSpec
CONSTANTS
  Repaired = TRUE
  MaxStyles = 3
  UseAligns = TRUE
  RComps <- Components
  RIOs <- IOsAll
  Depth = 7
  OwnFields <- MCOwnAll
  BorderFields <- MCBorderAll
  Values <- MCValues2
INVARIANT TypeOK
INVARIANT NoAliasing
INVARIANT RenderPure
INVARIANT Emit
