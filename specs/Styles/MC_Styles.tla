----------------------------- MODULE MC_Styles -----------------------------
(* Two families over one specification:
   SSpec  every sequence of Depth style operations (factories, customisations); NoAliasing on every state; the
          finished sequences are emitted (with the attribute values the A-layer predicts after every step) and
          replayed on the real TableStyle / BorderStyle classes, rendering a table with every style after each step;
   RSpec  every sequence of Depth renders of components on I/Os with different capabilities; RenderPure.       *)
EXTENDS Styles, Json

CONSTANTS Depth, UseAligns, RComps, RIOs
VARIABLE hist
hvars == <<vars, hist>>

\* menus: Own/Border = attributes that Customise may assign, Values = what is assigned ("*" stands for one value
\* that suits the attribute: "#" for characters, "[{}]" for formats, "bold" for cell / rule styles)
MCOwn == {"padding_char"}
MCBorder == {"line_hc_char", "crossing_c_char"}
MCValues == {"*"}
MCOwnAll == OwnAll
MCBorderAll == BorderAll
MCValues2 == {"*", ""}
\* tagged styles whose tags collide: the same name, different attributes
MCStyled == {"header_cell_style"}
MCRule == {"style"}
MCTagged == {"hdr:bold", "hdr:red"}
ValueFor(f, v) == IF v # "*" THEN v
                  ELSE IF f \in {"cell_format", "header_cell_format"} THEN "[{}]"
                  ELSE IF f \in {"cell_style", "header_cell_style", "style"} THEN "bold" ELSE "#"
\* alignment customisations on the 3-column table: the setter on every column (so that ascending, descending and
\* repeated calls all occur among the sequences), assigning a list, changing the default
MCAligns == {<<"set_column_alignment", 0, 1, <<>>>>, <<"set_column_alignment", 1, 2, <<>>>>, <<"set_column_alignment", 2, 1, <<>>>>,
             <<"column_alignments", 0, 0, <<2, 1>>>>, <<"default_column_alignment", 0, 1, <<>>>>}

HInit == Init /\ hist = <<>>

SNext == /\ Len(hist) < Depth
         /\ \/ \E k \in Kinds : Make(k)
            \/ \E s \in 1..Len(styles), f \in OwnFields \cup BorderFields, v \in Values : Customise(s, f, ValueFor(f, v))
            \/ \E s \in 1..Len(styles), m \in (IF UseAligns THEN MCAligns ELSE {}) : Align(s, m[1], m[2], m[3], m[4])
         /\ hist' = Append(hist, [op |-> last'.op, kind |-> last'.kind, s |-> last'.s, field |-> last'.field,
                                  value |-> last'.value, col |-> last'.col, a |-> last'.a, seq |-> last'.seq,
                                  eff |-> AllEffective'])
SSpec == HInit /\ [][SNext]_hvars

IOs == {[utf8 |-> TRUE, ansi |-> FALSE, verb |-> "normal", width |-> 60, ind |-> 0], [utf8 |-> FALSE, ansi |-> FALSE, verb |-> "normal", width |-> 60, ind |-> 0],
        [utf8 |-> TRUE, ansi |-> FALSE, verb |-> "debug", width |-> 60, ind |-> 0], [utf8 |-> FALSE, ansi |-> FALSE, verb |-> "debug", width |-> 60, ind |-> 0],
        [utf8 |-> TRUE, ansi |-> TRUE, verb |-> "debug", width |-> 60, ind |-> 0], [utf8 |-> TRUE, ansi |-> TRUE, verb |-> "verbose", width |-> 60, ind |-> 0],
        [utf8 |-> TRUE, ansi |-> FALSE, verb |-> "normal", width |-> 40, ind |-> 0], [utf8 |-> TRUE, ansi |-> TRUE, verb |-> "debug", width |-> 40, ind |-> 0]}
IOsAll == IOs \cup {[utf8 |-> TRUE, ansi |-> FALSE, verb |-> "normal", width |-> 60, ind |-> 4]}
\* repeated renders of the label alignment at changing indentations: (4,4), (4,0), (2,6,0), ...
IndIOs == {[utf8 |-> TRUE, ansi |-> FALSE, verb |-> "normal", width |-> 60, ind |-> k] : k \in {0, 2, 6}}
          \cup {[utf8 |-> TRUE, ansi |-> TRUE, verb |-> "normal", width |-> 40, ind |-> 4]}
AlignComps == {"labels", "block"}
Insts(c) == IF c \in {"table", "trace", "labels"} THEN {1, 2} ELSE {1}

RNext == /\ Len(hist) < Depth
         /\ \E c \in RComps : \E inst \in Insts(c) : \E io \in RIOs : Render(c, inst, io)
         /\ hist' = Append(hist, [comp |-> last'.comp, inst |-> last'.inst, io |-> last'.io, shown |-> last'.shown])
RSpec == HInit /\ [][RNext]_hvars

Emit == Len(hist) = Depth => PrintT(ToJson(hist))
DepthBound == Len(hist) <= Depth
=============================================================================
