----------------------------- MODULE MC_Styles -----------------------------
(* Two families over one specification:
   SSpec  every sequence of Depth style operations (factories, customisations); NoAliasing on every state; the
          finished sequences are emitted (with the attribute values the A-layer predicts after every step) and
          replayed on the real TableStyle / BorderStyle classes, rendering a table with every style after each step;
   RSpec  every sequence of Depth renders of components on I/Os with different capabilities; RenderPure.       *)
EXTENDS Styles, Json

CONSTANT Depth
VARIABLE hist
hvars == <<vars, hist>>

MCOwn == {"padding_char"}
MCBorder == {"line_hc_char", "line_vc_char", "crossing_c_char"}
MCValues == {"#"}
MCOwn2 == {"padding_char", "cell_format"}
MCBorder2 == {"line_ht_char", "line_hc_char", "line_vc_char", "crossing_c_char"}
MCValues2 == {"#", ""}

HInit == Init /\ hist = <<>>

SNext == /\ Len(hist) < Depth
         /\ \/ \E k \in Kinds : Make(k)
            \/ \E s \in 1..Len(styles), f \in OwnFields \cup BorderFields, v \in Values : Customise(s, f, v)
         /\ hist' = Append(hist, [op |-> last'.op, kind |-> last'.kind, s |-> last'.s, field |-> last'.field,
                                  value |-> last'.value, eff |-> AllEffective'])
SSpec == HInit /\ [][SNext]_hvars

IOs == {[utf8 |-> TRUE, ansi |-> FALSE, verb |-> "normal"], [utf8 |-> FALSE, ansi |-> FALSE, verb |-> "normal"],
        [utf8 |-> TRUE, ansi |-> FALSE, verb |-> "debug"], [utf8 |-> FALSE, ansi |-> FALSE, verb |-> "debug"],
        [utf8 |-> TRUE, ansi |-> TRUE, verb |-> "debug"], [utf8 |-> TRUE, ansi |-> TRUE, verb |-> "verbose"]}
Insts(c) == IF c \in {"table", "trace"} THEN {1, 2} ELSE {1}

RNext == /\ Len(hist) < Depth
         /\ \E c \in Components : \E inst \in Insts(c) : \E io \in IOs : Render(c, inst, io)
         /\ hist' = Append(hist, [comp |-> last'.comp, inst |-> last'.inst, io |-> last'.io, shown |-> last'.shown])
RSpec == HInit /\ [][RNext]_hvars

Emit == Len(hist) = Depth => PrintT(ToJson(hist))
DepthBound == Len(hist) <= Depth
=============================================================================
