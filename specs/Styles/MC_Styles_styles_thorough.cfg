SPECIFICATION SSpec
CONSTANTS
  Repaired = TRUE
  MaxStyles = 3
  Depth = 4
  OwnFields <- MCOwn
  BorderFields <- MCBorder
  Values <- MCValues
INVARIANT TypeOK
INVARIANT NoAliasing
INVARIANT RenderPure
INVARIANT Emit
