SPECIFICATION SSpec
CONSTANTS
  Repaired = FALSE
  MaxStyles = 3
  UseAligns = TRUE
  Depth = 3
  OwnFields <- MCOwn
  BorderFields <- MCBorder
  Values <- MCValues
INVARIANT TypeOK
INVARIANT NoAliasing
INVARIANT RenderPure
