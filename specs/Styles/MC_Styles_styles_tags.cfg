SPECIFICATION SSpec
CONSTANTS
  Repaired = TRUE
  MaxStyles = 2
  UseAligns = FALSE
  RComps <- Components
  RIOs <- IOsAll
  Depth = 4
  OwnFields <- MCStyled
  BorderFields <- MCRule
  Values <- MCTagged
INVARIANT TypeOK
INVARIANT NoAliasing
INVARIANT RenderPure
INVARIANT Emit
