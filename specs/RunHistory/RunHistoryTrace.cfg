SPECIFICATION TSpec
CONSTANTS
  Repaired = TRUE
  MaxRuns = 99
