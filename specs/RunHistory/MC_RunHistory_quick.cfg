SPECIFICATION Spec
CONSTANTS
  Repaired = TRUE
  MaxRuns = 2
INVARIANT SameAsFresh
INVARIANT NoResidue
INVARIANT Emit
