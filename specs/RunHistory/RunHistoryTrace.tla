-------------------------- MODULE RunHistoryTrace --------------------------
(* Sequences of runs on one real ConsoleApplication, each compared with a fresh application for the same line.
   event: [kind ("" for a line outside the model's pool), line, shared [status, out, err, calls], fresh [...], pristine [...]]
   out / err / calls are interned texts (equal ids <=> equal texts).                                          *)
EXTENDS RunHistory, TraceKit
VARIABLES tid, l
tvars == <<vars, tid, l>>
T == Traces[tid]
Ev == T[l]
TInit == tid \in 1..NTraces /\ l = 1 /\ Init
StatusClass(o) == IF o.status = 0 THEN "zero" ELSE "nonzero"
ModelStatus(c) == IF c = "error" THEN "nonzero" ELSE "zero"
TRun == /\ l <= Len(T) /\ l' = l + 1 /\ tid' = tid
        /\ Check(tid, l, "P.history.status", Ev.kind, Ev.shared.status = Ev.fresh.status)
        /\ Check(tid, l, "P.history.output", Ev.kind, Ev.shared.out = Ev.fresh.out /\ Ev.shared.err = Ev.fresh.err)
        /\ Check(tid, l, "P.history.handler_args", Ev.kind, Ev.shared.calls = Ev.fresh.calls)
        \* ... and with a fresh application in a process that never ran anything (whatever a run leaves behind on classes
        \* or modules reaches the fresh application of this process too)
        /\ Check(tid, l, "P.history.pristine", Ev.kind, Ev.shared = Ev.pristine)
        /\ IF Ev.kind \in Kinds
           THEN /\ Note(tid, l, "A.class", StatusClass(Ev.shared) = ModelStatus(Class(Ev.kind, lenient)))
                /\ last' = [kind |-> Ev.kind, class |-> Class(Ev.kind, lenient)]
                /\ hist' = Append(hist, last') /\ lenient' = Leaves(Ev.kind, lenient)
           ELSE UNCHANGED vars
TDone == /\ l = Len(T) + 1 /\ l' = l + 1 /\ tid' = tid /\ UNCHANGED vars /\ Accept(tid)
TNext == TRun \/ TDone
TSpec == TInit /\ [][TNext]_tvars
=============================================================================
