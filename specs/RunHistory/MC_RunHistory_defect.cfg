SPECIFICATION Spec
CONSTANTS
  Repaired = FALSE
  MaxRuns = 2
INVARIANT SameAsFresh
