--------------------------- MODULE MC_RunHistory ---------------------------
EXTENDS RunHistory, Json
ASSUME PrintT(<<"LINES", ToJson(Lines)>>)
Emit == Len(hist) = MaxRuns => PrintT(ToJson(hist))
=============================================================================
