SPECIFICATION Spec
CONSTANTS
  Repaired = TRUE
  MaxRuns = 3
INVARIANT SameAsFresh
INVARIANT NoResidue
INVARIANT Emit
