----------------------------- MODULE RunHistory -----------------------------
(* One ConsoleApplication object serving a sequence of command lines   (property C17, first sentence)

   What survives a run inside the application: the per-command leniency override that the help resolver
   switches on while it resolves the command a help request is about.
   A-layer: Run(kind) - the outcome class of a line as a function of the overrides, and what the run leaves
            behind (help resolution enables leniency, resolves, disables again; Repaired = FALSE is the pinned
            code, where a failing resolution skips the restore).
   P-layer: SameAsFresh - the outcome of every run equals the outcome of that line on a fresh application.

   Application: foo { bar (default sub-command, one required argument x) }, baz (one optional argument y),
   default configuration (help command, global switches).  Line kinds stand for concrete lines, see Lines.   *)
EXTENDS Naturals, Sequences, FiniteSets, TLC

CONSTANTS Repaired, MaxRuns
Cmds == {"bar", "baz"}
Kinds == {"bar_ok", "bar_many", "baz_ok", "baz_many", "baz_badopt", "help_foo", "help_baz", "foo_dashhelp",
          "help_foo_many", "help_baz_many", "version", "undefined", "help_undefined", "empty"}
\* concrete lines (mirrored by the driver)
Lines == [bar_ok |-> "foo v", bar_many |-> "foo a b", baz_ok |-> "baz w", baz_many |-> "baz a b c", baz_badopt |-> "baz --nope",
          help_foo |-> "help foo", help_baz |-> "help baz", foo_dashhelp |-> "foo v --help", help_foo_many |-> "help foo a b",
          help_baz_many |-> "help baz a b c", version |-> "--version", undefined |-> "nope", help_undefined |-> "help nope",
          empty |-> ""]

VARIABLES lenient,   \* [Cmds -> BOOLEAN]  the override in force between runs (FALSE = strict, as configured)
          hist,      \* outcomes so far: [kind, class]
          last
vars == <<lenient, hist, last>>

\* the command a line is parsed for, and whether its positionals exceed what the command declares
Target(k) == CASE k \in {"bar_ok", "bar_many", "help_foo", "foo_dashhelp", "help_foo_many"} -> "bar"
               [] k \in {"baz_ok", "baz_many", "baz_badopt", "help_baz", "help_baz_many"} -> "baz"
               [] OTHER -> "none"
Surplus(k) == k \in {"bar_many", "baz_many", "help_foo_many", "help_baz_many"}
\* outcome class of one run, given the overrides at its start
Class(k, len) ==
  CASE k \in {"bar_ok", "baz_ok"} -> "handled"
    [] k \in {"bar_many", "baz_many"} -> IF len[Target(k)] THEN "handled" ELSE "error"   \* surplus is ignored when lenient
    [] k = "baz_badopt" -> IF len["baz"] THEN "handled" ELSE "error"
    [] k \in {"help_baz", "help_baz_many", "foo_dashhelp"} -> "help"       \* parsed only after leniency is on
    \* foo has a default sub-command: the resolver has already parsed the line strictly for it (missing x / surplus)
    \* and the cached result is used although leniency is switched on afterwards
    [] k \in {"help_foo", "help_foo_many"} -> IF len["bar"] THEN "help" ELSE "error"
    [] k = "version" -> "version"
    [] k = "empty" -> "apphelp"
    [] k \in {"undefined", "help_undefined"} -> "error"
\* the help resolver: enable leniency on the command, resolve (may raise), disable
Leaves(k, len) ==
  IF k \in {"help_foo", "help_baz", "help_foo_many", "help_baz_many", "foo_dashhelp"}
  THEN IF Class(k, len) = "error" /\ ~Repaired THEN [len EXCEPT ![Target(k)] = TRUE]     \* restore skipped
       ELSE [len EXCEPT ![Target(k)] = FALSE]
  ELSE len

Init == lenient = [c \in Cmds |-> FALSE] /\ hist = <<>> /\ last = [kind |-> "none", class |-> "none"]
Run(k) == /\ Len(hist) < MaxRuns
          /\ last' = [kind |-> k, class |-> Class(k, lenient)]
          /\ hist' = Append(hist, last')
          /\ lenient' = Leaves(k, lenient)
Next == \E k \in Kinds : Run(k)
Spec == Init /\ [][Next]_vars

Fresh == [c \in Cmds |-> FALSE]
SameAsFresh == last.kind # "none" => last.class = Class(last.kind, Fresh)
NoResidue == lenient = Fresh
=============================================================================
