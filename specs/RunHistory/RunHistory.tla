----------------------------- MODULE RunHistory -----------------------------
(* One ConsoleApplication object serving a sequence of command lines   (property C17, first sentence)

   What survives a run inside the application: the per-command leniency override that the help resolver
   switches on while it resolves the command a help request is about.
   A-layer: Run(kind) - the outcome class of a line as a function of the overrides, and what the run leaves
            behind (help resolution enables leniency, resolves, disables again; Repaired = FALSE is the pinned
            code, where a failing resolution skips the restore).
   P-layer: SameAsFresh - the outcome of every run equals the outcome of that line on a fresh application.

   Application: foo { bar (default sub-command, one required argument x) }, baz (one optional argument y),
   default configuration (help command, global switches).  Line kinds stand for concrete lines, see Lines.   *)
EXTENDS Naturals, Sequences, FiniteSets, TLC

CONSTANTS Repaired, MaxRuns
Cmds == {"bar", "baz"}
Kinds == {"bar_ok", "bar_many", "baz_ok", "baz_many", "baz_badopt", "help_foo", "help_baz", "foo_dashhelp",
          "help_foo_many", "help_baz_many", "version", "undefined", "help_undefined", "empty",
          "bare_badopt", "help_badopt", "baz_dashh",
          "alias_ok", "alias_many", "help_alias"}          \* baz has the alias bz
\* concrete lines (mirrored by the driver)
Lines == [bar_ok |-> "foo v", bar_many |-> "foo a b", baz_ok |-> "baz w", baz_many |-> "baz a b c", baz_badopt |-> "baz --nope",
          help_foo |-> "help foo", help_baz |-> "help baz", foo_dashhelp |-> "foo v --help", help_foo_many |-> "help foo a b",
          help_baz_many |-> "help baz a b c", version |-> "--version", undefined |-> "nope", help_undefined |-> "help nope",
          empty |-> "", bare_badopt |-> "--bogus", help_badopt |-> "help --bogus", baz_dashh |-> "baz w -h",
          alias_ok |-> "bz w", alias_many |-> "bz a b c", help_alias |-> "help bz"]

VARIABLES lenient,   \* [Cmds -> BOOLEAN]  the override in force between runs (FALSE = strict, as configured)
          hist,      \* outcomes so far: [kind, class]
          last
vars == <<lenient, hist, last>>

\* the command a line is parsed for, and whether its positionals exceed what the command declares
Target(k) == CASE k \in {"bar_ok", "bar_many", "help_foo", "foo_dashhelp", "help_foo_many"} -> "bar"
               [] k \in {"baz_ok", "baz_many", "baz_badopt", "help_baz", "help_baz_many", "baz_dashh",
                        "alias_ok", "alias_many", "help_alias"} -> "baz"
               [] OTHER -> "none"
Surplus(k) == k \in {"bar_many", "baz_many", "help_foo_many", "help_baz_many", "alias_many"}
\* outcome class of one run, given the overrides at its start
Class(k, len) ==
  CASE k \in {"bar_ok", "baz_ok", "alias_ok"} -> "handled"
    [] k \in {"bar_many", "baz_many", "alias_many"} -> IF len[Target(k)] THEN "handled" ELSE "error"   \* surplus is ignored when lenient
    [] k = "baz_badopt" -> IF len["baz"] THEN "handled" ELSE "error"
    [] k \in {"help_baz", "help_baz_many", "foo_dashhelp", "baz_dashh", "help_alias"} -> "help"
    \* foo has a default sub-command.  Repaired: the help resolver parses the selected command leniently itself.
    \* Pinned: the resolver had already parsed the line strictly for it (missing x / surplus) and that cached result
    \* was used although leniency was switched on afterwards.
    [] k \in {"help_foo", "help_foo_many"} -> IF Repaired \/ len["bar"] THEN "help" ELSE "error"
    [] k \in {"bare_badopt", "help_badopt"} -> "error"      \* the help command itself parses strictly
    [] k = "version" -> "version"
    [] k = "empty" -> "apphelp"
    [] k \in {"undefined", "help_undefined"} -> "error"
\* what a run leaves behind.  Pinned: the help resolver enabled leniency on the command, resolved (may raise), disabled
\* it - a failing resolution skipped the restore.  Repaired: nothing is toggled.
Leaves(k, len) ==
  IF ~Repaired /\ k \in {"help_foo", "help_baz", "help_foo_many", "help_baz_many", "foo_dashhelp", "baz_dashh", "help_alias"}
  THEN IF Class(k, len) = "error" THEN [len EXCEPT ![Target(k)] = TRUE] ELSE [len EXCEPT ![Target(k)] = FALSE]
  ELSE len

Init == lenient = [c \in Cmds |-> FALSE] /\ hist = <<>> /\ last = [kind |-> "none", class |-> "none"]
Run(k) == /\ Len(hist) < MaxRuns
          /\ last' = [kind |-> k, class |-> Class(k, lenient)]
          /\ hist' = Append(hist, last')
          /\ lenient' = Leaves(k, lenient)
Next == \E k \in Kinds : Run(k)
Spec == Init /\ [][Next]_vars

Fresh == [c \in Cmds |-> FALSE]
SameAsFresh == last.kind # "none" => last.class = Class(last.kind, Fresh)
NoResidue == lenient = Fresh
=============================================================================
