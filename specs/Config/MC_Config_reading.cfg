SPECIFICATION HSpec
CONSTANTS
  MaxObj = 3
  ArgPool <- MCArgs
  OptPool <- MCOpts
  Depth = 3
  SeedSet = {2}
INVARIANT WellFormed
INVARIANT ExplicitWins
INVARIANT AnonymousIsDefault
INVARIANT ListsValid
INVARIANT ReadingInheritsFromContainer
