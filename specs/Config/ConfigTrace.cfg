SPECIFICATION TSpec
CONSTANTS
  MaxObj = 99
  ArgPool <- TArgs
  OptPool <- TOpts
