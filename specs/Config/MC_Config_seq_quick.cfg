SPECIFICATION HSpec
CONSTANTS
  MaxObj = 3
  ArgPool <- MCArgs
  OptPool <- MCOpts
  Depth = 1
  SeedSet = {1, 2, 3}
INVARIANT WellFormed
INVARIANT ExplicitWins
INVARIANT AnonymousIsDefault
INVARIANT ListsValid
INVARIANT Emit
