---------------------------- MODULE ConfigTrace ----------------------------
(* Recorded call sequences on real ApplicationConfig / CommandConfig objects checked against Config.
   A trace starts from a fresh application configuration; an event:
     e = [op, t, s, l, b, n]      the call (see Config.tla)
     res                          what it returned / raised, as the driver projected it
     snap                         what the getters of the target answered afterwards
     final, isLast                on the last event: the getters of the application and of every object
   Only A-clauses (Note): A.shape (the call does not fit the model's heap), A.result, A.getters, A.final.  After the
   first difference the rest of the trace is skipped (the model's state no longer mirrors the objects).        *)
EXTENDS Config, TraceKit

VARIABLES tid, l
tvars == <<vars, tid, l>>

Tr == Traces[tid]
Ev == Tr[l]

TArgs == <<[name |-> "a1", req |-> TRUE, multi |-> FALSE], [name |-> "a2", req |-> FALSE, multi |-> FALSE],
           [name |-> "a3", req |-> FALSE, multi |-> TRUE]>>
TOpts == <<[long |-> "o1", short |-> "o"], [long |-> "o2", short |-> "o"], [long |-> "o3", short |-> ""]>>

SharedNames == {"addarg", "addopt", "setparser", "lenient", "sethandler", "setmethod", "setname", "sethelp"}
CmdNames == {"addalias", "addaliases", "setaliases", "setdesc", "enable", "disable", "hide", "settitle", "default", "anonymous",
             "setparent", "sub", "createsub", "addsub", "getsub", "editsub", "hassub", "hassubs", "build"}
AppNames == {"setdisplay", "setversion", "setcatch", "setterm", "debug", "setio", "listen", "addstyle", "addstyles", "removestyle",
             "command", "createcommand", "addcommand", "getcommand", "editcommand", "hascommand", "hascommands", "new"}
Fits(e) ==
  /\ e.t \in 0..Len(objs)
  /\ e.op \in SharedNames \/ (e.op \in CmdNames /\ e.t > 0) \/ (e.op \in AppNames /\ e.t = 0)
  /\ e.op \in {"addsub", "addcommand"} => e.n \in 1..Len(objs)
  /\ e.op = "build" => e.n \in 0..Len(objs)
  /\ e.op = "addarg" => e.n \in DOMAIN ArgPool
  /\ e.op = "addopt" => e.n \in DOMAIN OptPool
  /\ e.op = "setparent" => (e.n \in 0..Len(objs) /\ e.t \notin Ancestors(objs, e.n))

TInit == tid \in 1..NTraces /\ l = 1 /\ Init

TCall ==
  /\ l <= Len(Tr)
  /\ IF ~Fits(Ev.e)
     THEN Note(tid, l, "A.shape", FALSE) /\ l' = Len(Tr) + 1 /\ UNCHANGED <<vars, tid>>
     ELSE LET r == Apply(app, objs, Ev.e)
              okRes == r.res = Ev.res
              okSnap == Snap(r.app, r.objs, Ev.e.t) = Ev.snap
              okFinal == Ev.isLast => Full(r.app, r.objs) = Ev.final
          IN /\ Note(tid, l, "A.result", okRes)
             /\ Note(tid, l, "A.getters", okSnap)
             /\ Note(tid, l, "A.final", okFinal)
             /\ app' = r.app /\ objs' = r.objs /\ last' = [e |-> Ev.e, res |-> r.res]
             /\ l' = IF okRes /\ okSnap /\ okFinal THEN l + 1 ELSE Len(Tr) + 1
             /\ tid' = tid
TDone == /\ l = Len(Tr) + 1 /\ l' = l + 1 /\ UNCHANGED <<vars, tid>> /\ Accept(tid)

TNext == TCall \/ TDone
TSpec == TInit /\ [][TNext]_tvars
=============================================================================
