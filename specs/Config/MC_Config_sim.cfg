SPECIFICATION HSpec
CONSTANTS
  MaxObj = 5
  ArgPool <- MCArgs
  OptPool <- MCOpts
  Depth = 10
  SeedSet = {1, 2, 3}
INVARIANT WellFormed
INVARIANT ExplicitWins
INVARIANT AnonymousIsDefault
INVARIANT ListsValid
INVARIANT Emit
