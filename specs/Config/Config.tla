------------------------------- MODULE Config -------------------------------
(* clikit.api.config.{Config, CommandConfig, ApplicationConfig} - the configuration layer an application is described
   with before a ConsoleApplication is built from it.                      (extension: no listed property is about it)

   State: one application configuration `app` and a heap `objs` of command configurations (the id of an object is its
   position; objects are created by command() / create_command() / sub_command() / create_sub_command() or detached by
   the constructor).  Operations are descriptors e = [op, t, s, l, b, n]: t the target (0 = the application, k = objs[k]),
   s / l / b / n a string / list / boolean / number argument; Apply(app, objs, e) is the effect of one call and what it
   returns; Snap(app, objs, t) is what every getter of the target answers afterwards.

   All clauses about this module are A-clauses (mirror of the code; a difference is DRIFT, never a violation).
   "~" stands for None.  A handler "f:x" is a callable that returns "x" (the handler property calls callables);
   kind "custom" is a CommandConfig subclass that overrides default_handler_method / default_lenient_args_parsing - the
   only way the delegation of the default_* properties along parent_config becomes observable.                  *)
EXTENDS Naturals, Sequences, FiniteSets, TLC

CONSTANTS MaxObj,    \* bound on the number of command configurations (menu only)
          ArgPool,   \* [id -> [name, req, multi]]
          OptPool    \* [id -> [long, short]]          short = "" when absent

VARIABLES app, objs, last
vars == <<app, objs, last>>

None == "~"
Tri(b) == IF b THEN "T" ELSE "F"                    \* a boolean stored in a field that starts as None

\* ------------------------------------------------------------------ records
Base == [parser |-> None, len |-> None, handler |-> None, method |-> None, opts |-> <<>>, args |-> <<>>]
NewObj(name, kind) ==
  [kind |-> kind, name |-> name, al |-> <<>>, desc |-> "", help |-> None, en |-> TRUE, hid |-> FALSE, title |-> None,
   dflt |-> None, anon |-> None, subs |-> <<>>, parent |-> 0,
   parser |-> None, len |-> None, handler |-> None, method |-> None, opts |-> <<>>, args |-> <<>>]
NewApp ==
  [name |-> None, ver |-> None, display |-> None, help |-> None, catch |-> TRUE, term |-> TRUE, debug |-> FALSE, io |-> None,
   disp |-> FALSE, lis |-> <<>>, styles |-> <<>>, cmds |-> <<>>,
   parser |-> None, len |-> None, handler |-> None, method |-> None, opts |-> <<>>, args |-> <<>>]

\* results of a call
R(k, v, n) == [k |-> k, v |-> v, n |-> n, names |-> <<>>, opts |-> <<>>, args |-> <<>>]
Self == R("self", "", 0)
NoneR == R("none", "", 0)
Exc(cls) == R("exc", cls, 0)
ObjR(id) == R("obj", "", id)
BoolR(b) == R("bool", Tri(b), 0)
FmtR(names, opts, args) == [k |-> "fmt", v |-> "", n |-> 0, names |-> names, opts |-> opts, args |-> args]

\* ------------------------------------------------------------------ format rules (ArgsFormatBuilder.add_argument / add_option)
InSeq(s, x) == \E k \in 1..Len(s) : s[k] = x
ArgOK(ids, a) ==
  LET A == ArgPool[a]
  IN /\ \A k \in 1..Len(ids) : ArgPool[ids[k]].name # A.name
     /\ \A k \in 1..Len(ids) : ~ArgPool[ids[k]].multi                       \* nothing after a multi-valued argument
     /\ A.req => \A k \in 1..Len(ids) : ArgPool[ids[k]].req                 \* no required one after an optional one
OptOK(ids, o) ==
  LET O == OptPool[o]
  IN \A k \in 1..Len(ids) : OptPool[ids[k]].long # O.long /\ (O.short # "" => OptPool[ids[k]].short # O.short)
RECURSIVE AllOK(_, _, _)      \* adding the elements of `own` one by one onto `sofar` with rule Ok(_, _)
AllOK(Ok(_, _), sofar, own) == IF own = <<>> THEN TRUE ELSE Ok(sofar, Head(own)) /\ AllOK(Ok, Append(sofar, Head(own)), Tail(own))

\* ------------------------------------------------------------------ effective settings
\* Config.default_*: a CommandConfig asks its parent_config for the parent's *default* (never for what was set on the
\* parent explicitly); the chain ends at a configuration without parent or at a subclass that overrides the property
PlainDefault == [method |-> "handle", len |-> FALSE]
CustomDefault == [method |-> "execute", len |-> TRUE]
RECURSIVE DefaultOf(_, _)
DefaultOf(os, id) ==
  IF os[id].kind = "custom" THEN CustomDefault
  ELSE IF os[id].parent # 0 THEN DefaultOf(os, os[id].parent) ELSE PlainDefault
EffMethod(c, d) == IF c.method = None THEN d.method ELSE c.method
EffLen(c, d) == IF c.len = None THEN d.len ELSE c.len = "T"
EffParser(c) == IF c.parser = None THEN "<default>" ELSE c.parser          \* a new DefaultArgsParser per call
EffHandler(c) ==                                                            \* the default is handed out uncalled
  IF c.handler = None THEN "<default>"
  ELSE IF Len(c.handler) > 2 /\ SubSeq(c.handler, 1, 2) = "f:" THEN SubSeq(c.handler, 3, Len(c.handler)) ELSE c.handler

\* the chain parent_config, parent_config.parent_config, ... (menu guard: set_parent_config never closes a cycle)
RECURSIVE Ancestors(_, _)
Ancestors(os, id) == IF id = 0 THEN {} ELSE {id} \cup Ancestors(os, os[id].parent)

\* ApplicationConfig.default_display_name = re.sub(r"[\s\-_]+", " ", name).title(), on the names the checks use
Derived(n) == CASE n = None -> None [] n = "my-app" -> "My App" [] n = "x_y  z" -> "X Y Z" [] n = "" -> "" [] OTHER -> n

\* ------------------------------------------------------------------ what the getters answer
OptNames(ids) == [k \in 1..Len(ids) |-> OptPool[ids[k]].long]
ArgNames(ids) == [k \in 1..Len(ids) |-> ArgPool[ids[k]].name]
ObjSnap(os, id) ==
  LET c == os[id]
      d == DefaultOf(os, id)
  IN [name |-> c.name, aliases |-> c.al, desc |-> c.desc, help |-> c.help, enabled |-> c.en, hidden |-> c.hid,
      title |-> c.title, dflt |-> c.dflt, anon |-> c.anon, subs |-> c.subs, hassubs |-> c.subs # <<>>,
      parent |-> c.parent, issub |-> c.parent # 0,
      parser |-> EffParser(c), lenient |-> EffLen(c, d), handler |-> EffHandler(c), method |-> EffMethod(c, d),
      opts |-> OptNames(c.opts), args |-> ArgNames(c.args)]
Count(s, x) == Cardinality({k \in 1..Len(s) : s[k] = x})
AppSnap(a) ==
  [name |-> a.name, display |-> IF a.display # None THEN a.display ELSE Derived(a.name), version |-> a.ver, help |-> a.help,
   catch |-> a.catch, term |-> a.term, debug |-> a.debug, io |-> a.io,
   disp |-> a.disp, e1 |-> Count(a.lis, "e1"), e2 |-> Count(a.lis, "e2"), styles |-> a.styles,
   cmds |-> a.cmds, hascmds |-> a.cmds # <<>>,
   parser |-> EffParser(a), lenient |-> EffLen(a, PlainDefault), handler |-> EffHandler(a), method |-> EffMethod(a, PlainDefault),
   opts |-> OptNames(a.opts), args |-> ArgNames(a.args)]
Snap(a, os, t) == IF t = 0 THEN AppSnap(a) ELSE ObjSnap(os, t)
Full(a, os) == [app |-> AppSnap(a), objs |-> [k \in 1..Len(os) |-> ObjSnap(os, k)]]

\* ------------------------------------------------------------------ one call
St(a, os, r) == [app |-> a, objs |-> os, res |-> r]
Put(a, os, t, rec, r) == IF t = 0 THEN St(rec, os, r) ELSE St(a, [os EXCEPT ![t] = rec], r)
FirstNamed(os, ids, n) ==           \* get_*_config: the first listed configuration with that name, 0 = none
  LET hits == {k \in 1..Len(ids) : os[ids[k]].name = n} IN IF hits = {} THEN 0 ELSE ids[CHOOSE k \in hits : \A j \in hits : k <= j]
AddStyle(styles, tag) == IF InSeq(styles, tag) THEN styles ELSE Append(styles, tag)       \* a dict keyed by tag

\* CommandConfig.build_args_format(base): command name (unless anonymous) + options + arguments on top of the base format
Build(os, t, b) ==
  LET c == os[t]
      bopts == IF b = 0 THEN <<>> ELSE os[b].opts
      bargs == IF b = 0 THEN <<>> ELSE os[b].args
      bnames == IF b = 0 \/ os[b].anon = "T" THEN <<>> ELSE <<[n |-> os[b].name, al |-> os[b].al]>>
      names == bnames \o (IF c.anon = "T" THEN <<>> ELSE <<[n |-> c.name, al |-> c.al]>>)
  IN IF ~AllOK(OptOK, bopts, c.opts) THEN Exc("CannotAddOptionException")
     ELSE IF ~AllOK(ArgOK, bargs, c.args) THEN Exc("CannotAddArgumentException")
     ELSE FmtR(names, OptNames(c.opts \o bopts), ArgNames(bargs \o c.args))      \* options own first, arguments base first

Apply(a, os, e) ==
  LET t == e.t
      c == IF t = 0 THEN a ELSE os[t]
      new == Len(os) + 1
  IN CASE e.op = "addarg" -> IF ArgOK(c.args, e.n) THEN Put(a, os, t, [c EXCEPT !.args = Append(@, e.n)], Self)
                               ELSE St(a, os, Exc("CannotAddArgumentException"))
       [] e.op = "addopt" -> IF OptOK(c.opts, e.n) THEN Put(a, os, t, [c EXCEPT !.opts = Append(@, e.n)], Self)
                               ELSE St(a, os, Exc("CannotAddOptionException"))
       [] e.op = "setparser" -> Put(a, os, t, [c EXCEPT !.parser = e.s], Self)
       [] e.op = "lenient" -> Put(a, os, t, [c EXCEPT !.len = Tri(e.b)], Self)
       [] e.op = "sethandler" -> Put(a, os, t, [c EXCEPT !.handler = e.s], Self)
       [] e.op = "setmethod" -> Put(a, os, t, [c EXCEPT !.method = e.s], Self)
       \* ---- CommandConfig
       [] e.op = "setname" /\ t > 0 -> Put(a, os, t, [c EXCEPT !.name = e.s], Self)
       [] e.op = "addalias" -> Put(a, os, t, [c EXCEPT !.al = Append(@, e.s)], Self)
       [] e.op = "addaliases" -> Put(a, os, t, [c EXCEPT !.al = @ \o e.l], Self)
       [] e.op = "setaliases" -> Put(a, os, t, [c EXCEPT !.al = e.l], Self)
       [] e.op = "setdesc" -> Put(a, os, t, [c EXCEPT !.desc = e.s], Self)
       [] e.op = "sethelp" /\ t > 0 -> Put(a, os, t, [c EXCEPT !.help = e.s], Self)
       [] e.op = "enable" -> Put(a, os, t, [c EXCEPT !.en = TRUE], Self)
       [] e.op = "disable" -> Put(a, os, t, [c EXCEPT !.en = FALSE], Self)
       [] e.op = "hide" -> Put(a, os, t, [c EXCEPT !.hid = e.b], Self)
       [] e.op = "settitle" -> Put(a, os, t, [c EXCEPT !.title = e.s], Self)
       [] e.op = "default" -> Put(a, os, t, [c EXCEPT !.dflt = Tri(e.b), !.anon = "F"], Self)
       [] e.op = "anonymous" -> Put(a, os, t, [c EXCEPT !.dflt = "T", !.anon = "T"], Self)
       [] e.op = "setparent" -> Put(a, os, t, [c EXCEPT !.parent = e.n], Self)
       \* sub_command(name) (context manager) / create_sub_command(name): a new plain configuration, listed, *not* linked
       \* to its parent (parent_config stays None)
       [] e.op \in {"sub", "createsub"} ->
            St(a, [Append(os, NewObj(e.s, "plain")) EXCEPT ![t].subs = Append(@, new)], ObjR(new))
       [] e.op = "addsub" -> Put(a, os, t, [c EXCEPT !.subs = Append(@, e.n)], Self)
       [] e.op \in {"getsub", "editsub"} ->
            LET id == FirstNamed(os, c.subs, e.s) IN St(a, os, IF id = 0 THEN Exc("NoSuchCommandException") ELSE ObjR(id))
       [] e.op = "hassub" -> St(a, os, BoolR(FirstNamed(os, c.subs, e.s) # 0))
       [] e.op = "hassubs" -> St(a, os, BoolR(c.subs # <<>>))
       [] e.op = "build" -> St(a, os, Build(os, t, e.n))
       \* ---- ApplicationConfig
       [] e.op = "setname" /\ t = 0 -> St([a EXCEPT !.name = e.s], os, Self)
       [] e.op = "setdisplay" -> St([a EXCEPT !.display = e.s], os, Self)
       [] e.op = "setversion" -> St([a EXCEPT !.ver = e.s], os, Self)
       [] e.op = "sethelp" /\ t = 0 -> St([a EXCEPT !.help = e.s], os, Self)
       [] e.op = "setcatch" -> St([a EXCEPT !.catch = e.b], os, Self)
       [] e.op = "setterm" -> St([a EXCEPT !.term = e.b], os, Self)
       [] e.op = "debug" -> St([a EXCEPT !.debug = e.b], os, Self)
       [] e.op = "setio" -> St([a EXCEPT !.io = e.s], os, Self)
       \* add_event_listener: the dispatcher is created on first use
       [] e.op = "listen" -> St([a EXCEPT !.disp = TRUE, !.lis = Append(@, e.s)], os, Self)
       \* StyleSet.add refuses a style without tag
       [] e.op = "addstyle" -> IF e.s = None THEN St(a, os, Exc("ValueError")) ELSE St([a EXCEPT !.styles = AddStyle(@, e.s)], os, Self)
       [] e.op = "addstyles" ->      \* one by one: the styles in front of an unusable one stay added
            LET bad == {k \in 1..Len(e.l) : e.l[k] = None}
                upto == IF bad = {} THEN Len(e.l) ELSE (CHOOSE k \in bad : \A j \in bad : k <= j) - 1
                RECURSIVE AddAll(_, _)
                AddAll(s, k) == IF k > upto THEN s ELSE AddAll(AddStyle(s, e.l[k]), k + 1)
            IN St([a EXCEPT !.styles = AddAll(@, 1)], os, IF bad = {} THEN Self ELSE Exc("ValueError"))
       [] e.op = "removestyle" -> St([a EXCEPT !.styles = SelectSeq(@, LAMBDA x : x # e.s)], os, NoneR)   \* returns None
       [] e.op \in {"command", "createcommand"} ->
            St([a EXCEPT !.cmds = Append(@, new)], Append(os, NewObj(e.s, "plain")), ObjR(new))
       [] e.op = "addcommand" -> St([a EXCEPT !.cmds = Append(@, e.n)], os, Self)
       [] e.op \in {"getcommand", "editcommand"} ->
            LET id == FirstNamed(os, a.cmds, e.s) IN St(a, os, IF id = 0 THEN Exc("NoSuchCommandException") ELSE ObjR(id))
       \* has_command_config: `raise False` for an unknown name
       [] e.op = "hascommand" -> St(a, os, IF FirstNamed(os, a.cmds, e.s) # 0 THEN BoolR(TRUE) ELSE Exc("TypeError"))
       [] e.op = "hascommands" -> St(a, os, BoolR(a.cmds # <<>>))
       \* CommandConfig(name) / a subclass of it, not listed anywhere
       [] e.op = "new" -> St(a, Append(os, NewObj(e.s, IF e.b THEN "custom" ELSE "plain")), ObjR(new))

\* ------------------------------------------------------------------ the operation menu (what TLC explores)
Strs == {"x", "y", None}
E(op, t, s, l, b, n) == [op |-> op, t |-> t, s |-> s, l |-> l, b |-> b, n |-> n]
SharedOps(t) ==
  {E("addarg", t, "", <<>>, FALSE, n) : n \in DOMAIN ArgPool} \cup {E("addopt", t, "", <<>>, FALSE, n) : n \in DOMAIN OptPool}
  \cup {E("setparser", t, s, <<>>, FALSE, 0) : s \in {"p1", None}} \cup {E("lenient", t, "", <<>>, b, 0) : b \in BOOLEAN}
  \cup {E("sethandler", t, s, <<>>, FALSE, 0) : s \in {"h1", "f:h2", None}} \cup {E("setmethod", t, s, <<>>, FALSE, 0) : s \in {"m1", None}}
CmdOps(os, t) ==
  {E(op, t, s, <<>>, FALSE, 0) : op \in {"setname", "sethelp", "settitle", "getsub", "editsub", "hassub"}, s \in Strs}
  \cup {E(op, t, s, <<>>, FALSE, 0) : op \in {"addalias", "setdesc"}, s \in {"x", "y"}}
  \cup {E("addaliases", t, "", <<"x", "y">>, FALSE, 0), E("setaliases", t, "", <<>>, FALSE, 0), E("setaliases", t, "", <<"y">>, FALSE, 0)}
  \cup {E(op, t, "", <<>>, FALSE, 0) : op \in {"enable", "disable", "anonymous", "hassubs"}}
  \cup {E(op, t, "", <<>>, b, 0) : op \in {"hide", "default"}, b \in BOOLEAN}
  \cup {E("setparent", t, "", <<>>, FALSE, p) : p \in {q \in 0..Len(os) : t \notin Ancestors(os, q)}}
  \cup (IF Len(os) < MaxObj THEN {E(op, t, s, <<>>, FALSE, 0) : op \in {"sub", "createsub"}, s \in {"x", "y"}} ELSE {})
  \cup {E("addsub", t, "", <<>>, FALSE, n) : n \in 1..Len(os)}
  \cup {E("build", t, "", <<>>, FALSE, n) : n \in 0..Len(os)}
AppOps(os) ==
  {E("setname", 0, s, <<>>, FALSE, 0) : s \in {None, "my-app", "x_y  z", ""}}
  \cup {E(op, 0, s, <<>>, FALSE, 0) : op \in {"setdisplay", "setversion", "sethelp", "setio", "getcommand", "editcommand", "hascommand"}, s \in Strs}
  \cup {E(op, 0, "", <<>>, b, 0) : op \in {"setcatch", "setterm", "debug"}, b \in BOOLEAN}
  \cup {E("listen", 0, s, <<>>, FALSE, 0) : s \in {"e1", "e2"}}
  \cup {E("addstyle", 0, s, <<>>, FALSE, 0) : s \in {"s1", "s2", None}} \cup {E("removestyle", 0, s, <<>>, FALSE, 0) : s \in {"s1", "s3"}}
  \cup {E("addstyles", 0, "", l, FALSE, 0) : l \in {<<"s2", "s1">>, <<"s3", None, "s1">>}}
  \cup {E("hascommands", 0, "", <<>>, FALSE, 0)}
  \cup (IF Len(os) < MaxObj THEN {E(op, 0, s, <<>>, FALSE, 0) : op \in {"command", "createcommand"}, s \in {"x", "y"}}
                                  \cup {E("new", 0, s, <<>>, b, 0) : s \in {"x", None}, b \in BOOLEAN} ELSE {})
  \cup {E("addcommand", 0, "", <<>>, FALSE, n) : n \in 1..Len(os)}
Menu(a, os) == SharedOps(0) \cup AppOps(os) \cup UNION {SharedOps(t) \cup CmdOps(os, t) : t \in 1..Len(os)}

Init == app = NewApp /\ objs = <<>> /\ last = [e |-> E("init", 0, "", <<>>, FALSE, 0), res |-> NoneR]
Step(e) == LET r == Apply(app, objs, e) IN app' = r.app /\ objs' = r.objs /\ last' = [e |-> e, res |-> r.res]
Next == \E e \in Menu(app, objs) : Step(e)
Spec == Init /\ [][Next]_vars

\* ------------------------------------------------------------------ what TLC checks on the model itself
\* every listed id is an object; parent chains end; effective settings are defined for every object
WellFormed ==
  /\ \A k \in 1..Len(app.cmds) : app.cmds[k] \in 1..Len(objs)
  /\ \A id \in 1..Len(objs) : /\ \A k \in 1..Len(objs[id].subs) : objs[id].subs[k] \in 1..Len(objs)
                             /\ objs[id].parent \in 0..Len(objs)
                             /\ id \notin Ancestors(objs, objs[id].parent)
\* an explicitly set value always wins; without one the answer is a default that depends on the parent chain only
ExplicitWins == \A id \in 1..Len(objs) :
  LET s == ObjSnap(objs, id) IN /\ objs[id].method # None => s.method = objs[id].method
                                /\ objs[id].len # None => s.lenient = (objs[id].len = "T")
\* default() / anonymous(): anonymous implies default; default(b) makes the command named again
AnonymousIsDefault == \A id \in 1..Len(objs) : objs[id].anon = "T" => objs[id].dflt = "T"
\* the arguments / options a configuration lists always form a valid format
ListsValid == /\ AllOK(ArgOK, <<>>, app.args) /\ AllOK(OptOK, <<>>, app.opts)
              /\ \A id \in 1..Len(objs) : AllOK(ArgOK, <<>>, objs[id].args) /\ AllOK(OptOK, <<>>, objs[id].opts)

\* ---- the reading one might expect, which the code does NOT implement (MC_Config_reading.cfg: TLC must find it violated)
\* "a sub-command inherits handler method / leniency from the command that lists it unless it sets its own"
Containers(os, id) == {p \in 1..Len(os) : InSeq(os[p].subs, id)}
ReadingInheritsFromContainer ==
  \A id \in 1..Len(objs) : \A p \in Containers(objs, id) :
     (objs[id].method = None /\ objs[p].method # None /\ objs[id].kind = "plain") => ObjSnap(objs, id).method = objs[p].method
=============================================================================
