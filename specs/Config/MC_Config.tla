----------------------------- MODULE MC_Config -----------------------------
(* Operation sequences on the configuration layer.  With the history variable `hist` every sequence of Depth calls
   (from one of a few prepared configurations, `seed`) is a state; the finished ones are emitted - operations, what each
   returned, what the target's getters answered afterwards, and the complete picture at the end - for replay on the real
   ApplicationConfig / CommandConfig objects.  The same specification serves exhaustive enumeration (small Depth) and
   -simulate (long sequences).                                                                                *)
EXTENDS Config, Json

CONSTANTS Depth, SeedSet
VARIABLES hist, seed
hvars == <<vars, hist, seed>>

MCArgs == <<[name |-> "a1", req |-> TRUE, multi |-> FALSE], [name |-> "a2", req |-> FALSE, multi |-> FALSE],
            [name |-> "a3", req |-> FALSE, multi |-> TRUE]>>
MCOpts == <<[long |-> "o1", short |-> "o"], [long |-> "o2", short |-> "o"], [long |-> "o3", short |-> ""]>>

\* prepared configurations, given as the calls that build them
SeedOps ==
  <<<<>>,
    \* command x (1) with sub-commands y (2) and x (3), 2 linked to its parent; handler method set on 1
    <<E("createcommand", 0, "x", <<>>, FALSE, 0), E("createsub", 1, "y", <<>>, FALSE, 0), E("sub", 1, "x", <<>>, FALSE, 0),
      E("setparent", 2, "", <<>>, FALSE, 1), E("setmethod", 1, "m1", <<>>, FALSE, 0), E("addopt", 1, "", <<>>, FALSE, 1),
      E("addarg", 1, "", <<>>, FALSE, 2)>>,
    \* a detached customised configuration (1), command y (2) listing it and delegating to it
    <<E("new", 0, "x", <<>>, TRUE, 0), E("command", 0, "y", <<>>, FALSE, 0), E("addsub", 2, "", <<>>, FALSE, 1),
      E("setparent", 2, "", <<>>, FALSE, 1), E("addcommand", 0, "", <<>>, FALSE, 1), E("addstyle", 0, "s1", <<>>, FALSE, 0),
      E("setname", 0, "my-app", <<>>, FALSE, 0)>>>>

RECURSIVE Run(_, _, _)
Run(a, os, ops) == IF ops = <<>> THEN [app |-> a, objs |-> os]
                   ELSE LET r == Apply(a, os, Head(ops)) IN Run(r.app, r.objs, Tail(ops))

HInit == \E sd \in SeedSet :
           LET st == Run(NewApp, <<>>, SeedOps[sd])
           IN app = st.app /\ objs = st.objs /\ last = [e |-> E("init", 0, "", <<>>, FALSE, 0), res |-> NoneR]
              /\ hist = <<>> /\ seed = sd
HNext == /\ Len(hist) < Depth
         /\ \E e \in Menu(app, objs) : Step(e) /\ hist' = Append(hist, [e |-> e, res |-> last'.res, snap |-> Snap(app', objs', e.t)])
         /\ UNCHANGED seed
HSpec == HInit /\ [][HNext]_hvars

Emit == Len(hist) = Depth => PrintT(ToJson([seed |-> SeedOps[seed], ops |-> hist, final |-> Full(app, objs)]))
=============================================================================
