SPECIFICATION Spec
CONSTANTS
  MaxLen = 7
  MaxStack = 99
  WS <- MCWS
INVARIANT TypeOK
INVARIANT NoError
INVARIANT UnquotedSplit
INVARIANT Emit
PROPERTY Progress
