SPECIFICATION Spec
CONSTANTS
  MaxToks = 2
  MaxTokLen = 2
  MaxStack = 99
  WS <- MCWS
  TokPool <- CharToks
  Styles <- AllStyles
  Seps <- CharSeps
  Pads <- CharPads
INVARIANT TypeOK
INVARIANT NoError
INVARIANT RoundTrip
INVARIANT Emit
