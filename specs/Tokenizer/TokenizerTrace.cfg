SPECIFICATION TSpec
CONSTANTS
  MaxStack = 99
  WS <- TWS
INVARIANT TypeOK
