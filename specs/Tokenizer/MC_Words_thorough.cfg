SPECIFICATION Spec
CONSTANTS
  MaxToks = 4
  MaxTokLen = 0
  MaxStack = 99
  WS <- MCWS
  TokPool <- WordToks
  Styles <- BareOnly
  Seps <- OneSep
  Pads <- NoPad
INVARIANT TypeOK
INVARIANT NoError
INVARIANT RoundTrip
INVARIANT Emit
