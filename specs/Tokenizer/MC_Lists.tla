------------------------------ MODULE MC_Lists ------------------------------
(* C08 (B): token lists -> quoted command string -> tokens again.
   Two families: character-level tokens (every token up to MaxTokLen over an adversarial alphabet) and
   word-level tokens (command-line-like words: command names, "help", options, "--").              *)
EXTENDS Tokenizer, Json

CONSTANTS MaxToks, MaxTokLen, TokPool, Styles, Seps, Pads
TokAlphabet == {"a", " ", "'", "\"", "\\", "-", "=", "U"}
MCWS == {" ", "\t", "<VT>"}               \* <VT> stands for a vertical tab: whitespace beyond blank and tab
CharToks == UNION { [1..k -> TokAlphabet] : k \in 0..MaxTokLen }
WordToks == { <<"h", "e", "l", "p">>, <<"a">>, <<"a", "a">>, <<"-", "h">>, <<"-", "-">>, <<"x">>,
              <<"-", "-", "o", "p", "t">>, <<"-", "f">>, <<"-">>, <<"#", "x">> }
AllStyles == {"sq", "dq", "no"}
BareOnly == {"no", "dq"}
CharSeps == {<<" ">>, <<"\t">>, <<" ", "<VT>">>}
CharPads == {<<>>, <<" ">>, <<"<VT>">>}
QuickSeps == {<<" ">>, <<"\t", "<VT>">>}
QuickPads == {<<>>, <<"<VT>">>}
OneSep == {<<" ">>}
NoPad == {<<>>}

Init == \E n \in 0..MaxToks :
          \E ts \in [1..n -> TokPool], st \in [1..n -> Styles], sp \in [1..(IF n = 0 THEN 0 ELSE n - 1) -> Seps],
             lead \in Pads, trail \in Pads :
            /\ \A k \in 1..n : Expressible(ts[k], st[k])
            /\ Start(lead \o JoinQ(ts, st, sp, 1) \o trail, ts)
Spec == Init /\ [][Step]_vars

Emit == (done \/ err) =>
  PrintT(ToJson([s |-> s, intent |-> intent, toks |-> toks, err |-> err, opt |-> OptionPrefix(toks)]))
=============================================================================
