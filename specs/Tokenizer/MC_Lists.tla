------------------------------ MODULE MC_Lists ------------------------------
(* C08 (B): token lists -> quoted command string -> tokens again.                                   *)
EXTENDS Tokenizer, Json

CONSTANTS MaxToks, MaxTokLen
TokAlphabet == {"a", " ", "'", "\"", "\\", "-", "=", "U"}
MCWS == {" ", "\t"}
Styles == {"sq", "dq", "no"}
Seps == {<<" ">>, <<"\t">>, <<" ", " ">>}
Pads == {<<>>, <<" ">>}

Toks == UNION { [1..k -> TokAlphabet] : k \in 0..MaxTokLen }

Init == \E n \in 0..MaxToks :
          \E ts \in [1..n -> Toks], st \in [1..n -> Styles], sp \in [1..(IF n = 0 THEN 0 ELSE n - 1) -> Seps],
             lead \in Pads, trail \in Pads :
            /\ \A k \in 1..n : Expressible(ts[k], st[k])
            /\ Start(lead \o JoinQ(ts, st, sp, 1) \o trail, ts)
Spec == Init /\ [][Step]_vars

Emit == (done \/ err) =>
  PrintT(ToJson([s |-> s, intent |-> intent, toks |-> toks, err |-> err, opt |-> OptionPrefix(toks)]))
=============================================================================
