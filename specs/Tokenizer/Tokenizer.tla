------------------------------ MODULE Tokenizer ------------------------------
(* clikit.args.token_parser.TokenParser / StringArgs / ArgvArgs  (property C08)

   A-layer: the scanner of token_parser.py, one action per loop body; the recursion of
            _parse_quoted_string is the explicit `stack`.
   P-layer: NoError (totality), RoundTrip (quoting is inverted), UnquotedSplit, OptionPrefix.

   Characters are 1-character strings, text is a sequence of them (TLC cannot index strings).      *)
EXTENDS Naturals, Sequences, FiniteSets, TLC

CONSTANTS WS,        \* whitespace characters (str.isspace())
          MaxStack   \* bound on quote nesting explored (state constraint only)

Quotes == {"'", "\""}
BS == "\\"
DASHDASH == <<"-", "-">>

VARIABLES s,        \* the command string
          intent,   \* NoIntent, or the token list that s was produced from by quoting
          i,        \* cursor (1-based): current = s[i], next = s[i+1]
          toks,     \* tokens finished so far
          cur,      \* token under construction, or NoTok
          stack,    \* open quoted strings, innermost last: [delim, acc]
          err, done
vars == <<s, intent, i, toks, cur, stack, err, done>>

NoTok == <<"<none>">>
NoIntent == <<<<"<none>">>>>

Valid == i <= Len(s)
Cur == s[i]
HasNext == i + 1 <= Len(s)
Nxt == s[i + 1]

\* _parse_escape_sequence: a backslash before a quote yields the quote; before anything else both
\* characters are kept; a backslash that ends the input is kept as it is (nothing follows to escape).
EscSeq == IF ~HasNext THEN <<BS>> ELSE IF Nxt \in Quotes THEN <<Nxt>> ELSE <<BS, Nxt>>
EscAdv == IF HasNext THEN 2 ELSE 1

\* close the innermost quoted string: its text goes to the enclosing string (re-wrapped in its
\* delimiters) or, at the outermost level, to the token
Close(frames, tk) ==
  LET top == frames[Len(frames)]
      rest == SubSeq(frames, 1, Len(frames) - 1)
  IN IF rest = <<>> THEN <<rest, tk \o top.acc>>
     ELSE LET p == rest[Len(rest)]
              wrapped == <<top.delim>> \o top.acc \o <<top.delim>>
          IN <<[rest EXCEPT ![Len(rest)] = [p EXCEPT !.acc = p.acc \o wrapped]], tk>>

Running == ~done /\ ~err

SkipSpace == /\ Running /\ cur = NoTok /\ Valid /\ Cur \in WS
             /\ i' = i + 1 /\ UNCHANGED <<s, intent, toks, cur, stack, err, done>>

StartToken == /\ Running /\ cur = NoTok /\ Valid /\ Cur \notin WS
              /\ cur' = <<>> /\ UNCHANGED <<s, intent, i, toks, stack, err, done>>

Finish == /\ Running /\ cur = NoTok /\ ~Valid
          /\ done' = TRUE /\ UNCHANGED <<s, intent, i, toks, cur, stack, err>>

\* ---- inside a token, outside quotes (_parse_token)
TokEnd == /\ Running /\ cur # NoTok /\ stack = <<>>
          /\ IF Valid THEN Cur \in WS /\ i' = i + 1 ELSE i' = i
          /\ toks' = Append(toks, cur) /\ cur' = NoTok
          /\ UNCHANGED <<s, intent, stack, err, done>>

TokChar == /\ Running /\ cur # NoTok /\ stack = <<>> /\ Valid
           /\ Cur \notin WS /\ Cur # BS /\ Cur \notin Quotes
           /\ cur' = Append(cur, Cur) /\ i' = i + 1
           /\ UNCHANGED <<s, intent, toks, stack, err, done>>

TokEscape == /\ Running /\ cur # NoTok /\ stack = <<>> /\ Valid /\ Cur = BS
             /\ cur' = cur \o EscSeq /\ i' = i + EscAdv
             /\ UNCHANGED <<s, intent, toks, stack, err, done>>

\* a quote opens a quoted string: in a token always; inside a quoted string when it is the other quote
OpenQuote == /\ Running /\ cur # NoTok /\ Valid /\ Cur \in Quotes
             /\ IF stack = <<>> THEN TRUE ELSE Cur # stack[Len(stack)].delim
             /\ stack' = Append(stack, [delim |-> Cur, acc |-> <<>>]) /\ i' = i + 1
             /\ UNCHANGED <<s, intent, toks, cur, err, done>>

\* ---- inside quotes (_parse_quoted_string); an unterminated string ends with the input
QClose == /\ Running /\ stack # <<>>
          /\ IF Valid THEN Cur = stack[Len(stack)].delim /\ i' = i + 1 ELSE i' = i
          /\ LET r == Close(stack, cur) IN stack' = r[1] /\ cur' = r[2]
          /\ UNCHANGED <<s, intent, toks, err, done>>

QChar == /\ Running /\ stack # <<>> /\ Valid
         /\ Cur \notin Quotes /\ Cur # BS
         /\ stack' = [stack EXCEPT ![Len(stack)].acc = Append(@, Cur)] /\ i' = i + 1
         /\ UNCHANGED <<s, intent, toks, cur, err, done>>

QEscape == /\ Running /\ stack # <<>> /\ Valid /\ Cur = BS
           /\ stack' = [stack EXCEPT ![Len(stack)].acc = @ \o EscSeq] /\ i' = i + EscAdv
           /\ UNCHANGED <<s, intent, toks, cur, err, done>>

Step == SkipSpace \/ StartToken \/ Finish \/ TokEnd \/ TokChar \/ TokEscape
        \/ OpenQuote \/ QClose \/ QChar \/ QEscape

Start(str, want) ==
  /\ s = str /\ intent = want
  /\ i = 1 /\ toks = <<>> /\ cur = NoTok /\ stack = <<>> /\ err = FALSE /\ done = FALSE

\* the same as an action (used by the trace specification to move on to the next recorded call)
Reset(str, want) ==
  /\ s' = str /\ intent' = want
  /\ i' = 1 /\ toks' = <<>> /\ cur' = NoTok /\ stack' = <<>> /\ err' = FALSE /\ done' = FALSE

\* ------------------------------------------------------------------ quoting (the inverse direction)
\* styles: "sq" 'tok', "dq" "tok", "no" tok   -- embedded quotes of either kind are backslash-escaped
RECURSIVE EscQ(_)
EscQ(t) == IF t = <<>> THEN <<>>
           ELSE (IF Head(t) \in Quotes THEN <<BS, Head(t)>> ELSE <<Head(t)>>) \o EscQ(Tail(t))

QuoteTok(t, style) ==
  CASE style = "sq" -> <<"'">> \o EscQ(t) \o <<"'">>
    [] style = "dq" -> <<"\"">> \o EscQ(t) \o <<"\"">>
    [] style = "no" -> EscQ(t)

\* what the scheme can express: a backslash is never followed by a quote character and never ends the
\* token (it cannot itself be escaped); bare style additionally needs a non-empty, whitespace-free token
Expressible(t, style) ==
  /\ \A k \in 1..Len(t) : t[k] = BS => (k < Len(t) /\ t[k + 1] \notin Quotes)
  /\ style = "no" => (t # <<>> /\ \A k \in 1..Len(t) : t[k] \notin WS)

RECURSIVE JoinQ(_, _, _, _)
\* tokens ts quoted by styles st, separated by seps sp[k] (between token k and k+1), from index k
JoinQ(ts, st, sp, k) ==
  IF k > Len(ts) THEN <<>>
  ELSE QuoteTok(ts[k], st[k]) \o (IF k < Len(ts) THEN sp[k] ELSE <<>>) \o JoinQ(ts, st, sp, k + 1)

\* ------------------------------------------------------------------ P-layer
NoError == ~err

\* every step consumes input or closes something: the scan terminates
Measure == 6 * (Len(s) + 1 - i) + 2 * Len(stack)
           + (IF Valid THEN (IF cur = NoTok THEN 1 ELSE 0)
              ELSE IF done THEN 0 ELSE IF cur = NoTok THEN 1 ELSE 2)
Progress == [][Measure' < Measure]_vars

RoundTrip == (done /\ intent # NoIntent) => toks = intent

\* text without quotes or backslashes splits exactly at runs of whitespace
RECURSIVE SplitWS(_, _)
SplitWS(str, acc) ==
  IF str = <<>> THEN (IF acc = <<>> THEN <<>> ELSE <<acc>>)
  ELSE IF Head(str) \in WS THEN (IF acc = <<>> THEN <<>> ELSE <<acc>>) \o SplitWS(Tail(str), <<>>)
  ELSE SplitWS(Tail(str), Append(acc, Head(str)))
Plain(str) == \A k \in 1..Len(str) : str[k] \notin Quotes /\ str[k] # BS
UnquotedSplit == (done /\ Plain(s)) => toks = SplitWS(s, <<>>)

\* option tokens = the tokens before the first "--"
RECURSIVE OptionPrefix(_)
OptionPrefix(ts) == IF ts = <<>> \/ Head(ts) = DASHDASH THEN <<>> ELSE <<Head(ts)>> \o OptionPrefix(Tail(ts))

TypeOK == /\ i \in 1..(Len(s) + 1) /\ done \in BOOLEAN /\ err \in BOOLEAN
          /\ (stack # <<>> => cur # NoTok)
StackBound == Len(stack) <= MaxStack
=============================================================================
