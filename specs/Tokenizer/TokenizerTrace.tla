--------------------------- MODULE TokenizerTrace ---------------------------
(* Recorded calls of the real TokenParser / StringArgs / ArgvArgs checked against Tokenizer.
   event: [s, hasIntent, intent, quoteKnown, styles, seps, lead, trail,           -- input (characters as 1-char strings)
           obs: [kind ("ok"|"exc"), cls, toks, opt, toksAfter],                   -- StringArgs(s).tokens / option_tokens
           hasArgv, argv: [toks, opt], outStr, outArgv]                -- ArgvArgs(["prog"]+intent); parser+resolver outcomes *)
EXTENDS Tokenizer, TraceKit

VARIABLES tid, l
tvars == <<vars, tid, l>>

T == Traces[tid]
Ev == T[l]
IntentOf(e) == IF e.hasIntent THEN e.intent ELSE NoIntent

TInit == /\ tid \in 1..NTraces /\ l = 1
         /\ IF Len(Traces[tid]) >= 1 THEN Start(Traces[tid][1].s, IntentOf(Traces[tid][1]))
            ELSE Start(<<>>, NoIntent)

TStep == l <= Len(T) /\ Step /\ UNCHANGED <<tid, l>>

Clauses(e) ==
  /\ Check(tid, l, "H.quote", "",
           (e.hasIntent /\ e.quoteKnown) => e.s = e.lead \o JoinQ(e.intent, e.styles, e.seps, 1) \o e.trail
                          /\ \A k \in 1..Len(e.intent) : Expressible(e.intent[k], e.styles[k]))
  /\ Check(tid, l, "P.total", e.obs.cls, e.obs.kind = "ok")
  /\ Check(tid, l, "P.roundtrip", "", e.hasIntent => e.obs.toks = e.intent)
  /\ Check(tid, l, "P.unquoted", "", Plain(e.s) => e.obs.toks = SplitWS(e.s, <<>>))
  \* the object keeps its tokens when other command strings are tokenised afterwards
  /\ Check(tid, l, "P.stable", "", e.obs.kind = "ok" => e.obs.toksAfter = e.obs.toks)
  /\ Check(tid, l, "P.optprefix", "", e.obs.opt = OptionPrefix(e.obs.toks))
  /\ Check(tid, l, "P.argv.tokens", "", e.hasArgv => e.argv.toks = e.intent)
  /\ Check(tid, l, "P.argv.optprefix", "", e.hasArgv => e.argv.opt = e.obs.opt)
  /\ Check(tid, l, "P.argv.same_outcome", "", e.hasArgv => e.outStr = e.outArgv)
  /\ Note(tid, l, "A.toks", e.obs.toks = toks)

TCompare ==
  /\ l <= Len(T) /\ (done \/ err)
  /\ Clauses(Ev)
  /\ l' = l + 1 /\ tid' = tid
  /\ IF l + 1 <= Len(T) THEN Reset(T[l + 1].s, IntentOf(T[l + 1])) ELSE UNCHANGED vars

TDone == /\ l = Len(T) + 1 /\ l' = l + 1 /\ tid' = tid /\ UNCHANGED vars /\ Accept(tid)

TNext == TStep \/ TCompare \/ TDone
TSpec == TInit /\ [][TNext]_tvars

TWS == {" ", "\t", "\n", "\r", "\f", "<VT>", "<FS>", "<NEL>", "<NBSP>", "<EMSP>", "<IDSP>"}
=============================================================================
