SPECIFICATION Spec
CONSTANTS
  MaxToks = 3
  MaxTokLen = 0
  MaxStack = 99
  WS <- MCWS
  TokPool <- WordToks
  Styles <- BareOnly
  Seps <- OneSep
  Pads <- NoPad
INVARIANT TypeOK
INVARIANT NoError
INVARIANT RoundTrip
INVARIANT Emit
