SPECIFICATION Spec
CONSTANTS
  MaxToks = 2
  MaxTokLen = 2
  MaxStack = 99
  WS <- MCWS
INVARIANT TypeOK
INVARIANT NoError
INVARIANT RoundTrip
INVARIANT Emit
