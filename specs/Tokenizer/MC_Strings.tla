----------------------------- MODULE MC_Strings -----------------------------
(* C08 (A): every string up to MaxLen over the adversarial alphabet; totality, termination, unquoted split.
   Each finished scan is emitted so the harness can replay it on the real TokenParser.                 *)
EXTENDS Tokenizer, Json

CONSTANT MaxLen
Alphabet == {"a", " ", "\t", "'", "\"", "\\", "-"}
MCWS == {" ", "\t"}

Strings(n) == UNION { [1..k -> Alphabet] : k \in 0..n }
Init == \E str \in Strings(MaxLen) : Start(str, NoIntent)
Spec == Init /\ [][Step]_vars

Emit == (done \/ err) =>
  PrintT(ToJson([s |-> s, toks |-> toks, err |-> err, opt |-> OptionPrefix(toks)]))
=============================================================================
