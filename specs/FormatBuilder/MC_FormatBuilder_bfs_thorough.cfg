SPECIFICATION BSpec
CONSTANTS
  Opts <- MCOpts
  Copts <- MCCopts
  Args <- MCArgs
  Names <- MCNames
  Lists <- MCLists
  ONames <- MCONames
  ANames <- MCANames
  MaxIdx = 3
  MaxBase = 1
  MaxNames = 1
  Depth = 0
INVARIANT Consistent
INVARIANT FlagsCoherent
INVARIANT RejectsOnlyWhenNeeded
PROPERTY RejectLeavesUnchanged
