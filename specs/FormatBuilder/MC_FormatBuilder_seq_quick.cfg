SPECIFICATION HSpec
CONSTANTS
  Opts <- MCOpts
  Copts <- MCCopts
  Args <- MCArgs
  Names <- MCNames
  Lists <- MCLists
  ONames <- MCONames
  ANames <- MCANames
  MaxIdx = 3
  MaxBase = 2
  MaxNames = 2
  Depth = 3
INVARIANT Consistent
INVARIANT FlagsCoherent
INVARIANT Emit
