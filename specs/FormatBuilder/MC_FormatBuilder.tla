-------------------------- MODULE MC_FormatBuilder --------------------------
EXTENDS FormatBuilder, FBPools, Json
CONSTANT Depth
VARIABLE hist
hvars == <<vars, hist>>

HInit == Init /\ hist = <<>>
BSpec == HInit /\ [][Next /\ UNCHANGED hist]_hvars
HNext == Len(hist) < Depth /\ Next /\ hist' = Append(hist, last')
HSpec == HInit /\ [][HNext]_hvars
Emit == Len(hist) = Depth => PrintT(ToJson(hist))
=============================================================================
