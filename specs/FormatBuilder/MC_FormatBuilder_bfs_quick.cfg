SPECIFICATION BSpec
CONSTANTS
  Opts <- QOpts
  Copts <- QCopts
  Args <- QArgs
  Names <- QNames
  Lists <- QLists
  ONames <- MCONames
  ANames <- MCANames
  MaxIdx = 3
  MaxBase = 1
  MaxNames = 1
  Depth = 0
INVARIANT Consistent
INVARIANT FlagsCoherent
INVARIANT RejectsOnlyWhenNeeded
PROPERTY RejectLeavesUnchanged
