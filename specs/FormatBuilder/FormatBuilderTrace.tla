------------------------- MODULE FormatBuilderTrace -------------------------
(* Recorded operation sequences on the real ArgsFormatBuilder / ArgsFormat checked against FormatBuilder.
   event: [op, el, res ("ok"|"reject"), cls, tb, tf, snapThen, snapNow]   tb/tf = [ans, lst] query tables of the builder and of
   builder.format after the operation; snapThen/snapNow = table of the format object obtained before this
   operation, as it answered then and as it answers now.
   The model follows the *observed* decision (an accepted addition is applied even if the model would have
   rejected it), then the P-clauses are evaluated: the elements now listed must form a consistent format and
   every answer must be the one the listed elements imply.                                                *)
EXTENDS FormatBuilder, FBPools, TraceKit

VARIABLES tid, l
tvars == <<vars, tid, l>>
T == Traces[tid]
Ev == T[l]

TInit == tid \in 1..NTraces /\ l = 1 /\ Init
Adv == l' = l + 1 /\ tid' = tid
Is(op) == l <= Len(T) /\ Ev.op = op
Ok == Ev.res = "ok"
PrevTable == IF l = 1 THEN [ans |-> Answers(<<Empty>>), lst |-> Listings(<<Empty>>)] ELSE T[l - 1].tb

\* position queries and the argument listing describe the same order
PositionsAgree(t) == \A i \in 1..(MaxIdx + 1) :
   t.ans.gai[i][1] = (IF i <= Len(t.lst.la[1]) THEN t.lst.la[1][i] ELSE "NoSuch")

After(decision) ==
  /\ Check(tid, l, "P.reject.unchanged", Ev.op, ~Ok => (Ev.tb = PrevTable /\ UNCHANGED <<levels, b>>))
  /\ Check(tid, l, "P.consistent.unique", Ev.op, Unique(Append(levels', b')))
  /\ Check(tid, l, "P.consistent.multi_last", Ev.op, AtMostOneMultiLast(Append(levels', b')))
  /\ Check(tid, l, "P.consistent.required_after_optional", Ev.op, NoRequiredAfterOptional(Append(levels', b')))
  /\ Check(tid, l, "P.consistent.argument_names", Ev.op, UniqueArgs(Append(levels', b')))
  /\ Check(tid, l, "P.answers.builder", Ev.op, Ev.tb.ans = Answers(Append(levels', b')))
  /\ Check(tid, l, "P.answers.format", Ev.op, Ev.tf.ans = Ev.tb.ans)
  /\ Check(tid, l, "P.listing.format_eq_builder", Ev.op, Ev.tf.lst = Ev.tb.lst)
  \* a format obtained earlier is finished: later builder operations must not change what it answers
  /\ Check(tid, l, "P.snapshot.stable", Ev.op, Ev.snapNow = Ev.snapThen)
  /\ Check(tid, l, "P.listing.positions", Ev.op, PositionsAgree(Ev.tb) /\ PositionsAgree(Ev.tf))
  /\ Note(tid, l, "A.decision", Ok = decision)
  /\ Note(tid, l, "A.listings", Ev.tb.lst = Listings(Append(levels', b')))
  /\ last' = [op |-> Ev.op, el |-> Ev.el, res |-> Ev.res]

Apply(newb) == IF Ok THEN b' = newb /\ UNCHANGED levels ELSE UNCHANGED <<levels, b>>

TAddOpt == Is("addopt") /\ Adv /\ Apply(PutOpt(b, Opts[Ev.el])) /\ After(~OptConflict(Chain, Opts[Ev.el]))
TAddCopt == Is("addcopt") /\ Adv /\ Apply(PutCopt(b, Copts[Ev.el])) /\ After(~CoptConflict(Chain, Copts[Ev.el]))
TAddArg == Is("addarg") /\ Adv /\ Apply(PutArg(b, Args[Ev.el])) /\ After(~ArgConflict(Chain, Args[Ev.el]))
TAddName == Is("addname") /\ Adv /\ Apply(PutName(b, Ev.el)) /\ After(TRUE)
TClearOpts == Is("clearopts") /\ Adv /\ Apply([b EXCEPT !.opts = <<>>]) /\ After(TRUE)
TClearCopts == Is("clearcopts") /\ Adv /\ Apply([b EXCEPT !.copts = <<>>]) /\ After(TRUE)
TClearArgs == Is("clearargs") /\ Adv /\ Apply([b EXCEPT !.args = <<>>, !.fMulti = FALSE, !.fOpt = FALSE]) /\ After(TRUE)
TClearNames == Is("clearnames") /\ Adv /\ Apply([b EXCEPT !.names = <<>>]) /\ After(TRUE)
TBuild == /\ Is("build") /\ Adv
          /\ IF Ok THEN levels' = Append(levels, b) /\ b' = Empty ELSE UNCHANGED <<levels, b>>
          /\ After(TRUE)
\* all elements of an accepted list are now listed, whatever the model would have decided
RECURSIVE ForceFold(_, _)
ForceFold(lv, es) ==
  IF es = <<>> THEN lv
  ELSE LET e == Head(es) IN
       ForceFold(CASE e[1] = "o" -> PutOpt(lv, Opts[e[2]]) [] e[1] = "c" -> PutCopt(lv, Copts[e[2]])
                   [] e[1] = "a" -> PutArg(lv, Args[e[2]]) [] e[1] = "n" -> PutName(lv, e[2]), Tail(es))
TConstruct == /\ Is("construct") /\ Adv
              /\ IF Ok THEN levels' = Append(levels, ForceFold(Empty, Lists[Ev.el])) /\ b' = Empty
                 ELSE UNCHANGED <<levels, b>>
              /\ After(Fold(levels, Empty, Lists[Ev.el]) # <<>>)

TDone == /\ l = Len(T) + 1 /\ l' = l + 1 /\ tid' = tid /\ UNCHANGED vars /\ Accept(tid)
TNext == TAddOpt \/ TAddCopt \/ TAddArg \/ TAddName \/ TClearOpts \/ TClearCopts \/ TClearArgs \/ TClearNames
         \/ TBuild \/ TConstruct \/ TDone
TSpec == TInit /\ [][TNext]_tvars
=============================================================================
