---------------------------- MODULE FormatBuilder ----------------------------
(* clikit.api.args.format.{ArgsFormatBuilder, ArgsFormat}, CommandConfig.build_args_format  (property C06)

   A format is a chain of levels (outermost base first); the builder is the last, unfinished level.
   P-layer: the listed elements of every level, the consistency invariants (Unique, AtMostOneMultiLast,
            NoRequiredAfterOptional) and every query answered *from the listed elements*.
   A-layer: the builder's own bookkeeping flags (fMulti/fOpt = _has_multi_valued_arg/_hash_optional_arg)
            and the accept/reject decision of each add_* as the code takes it (through those flags).   *)
EXTENDS Naturals, Sequences, FiniteSets, TLC

CONSTANTS Opts,     \* [id -> [long, short]]                       short = "" when absent
          Copts,    \* [id -> [long, short, lal, sal]]             lal/sal: sequences of alias names
          Args,     \* [id -> [name, req, multi]]
          Names,    \* set of command-name strings
          Lists,    \* [id -> Seq of <<kind, id>>]                 element lists for ArgsFormat(elements, base)
          ONames, ANames, MaxIdx,                                  \* the query pool
          MaxBase, MaxNames

VARIABLES levels,   \* finished levels, outermost first: [names, copts, args, opts, fMulti, fOpt]
          b,        \* the level under construction
          last      \* [op, el, res]
vars == <<levels, b, last>>

Empty == [names |-> <<>>, copts |-> <<>>, args |-> <<>>, opts |-> <<>>, fMulti |-> FALSE, fOpt |-> FALSE]
Chain == Append(levels, b)

\* ------------------------------------------------------------------ P-layer: queries from listed elements
Scope(ch, incl) == IF incl THEN 1..Len(ch) ELSE {Len(ch)}
RECURSIVE CatUp(_, _, _)        \* concatenation of field f over levels 1..n (base first)
CatUp(ch, f, n) == IF n = 0 THEN <<>> ELSE CatUp(ch, f, n - 1) \o ch[n][f]
RECURSIVE CatDown(_, _, _)      \* own level first, then its base, ...
CatDown(ch, f, n) == IF n = 0 THEN <<>> ELSE ch[n][f] \o CatDown(ch, f, n - 1)
Listing(ch, f, incl, baseFirst) ==
  IF ~incl THEN ch[Len(ch)][f] ELSE IF baseFirst THEN CatUp(ch, f, Len(ch)) ELSE CatDown(ch, f, Len(ch))

OptNamed(o, n) == o.long = n \/ (o.short # "" /\ o.short = n)
InSeq(s, x) == \E k \in 1..Len(s) : s[k] = x
CoptNamed(c, n) == c.long = n \/ (c.short # "" /\ c.short = n) \/ InSeq(c.lal, n) \/ InSeq(c.sal, n)

AllOpts(ch, incl) == Listing(ch, "opts", incl, FALSE)
AllCopts(ch, incl) == Listing(ch, "copts", incl, FALSE)
AllArgs(ch, incl) == Listing(ch, "args", incl, TRUE)      \* positional order: base arguments first
AllNames(ch, incl) == Listing(ch, "names", incl, TRUE)

HasOption(ch, n, incl) == \E k \in 1..Len(AllOpts(ch, incl)) : OptNamed(AllOpts(ch, incl)[k], n)
GetOption(ch, n, incl) ==
  LET os == AllOpts(ch, incl) IN
  IF \E k \in 1..Len(os) : OptNamed(os[k], n) THEN os[CHOOSE k \in 1..Len(os) : OptNamed(os[k], n)].long ELSE "NoSuch"
HasCopt(ch, n, incl) == \E k \in 1..Len(AllCopts(ch, incl)) : CoptNamed(AllCopts(ch, incl)[k], n)
GetCopt(ch, n, incl) ==
  LET cs == AllCopts(ch, incl) IN
  IF \E k \in 1..Len(cs) : CoptNamed(cs[k], n) THEN cs[CHOOSE k \in 1..Len(cs) : CoptNamed(cs[k], n)].long ELSE "NoSuch"
HasArgName(ch, n, incl) == \E k \in 1..Len(AllArgs(ch, incl)) : AllArgs(ch, incl)[k].name = n
GetArgName(ch, n, incl) == IF HasArgName(ch, n, incl) THEN n ELSE "NoSuch"
HasArgIdx(ch, i, incl) == i < Len(AllArgs(ch, incl))
GetArgIdx(ch, i, incl) == IF HasArgIdx(ch, i, incl) THEN AllArgs(ch, incl)[i + 1].name ELSE "NoSuch"
HasMulti(ch, incl) == \E k \in 1..Len(AllArgs(ch, incl)) : AllArgs(ch, incl)[k].multi
HasOptional(ch, incl) == \E k \in 1..Len(AllArgs(ch, incl)) : ~AllArgs(ch, incl)[k].req
HasRequired(ch, incl) == \E k \in 1..Len(AllArgs(ch, incl)) : AllArgs(ch, incl)[k].req

Longs(s) == [k \in 1..Len(s) |-> s[k].long]
ArgNames(s) == [k \in 1..Len(s) |-> s[k].name]
\* the answers of every query, with and without the base: "as the listed elements imply"
Answers(ch) ==
  [ho |-> [n \in ONames |-> <<HasOption(ch, n, TRUE), HasOption(ch, n, FALSE)>>],
   go |-> [n \in ONames |-> <<GetOption(ch, n, TRUE), GetOption(ch, n, FALSE)>>],
   hc |-> [n \in ONames |-> <<HasCopt(ch, n, TRUE), HasCopt(ch, n, FALSE)>>],
   gc |-> [n \in ONames |-> <<GetCopt(ch, n, TRUE), GetCopt(ch, n, FALSE)>>],
   ha |-> [n \in ANames |-> <<HasArgName(ch, n, TRUE), HasArgName(ch, n, FALSE)>>],
   ga |-> [n \in ANames |-> <<GetArgName(ch, n, TRUE), GetArgName(ch, n, FALSE)>>],
   hai |-> [i \in 1..(MaxIdx + 1) |-> <<HasArgIdx(ch, i - 1, TRUE), HasArgIdx(ch, i - 1, FALSE)>>],
   gai |-> [i \in 1..(MaxIdx + 1) |-> <<GetArgIdx(ch, i - 1, TRUE), GetArgIdx(ch, i - 1, FALSE)>>],
   multi |-> <<HasMulti(ch, TRUE), HasMulti(ch, FALSE)>>,
   optional |-> <<HasOptional(ch, TRUE), HasOptional(ch, FALSE)>>,
   required |-> <<HasRequired(ch, TRUE), HasRequired(ch, FALSE)>>,
   hasArgs |-> <<AllArgs(ch, TRUE) # <<>>, AllArgs(ch, FALSE) # <<>>>>,
   hasOpts |-> <<AllOpts(ch, TRUE) # <<>>, AllOpts(ch, FALSE) # <<>>>>,
   hasCopts |-> <<AllCopts(ch, TRUE) # <<>>, AllCopts(ch, FALSE) # <<>>>>,
   hasNames |-> <<AllNames(ch, TRUE) # <<>>, AllNames(ch, FALSE) # <<>>>>]
\* listings (A-layer detail: order of options, repetition of aliased command options)
RECURSIVE Rep(_, _)
Rep(x, n) == IF n = 0 THEN <<>> ELSE <<x>> \o Rep(x, n - 1)
RECURSIVE CoptVals(_)
CoptVals(cs) == IF cs = <<>> THEN <<>> ELSE Rep(Head(cs).long, 1 + Len(Head(cs).lal)) \o CoptVals(Tail(cs))
RECURSIVE CoptValsDown(_, _)
CoptValsDown(ch, n) == IF n = 0 THEN <<>> ELSE CoptVals(ch[n].copts) \o CoptValsDown(ch, n - 1)
Listings(ch) ==
  [lo |-> <<Longs(AllOpts(ch, TRUE)), Longs(AllOpts(ch, FALSE))>>,
   la |-> <<ArgNames(AllArgs(ch, TRUE)), ArgNames(AllArgs(ch, FALSE))>>,
   ln |-> <<AllNames(ch, TRUE), AllNames(ch, FALSE)>>,
   lc |-> <<CoptValsDown(ch, Len(ch)), CoptVals(ch[Len(ch)].copts)>>]

\* ------------------------------------------------------------------ P-layer: consistency of a format
Identified(ch, n) ==
  Cardinality({<<lv, k>> \in (1..Len(ch)) \X (1..8) : k <= Len(ch[lv].opts) /\ OptNamed(ch[lv].opts[k], n)})
  + Cardinality({<<lv, k>> \in (1..Len(ch)) \X (1..8) : k <= Len(ch[lv].copts) /\ CoptNamed(ch[lv].copts[k], n)})
Unique(ch) == \A n \in ONames : Identified(ch, n) <= 1
AtMostOneMultiLast(ch) == \A k \in 1..Len(AllArgs(ch, TRUE)) : AllArgs(ch, TRUE)[k].multi => k = Len(AllArgs(ch, TRUE))
NoRequiredAfterOptional(ch) ==
  \A j, k \in 1..Len(AllArgs(ch, TRUE)) : j < k => ~(~AllArgs(ch, TRUE)[j].req /\ AllArgs(ch, TRUE)[k].req)
UniqueArgs(ch) == \A j, k \in 1..Len(AllArgs(ch, TRUE)) : j # k => AllArgs(ch, TRUE)[j].name # AllArgs(ch, TRUE)[k].name
ConsistentChain(ch) == Unique(ch) /\ AtMostOneMultiLast(ch) /\ NoRequiredAfterOptional(ch) /\ UniqueArgs(ch)

\* ------------------------------------------------------------------ A-layer: the decisions as the code takes them
FlagMulti(ch) == \E lv \in 1..Len(ch) : ch[lv].fMulti        \* has_multi_valued_argument() walks the flags
FlagOpt(ch) == \E lv \in 1..Len(ch) : ch[lv].fOpt
OptConflict(ch, o) ==
  \/ HasOption(ch, o.long, TRUE) \/ HasCopt(ch, o.long, TRUE)
  \/ (o.short # "" /\ (HasOption(ch, o.short, TRUE) \/ HasCopt(ch, o.short, TRUE)))
CoptAllNames(c) == {c.long} \cup {c.lal[k] : k \in 1..Len(c.lal)} \cup {c.sal[k] : k \in 1..Len(c.sal)}
                   \cup (IF c.short = "" THEN {} ELSE {c.short})
CoptConflict(ch, c) == \E n \in CoptAllNames(c) : HasOption(ch, n, TRUE) \/ HasCopt(ch, n, TRUE)
ArgConflict(ch, a) == HasArgName(ch, a.name, TRUE) \/ FlagMulti(ch) \/ (a.req /\ FlagOpt(ch))

PutOpt(lv, o) == [lv EXCEPT !.opts = Append(@, o)]
PutCopt(lv, c) == [lv EXCEPT !.copts = Append(@, c)]
PutArg(lv, a) == [lv EXCEPT !.args = Append(@, a), !.fMulti = @ \/ a.multi, !.fOpt = @ \/ ~a.req]
PutName(lv, n) == [lv EXCEPT !.names = Append(@, n)]

Init == levels = <<>> /\ b = Empty /\ last = [op |-> "init", el |-> "", res |-> "ok"]

Done(op, el, ok) == last' = [op |-> op, el |-> el, res |-> IF ok THEN "ok" ELSE "reject"]

AddOption(id) == LET o == Opts[id] IN
  /\ IF OptConflict(Chain, o) THEN UNCHANGED <<levels, b>> /\ Done("addopt", id, FALSE)
     ELSE b' = PutOpt(b, o) /\ UNCHANGED levels /\ Done("addopt", id, TRUE)
AddCopt(id) == LET c == Copts[id] IN
  /\ IF CoptConflict(Chain, c) THEN UNCHANGED <<levels, b>> /\ Done("addcopt", id, FALSE)
     ELSE b' = PutCopt(b, c) /\ UNCHANGED levels /\ Done("addcopt", id, TRUE)
AddArg(id) == LET a == Args[id] IN
  /\ IF ArgConflict(Chain, a) THEN UNCHANGED <<levels, b>> /\ Done("addarg", id, FALSE)
     ELSE b' = PutArg(b, a) /\ UNCHANGED levels /\ Done("addarg", id, TRUE)
AddName(n) == Len(b.names) < MaxNames /\ b' = PutName(b, n) /\ UNCHANGED levels /\ Done("addname", n, TRUE)
\* set_*() = clear (below) followed by ordinary additions
ClearOpts == b' = [b EXCEPT !.opts = <<>>] /\ UNCHANGED levels /\ Done("clearopts", "", TRUE)
ClearCopts == b' = [b EXCEPT !.copts = <<>>] /\ UNCHANGED levels /\ Done("clearcopts", "", TRUE)
ClearArgs == b' = [b EXCEPT !.args = <<>>, !.fMulti = FALSE, !.fOpt = FALSE] /\ UNCHANGED levels /\ Done("clearargs", "", TRUE)
ClearNames == b' = [b EXCEPT !.names = <<>>] /\ UNCHANGED levels /\ Done("clearnames", "", TRUE)
\* builder.format becomes the base of a new builder
Build == /\ Len(levels) < MaxBase
         /\ levels' = Append(levels, b) /\ b' = Empty /\ Done("build", "", TRUE)

\* ArgsFormat(elements, base): the elements go through a builder stacked on the base
RECURSIVE Fold(_, _, _)
Fold(base, lv, es) ==     \* returns the level, or Empty-with-flag "bad" encoded as <<>> on rejection
  IF es = <<>> THEN lv
  ELSE IF lv = <<>> THEN <<>>
  ELSE LET e == Head(es)
           ch == Append(base, lv)
           nxt == CASE e[1] = "o" -> IF OptConflict(ch, Opts[e[2]]) THEN <<>> ELSE PutOpt(lv, Opts[e[2]])
                    [] e[1] = "c" -> IF CoptConflict(ch, Copts[e[2]]) THEN <<>> ELSE PutCopt(lv, Copts[e[2]])
                    [] e[1] = "a" -> IF ArgConflict(ch, Args[e[2]]) THEN <<>> ELSE PutArg(lv, Args[e[2]])
                    [] e[1] = "n" -> PutName(lv, e[2])
       IN Fold(base, nxt, Tail(es))
Construct(id) ==
  /\ Len(levels) < MaxBase
  /\ LET r == Fold(levels, Empty, Lists[id]) IN
     IF r = <<>> THEN UNCHANGED <<levels, b>> /\ Done("construct", id, FALSE)
     ELSE levels' = Append(levels, r) /\ b' = Empty /\ Done("construct", id, TRUE)

Next == \/ \E id \in DOMAIN Opts : AddOption(id)
        \/ \E id \in DOMAIN Copts : AddCopt(id)
        \/ \E id \in DOMAIN Args : AddArg(id)
        \/ \E n \in Names : AddName(n)
        \/ ClearOpts \/ ClearCopts \/ ClearArgs \/ ClearNames
        \/ Build
        \/ \E id \in DOMAIN Lists : Construct(id)
Spec == Init /\ [][Next]_vars

\* ------------------------------------------------------------------ A => P
Consistent == ConsistentChain(Chain)
FlagsCoherent == \A lv \in 1..Len(Chain) :
   /\ Chain[lv].fMulti = (\E k \in 1..Len(Chain[lv].args) : Chain[lv].args[k].multi)
   /\ Chain[lv].fOpt = (\E k \in 1..Len(Chain[lv].args) : ~Chain[lv].args[k].req)
RejectLeavesUnchanged == [][last'.res = "reject" => UNCHANGED <<levels, b>>]_vars
\* the code never rejects an addition that would have kept the format consistent (not demanded by the property)
RejectsOnlyWhenNeeded ==
  (last.res = "reject" /\ last.op = "addopt") => ~ConsistentChain(Append(levels, PutOpt(b, Opts[last.el])))
=============================================================================
