------------------------------ MODULE FBPools ------------------------------
(* The colliding element pools shared by the model-checking and the trace configurations (and mirrored by
   harness/props/c06.py, which builds the real objects from the same ids). *)
MCOpts == [o1 |-> [long |-> "aa", short |-> "a"], o2 |-> [long |-> "aa", short |-> ""],
           o3 |-> [long |-> "bb", short |-> "b"], o4 |-> [long |-> "bb", short |-> "a"]]
MCCopts == [c1 |-> [long |-> "cc", short |-> "c", lal |-> <<"bb">>, sal |-> <<>>],
            c2 |-> [long |-> "dd", short |-> "a", lal |-> <<>>, sal |-> <<"b">>],
            c3 |-> [long |-> "aa", short |-> "", lal |-> <<>>, sal |-> <<>>]]
MCArgs == [xr |-> [name |-> "x", req |-> TRUE, multi |-> FALSE], xo |-> [name |-> "x", req |-> FALSE, multi |-> FALSE],
           yr |-> [name |-> "y", req |-> TRUE, multi |-> FALSE], yo |-> [name |-> "y", req |-> FALSE, multi |-> FALSE],
           zm |-> [name |-> "z", req |-> FALSE, multi |-> TRUE], zrm |-> [name |-> "z", req |-> TRUE, multi |-> TRUE]]
MCNames == {"n1", "n2"}
MCLists == [l1 |-> <<<<"a", "xr">>>>, l2 |-> <<<<"a", "xo">>, <<"o", "o1">>>>, l3 |-> <<<<"o", "o3">>, <<"c", "c3">>>>,
            l4 |-> <<<<"a", "yo">>, <<"a", "zm">>>>, l5 |-> <<<<"n", "n1">>, <<"c", "c2">>>>]
\* reduced pools for the quick state-space run
QOpts == [o1 |-> MCOpts.o1, o3 |-> MCOpts.o3, o4 |-> MCOpts.o4]
QCopts == [c1 |-> MCCopts.c1, c2 |-> MCCopts.c2]
QArgs == [xr |-> MCArgs.xr, yo |-> MCArgs.yo, yr |-> MCArgs.yr, zm |-> MCArgs.zm]
QLists == [l1 |-> MCLists.l1, l4 |-> MCLists.l4]
QNames == {"n1"}
MCONames == {"aa", "bb", "cc", "dd", "a", "b", "c"}
MCANames == {"x", "y", "z"}

=============================================================================
