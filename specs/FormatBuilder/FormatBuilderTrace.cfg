SPECIFICATION TSpec
CONSTANTS
  Opts <- MCOpts
  Copts <- MCCopts
  Args <- MCArgs
  Names <- MCNames
  Lists <- MCLists
  ONames <- MCONames
  ANames <- MCANames
  MaxIdx = 3
  MaxBase = 99
  MaxNames = 99
