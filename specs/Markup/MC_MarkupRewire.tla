-------------------------- MODULE MC_MarkupRewire --------------------------
(* C11 (a), an output that is reconfigured: ONE Output built from (formatter kind, stream with / without ANSI support),
   then set_formatter / set_stream any number of times; after every step the message <ta>1</ta>2 is written.
   P-layer: the rendering is the one of a fresh Output built from the pair now in place: decorated iff
            PDecorated(fk, sa) - in particular an output that was decorated once and is now undecorated emits no
            escape byte.
   A-layer: Output._format_output as output.py computes it - constructor: stream supports ANSI and the formatter does
            not disable it, or the formatter forces it; set_stream / set_formatter: the formatter forces it, or the
            stream supports it - and Output.write choosing format() / remove_format() by that flag (a plain
            formatter's format() emits no escape either).
   Every operation sequence of length Depth is emitted and replayed on one real Output / BufferedIO.                *)
EXTENDS Markup, Json

CONSTANT Depth
VARIABLES fk, sa,    \* the formatter kind and the stream's ANSI support now in place
          fo,        \* A: Output._format_output
          hist, phase, cop
rvars == <<vars, fk, sa, fo, hist, phase, cop>>

FKinds == {"plain", "ansi", "forced"}
TagA == [named |-> TRUE, name |-> "ta", sup |-> "set", fg |-> "green", bg |-> NoColour, at |-> <<"bold">>]
Msg == <<[k |-> "open", tag |-> TagA], [k |-> "t", c |-> "1"], [k |-> "close", tag |-> TagA], [k |-> "t", c |-> "2"]>>
\* Output.write: format() when the flag is set, remove_format() otherwise; only an ANSI formatter's format() decorates
Escapes(flag, k) == flag /\ k # "plain"

RInit == /\ fk \in FKinds /\ sa \in BOOLEAN
         /\ fo = ((sa /\ fk # "plain") \/ fk = "forced")                 \* Output.__init__
         /\ Start(Msg, <<>>, Escapes((sa /\ fk # "plain") \/ fk = "forced", fk))
         /\ hist = <<>> /\ phase = "run" /\ cop = [op |-> "new"]

SetFormatter(k) == /\ phase = "idle" /\ Len(hist) < Depth
                   /\ fk' = k /\ fo' = (k = "forced" \/ sa)
                   /\ Reset(Msg, <<>>, Escapes(k = "forced" \/ sa, k))
                   /\ phase' = "run" /\ cop' = [op |-> "set_formatter"]
                   /\ UNCHANGED <<sa, hist>>
SetStream(a) == /\ phase = "idle" /\ Len(hist) < Depth
                /\ sa' = a /\ fo' = (fk = "forced" \/ a)
                /\ Reset(Msg, <<>>, Escapes(fk = "forced" \/ a, fk))
                /\ phase' = "run" /\ cop' = [op |-> "set_stream"]
                /\ UNCHANGED <<fk, hist>>
Run == phase = "run" /\ ~done /\ Step /\ UNCHANGED <<fk, sa, fo, hist, phase, cop>>
Written == /\ phase = "run" /\ done
           /\ hist' = Append(hist, [op |-> cop.op, fk |-> fk, sa |-> sa, out |-> out])
           /\ phase' = "idle"
           /\ UNCHANGED <<vars, fk, sa, fo, cop>>
RNext == (\E k \in FKinds : SetFormatter(k)) \/ (\E a \in BOOLEAN : SetStream(a)) \/ Run \/ Written
RSpec == RInit /\ [][RNext]_rvars

\* the property: what is written is what a fresh output on the pair now in place writes
RewireRight == (phase = "run" /\ done) => col = PDecorated(fk, sa)
EmitRewire == (phase = "idle" /\ Len(hist) = Depth) => PrintT(ToJson([ops |-> hist]))
=============================================================================
