SPECIFICATION TSpec
CONSTANTS
  Repaired = TRUE
