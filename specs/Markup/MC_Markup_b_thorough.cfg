SPECIFICATION SpecB
CONSTANTS
  Repaired = TRUE
  MaxLen = 0
  TextChars <- QuickChars
  Colours <- AllColours
  AttrSets <- AllAttrSets
INVARIANT TextSame
INVARIANT CodesRight
INVARIANT ResetAtEnd
INVARIANT FirstCharCodes
INVARIANT NoError
INVARIANT AllKnown
INVARIANT StackRestored
INVARIANT EmitB
