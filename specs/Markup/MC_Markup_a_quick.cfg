SPECIFICATION SpecA
CONSTANTS
  Repaired = TRUE
  MaxLen = 4
  TextChars <- QuickChars
  Colours <- FewColours
  AttrSets <- FewAttrSets
INVARIANT TextSame
INVARIANT PlainClean
INVARIANT CodesRight
INVARIANT ResetAtEnd
INVARIANT NoError
INVARIANT AllKnown
INVARIANT StackRestored
INVARIANT EmitA
