SPECIFICATION HSpec
CONSTANTS
  Repaired = TRUE
  Depth = 5
  FgChoices <- MoreFg
  BgChoices <- FewBg
  AttrChoices <- FewAttrs
INVARIANT TextSame
INVARIANT PlainClean
INVARIANT CodesRight
INVARIANT ResetAtEnd
INVARIANT NoError
INVARIANT AllKnown
INVARIANT EmitHist
