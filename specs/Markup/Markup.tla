------------------------------- MODULE Markup -------------------------------
(* clikit.formatter.AnsiFormatter / PlainFormatter (+ adapter.StyleConverter, api.formatter.Style) on top of the
   pastel tag engine   (property C11, parts a and b)

   A message is a sequence of segments
      [k |-> "t",   c |-> ch]        one text character ("<" and ">" included: plain when they form no tag)
      [k |-> "esc"]                  the escape \< for a plain "<"
      [k |-> "open",  tag |-> T]     <name> of a registered style, or an inline style <fg=..;bg=..;options=..>
      [k |-> "close", tag |-> T]     </name>, </fg=..>           [k |-> "closeany"]   </>
      [k |-> "unk", lit |-> chars]   a tag of no registered style, e.g. <foo>, </foo>: literal text
   A tag T is [named, name, sup, fg, bg, at]  (colour names or "none"; at: attribute names in the order they are given;
   named = TRUE: a style object registered under `name` or passed for the call, FALSE: an inline style;
   sup: how a registered style is supplied - "set" in the style set the formatter is constructed with, "added" by
   add_style() after construction; "" otherwise).  For the P-layer a style is registered however it was supplied.

   P-layer: TextOf (the tag-stripped text), Sgr (the SGR codes of a style, as a set), PRender (every character of
            TextOf with the code set of the innermost open style) - recursive definitions over the segments.
   A-layer: the tag loop of pastel.Pastel.colorize as AnsiFormatter/PlainFormatter drive it: a style stack, text
            between tags emitted run by run ("ESC[codes m" run "ESC[0m" when the top style has codes), the run after
            the last tag split before its last character, codes in the order fg, bg, options-as-converted, unknown
            tags as runs of their own, the final replacement of \< ; one action per segment.  The engine's registry
            `reg` holds the style-set names after construction; one AddStyle action per style supplied later; a named
            tag the engine does not know is literal text (token "<?>" - never produced while every way of supplying
            a style reaches the engine that renders AND the one that strips).
            Repaired = TRUE: format(msg, style=S) hands the tag engine the message wrapped in the inline tag of S
            (proposed_fixes/C11-format-style-untagged.diff); FALSE: the pinned tree - S is pushed on the engine's style
            stack, which the engine ignores for a message without any tag (TLC: CodesRight violated by the message "1").
   Output tokens: [k |-> "c", c |-> ch, codes |-> <<>>]  and  [k |-> "sgr", c |-> "", codes |-> <<n, ...>>].      *)
EXTENDS Integers, Sequences, FiniteSets, TLC

CONSTANT Repaired

VARIABLES msg,      \* the message (segments)
          base,     \* styles in force for the whole call: <<>> or <<S>> for format(msg, style=S)
          amsg,     \* A: what the tag engine is given (msg, or msg inside the inline tag of S)
          col,      \* colorized (ANSI formatter) or not (plain formatter / remove_format)
          j,        \* next segment
          stack,    \* A: open styles, innermost last
          run,      \* A: text characters since the last tag
          ntags,    \* A: tags seen so far
          reg,      \* A: names registered on the tag engine
          pend,     \* A: styles still to be supplied through add_style()
          out,      \* tokens produced
          err, done
vars == <<msg, base, amsg, col, j, stack, run, ntags, reg, pend, out, err, done>>

BS == "\\"
NoColour == "none"
\* ------------------------------------------------------------------ P-layer: the SGR table
FgCode(c) == CASE c = "black" -> 30 [] c = "red" -> 31 [] c = "green" -> 32 [] c = "yellow" -> 33 [] c = "blue" -> 34
               [] c = "magenta" -> 35 [] c = "cyan" -> 36 [] c = "light_gray" -> 37 [] c = "default" -> 39
               [] c = "dark_gray" -> 90 [] c = "light_red" -> 91 [] c = "light_green" -> 92 [] c = "light_yellow" -> 93
               [] c = "light_blue" -> 94 [] c = "light_magenta" -> 95 [] c = "light_cyan" -> 96 [] c = "white" -> 97
BgCode(c) == FgCode(c) + 10
AttrCode(a) == CASE a = "bold" -> 1 [] a = "dark" -> 2 [] a = "italic" -> 3 [] a = "underline" -> 4 [] a = "blink" -> 5
                 [] a = "reverse" -> 7 [] a = "conceal" -> 8
Attrs == {"bold", "dark", "italic", "underline", "blink", "reverse", "conceal"}
SetOf(seq) == {seq[k] : k \in DOMAIN seq}
Sgr(s) == (IF s.fg = NoColour THEN {} ELSE {FgCode(s.fg)}) \cup (IF s.bg = NoColour THEN {} ELSE {BgCode(s.bg)})
          \cup {AttrCode(a) : a \in SetOf(s.at)}
NoStyle == [named |-> FALSE, name |-> "", sup |-> "", fg |-> NoColour, bg |-> NoColour, at |-> <<>>]

\* ------------------------------------------------------------------ P-layer: when an output is decorated
\* formatter kinds: "plain" (disables ANSI), "ansi" (uses it where the stream supports it), "forced" (forces it).
\* An output renders decorated iff its formatter forces ANSI, or uses it and the stream supports it - whether the pair
\* (stream, formatter) was given to the constructor or put in place later by set_stream / set_formatter.
PDecorated(fk, sa) == fk = "forced" \/ (fk = "ansi" /\ sa)

\* ------------------------------------------------------------------ P-layer: text and rendering
IsTag(g) == g.k \in {"open", "close", "closeany", "unk"}
Lit(g) == CASE g.k = "t" -> <<g.c>> [] g.k = "esc" -> <<"<">> [] g.k = "unk" -> g.lit [] OTHER -> <<>>
RECURSIVE TextOf(_)
TextOf(m) == IF m = <<>> THEN <<>> ELSE Lit(Head(m)) \o TextOf(Tail(m))

\* balanced: every close names the innermost open style, </> closes the innermost one, nothing stays open
RECURSIVE BalancedFrom(_, _)
BalancedFrom(m, open) ==
  IF m = <<>> THEN open = <<>>
  ELSE LET g == Head(m) IN
       CASE g.k = "open" -> BalancedFrom(Tail(m), Append(open, g.tag))
         [] g.k = "close" -> open # <<>> /\ open[Len(open)] = g.tag /\ BalancedFrom(Tail(m), SubSeq(open, 1, Len(open) - 1))
         [] g.k = "closeany" -> open # <<>> /\ BalancedFrom(Tail(m), SubSeq(open, 1, Len(open) - 1))
         [] OTHER -> BalancedFrom(Tail(m), open)
Balanced(m) == BalancedFrom(m, <<>>)

Top(st) == IF st = <<>> THEN NoStyle ELSE st[Len(st)]
Styled(chars, s) == [k \in 1..Len(chars) |-> [c |-> chars[k], codes |-> Sgr(s)]]
\* every character of the text with the codes of the innermost open style (for balanced messages)
RECURSIVE PRender(_, _)
PRender(m, st) ==
  IF m = <<>> THEN <<>>
  ELSE LET g == Head(m) IN
       CASE g.k = "open" -> PRender(Tail(m), Append(st, g.tag))
         [] g.k \in {"close", "closeany"} -> PRender(Tail(m), IF st = <<>> THEN st ELSE SubSeq(st, 1, Len(st) - 1))
         [] OTHER -> Styled(Lit(g), Top(st)) \o PRender(Tail(m), st)

\* what a terminal makes of a token stream: every character with the set of SGR codes switched on when it is printed
RECURSIVE ApplyCodes(_, _)
ApplyCodes(cur, codes) == IF codes = <<>> THEN cur
                          ELSE ApplyCodes(IF Head(codes) = 0 THEN {} ELSE cur \cup {Head(codes)}, Tail(codes))
\* (written without recursion over the token stream: renderings of several hundred tokens occur)
Indices(toks, keep(_)) == SelectSeq([i \in 1..Len(toks) |-> i], keep)
SgrCodesBefore(toks, i) ==     \* the codes of all SGR tokens before position i, in order
  LET sg == SelectSeq(SubSeq(toks, 1, i - 1), LAMBDA t : t.k = "sgr")
      RECURSIVE Cat(_)
      Cat(q) == IF q = <<>> THEN <<>> ELSE Head(q).codes \o Cat(Tail(q))
  IN Cat(sg)
Fold(toks, cur) ==
  LET idx == Indices(toks, LAMBDA i : toks[i].k # "sgr")
  IN [k \in 1..Len(idx) |-> [c |-> toks[idx[k]].c, codes |-> ApplyCodes(cur, SgrCodesBefore(toks, idx[k]))]]
FinalCodes(toks, cur) == ApplyCodes(cur, SgrCodesBefore(toks, Len(toks) + 1))
Strip(toks) == LET cs == SelectSeq(toks, LAMBDA t : t.k # "sgr") IN [k \in 1..Len(cs) |-> cs[k].c]
Plainly(toks) == \A k \in 1..Len(toks) : toks[k].k = "c"      \* no escape sequence at all

\* ------------------------------------------------------------------ A-layer
\* StyleConverter.convert lists the options in this order; pastel emits fg, bg, then the options as listed
ConvOrder == <<"bold", "italic", "dark", "underline", "blink", "reverse", "conceal">>
\* options of a tag as pastel holds them: given order, duplicates dropped (an OrderedDict keyed by code)
RECURSIVE Dedup(_, _)
Dedup(seq, seen) == IF seq = <<>> THEN <<>>
                    ELSE IF Head(seq) \in seen THEN Dedup(Tail(seq), seen) ELSE <<Head(seq)>> \o Dedup(Tail(seq), seen \cup {Head(seq)})
\* a registered / passed style went through StyleConverter (named = TRUE); an inline tag keeps the order it was written in
Options(s) == IF s.named THEN SelectSeq(ConvOrder, LAMBDA a : a \in SetOf(s.at)) ELSE Dedup(s.at, {})
Codes(s) == (IF s.fg = NoColour THEN <<>> ELSE <<FgCode(s.fg)>>) \o (IF s.bg = NoColour THEN <<>> ELSE <<BgCode(s.bg)>>)
            \o LET o == Options(s) IN [k \in 1..Len(o) |-> AttrCode(o[k])]
\* pastel.Style.__eq__: same codes
SameStyle(a, b) == a.fg = b.fg /\ a.bg = b.bg /\ Codes(a) = Codes(b)

Ch(c) == [k |-> "c", c |-> c, codes |-> <<>>]
SgrTok(codes) == [k |-> "sgr", c |-> "", codes |-> codes]
Chars(cs) == [k \in 1..Len(cs) |-> Ch(cs[k])]
\* _apply_current_style
Apply(cs, st) == IF cs = <<>> THEN <<>>
                 ELSE IF col /\ Codes(Top(st)) # <<>> THEN <<SgrTok(Codes(Top(st)))>> \o Chars(cs) \o <<SgrTok(<<0>>)>>
                 ELSE Chars(cs)
RawOf(g) == CASE g.k = "t" -> <<g.c>> [] g.k = "esc" -> <<BS, "<">> [] OTHER -> <<>>
\* output.replace("\\<", "<"): a backslash token directly followed by a "<" token disappears
Unescape(toks) ==
  LET n == Len(toks)
      dropped(i) == toks[i].k = "c" /\ toks[i].c = BS /\ i < n /\ toks[i + 1].k = "c" /\ toks[i + 1].c = "<"
      idx == Indices(toks, LAMBDA i : ~dropped(i))
  IN [k \in 1..Len(idx) |-> toks[idx[k]]]

\* pop(style): cut the stack below the innermost equal style; none: "Incorrectly nested style tag found."
MatchIdx(st, s) == {k \in DOMAIN st : SameStyle(st[k], s)}
Max(S) == CHOOSE x \in S : \A y \in S : y <= x

\* AnsiFormatter.format(msg, style=S), repaired: "<fg=..;bg=..;options=..>" + msg + "</fg=..;bg=..;options=..>" (options in
\* the converter's order); a style without any code gives no tag.  The plain formatter ignores S.
InlineOf(s) == [named |-> FALSE, name |-> "", sup |-> "", fg |-> s.fg, bg |-> s.bg, at |-> Options(s)]
\* the registered styles a message uses, by the way they are supplied
NamedTags(m) == {m[k].tag : k \in {i \in DOMAIN m : m[i].k \in {"open", "close"} /\ m[i].tag.named}}
SetNames(m) == {t.name : t \in {x \in NamedTags(m) : x.sup # "added"}}
LaterTags(m) == {x \in NamedTags(m) : x.sup = "added"}
Given(m, b, c) == IF Repaired /\ c /\ b # <<>> /\ Codes(b[1]) # <<>>
                  THEN <<[k |-> "open", tag |-> InlineOf(b[1])]>> \o m \o <<[k |-> "close", tag |-> InlineOf(b[1])]>>
                  ELSE m
Stack0(b, c) == IF Repaired \/ ~c THEN <<>> ELSE b
Start(m, b, c) == /\ msg = m /\ base = b /\ amsg = Given(m, b, c) /\ col = c /\ j = 1 /\ stack = Stack0(b, c) /\ run = <<>>
                  /\ ntags = 0 /\ reg = SetNames(m) /\ pend = LaterTags(m) /\ out = <<>> /\ err = FALSE /\ done = FALSE

\* the same as an action (the trace specification moves on to the next recorded call)
Reset(m, b, c) == /\ msg' = m /\ base' = b /\ amsg' = Given(m, b, c) /\ col' = c /\ j' = 1 /\ stack' = Stack0(b, c)
                  /\ run' = <<>> /\ ntags' = 0 /\ reg' = SetNames(m) /\ pend' = LaterTags(m)
                  /\ out' = <<>> /\ err' = FALSE /\ done' = FALSE

\* formatter.add_style(S): registered on the engine (the one engine renders and, with colours off, strips)
AddStyle == /\ ~done /\ pend # {}
            /\ LET t == CHOOSE x \in pend : TRUE IN reg' = reg \cup {t.name} /\ pend' = pend \ {t}
            /\ UNCHANGED <<msg, base, amsg, col, j, stack, run, ntags, out, err, done>>

Known(g) == ~g.tag.named \/ g.tag.name \in reg
Running == ~done /\ ~err /\ pend = {} /\ j <= Len(amsg)
TextSeg == /\ Running /\ ~IsTag(amsg[j])
           /\ run' = run \o RawOf(amsg[j]) /\ j' = j + 1
           /\ UNCHANGED <<msg, base, amsg, col, stack, ntags, reg, pend, out, err, done>>

\* a tag: the text before it goes out under the style in force, then the tag acts
TagSeg == /\ Running /\ IsTag(amsg[j])
          /\ LET g == amsg[j]
                 flushed == out \o Apply(run, stack)
             IN CASE g.k \in {"open", "close"} /\ ~Known(g) ->
                       stack' = stack /\ out' = flushed \o Apply(<<"<?>">>, stack) /\ err' = FALSE
                  [] g.k = "open" /\ Known(g) -> stack' = Append(stack, g.tag) /\ out' = flushed /\ err' = FALSE
                  [] g.k = "closeany" -> /\ stack' = IF stack = <<>> THEN stack ELSE SubSeq(stack, 1, Len(stack) - 1)
                                         /\ out' = flushed /\ err' = FALSE
                  [] g.k = "close" /\ Known(g) -> IF stack = <<>> THEN stack' = stack /\ out' = flushed /\ err' = FALSE
                                      ELSE IF MatchIdx(stack, g.tag) = {} THEN stack' = stack /\ out' = flushed /\ err' = TRUE
                                      ELSE /\ stack' = SubSeq(stack, 1, Max(MatchIdx(stack, g.tag)) - 1)
                                           /\ out' = flushed /\ err' = FALSE
                  [] g.k = "unk" -> stack' = stack /\ out' = flushed \o Apply(g.lit, stack) /\ err' = FALSE
          /\ run' = <<>> /\ ntags' = ntags + 1 /\ j' = j + 1
          /\ UNCHANGED <<msg, base, amsg, col, reg, pend, done>>

\* end of the message: the last run (split before its last character when a tag preceded it), then the \< replacement
Finish == /\ ~done /\ ~err /\ pend = {} /\ j > Len(amsg)
          /\ LET n == Len(run)
                 tail == IF ntags = 0 THEN Chars(run)      \* no tag at all: returned as it is, whatever the stack holds
                         ELSE IF n = 0 THEN <<>>
                         ELSE Apply(SubSeq(run, 1, n - 1), stack) \o Apply(SubSeq(run, n, n), stack)
             IN out' = Unescape(out \o tail)
          /\ done' = TRUE /\ run' = <<>>
          /\ UNCHANGED <<msg, base, amsg, col, j, stack, ntags, reg, pend, err>>

Step == AddStyle \/ TextSeg \/ TagSeg \/ Finish

\* ------------------------------------------------------------------ the property (on finished renderings of balanced messages)
Claimed == done /\ Balanced(msg)
TextSame == Claimed => Strip(out) = TextOf(msg)                           \* decorated-stripped = plain = tag-stripped text
PlainClean == (Claimed /\ ~col) => Plainly(out)                            \* an undecorated rendering has no escape byte
CodesRight == (Claimed /\ col) => Fold(out, {}) = PRender(msg, base)      \* every character under exactly its style's codes
ResetAtEnd == (Claimed /\ col) => FinalCodes(out, {}) = {}                 \* nothing stays switched on
NoError == Balanced(msg) => ~err
\* however a style was supplied, the engine knows it when the message is rendered
AllKnown == done => \A t \in NamedTags(msg) : t.name \in reg
StackRestored == Claimed => stack = Stack0(base, col)
=============================================================================
