SPECIFICATION HSpec
CONSTANTS
  Repaired = TRUE
  Depth = 4
  FgChoices <- FewFg
  BgChoices <- FewBg
  AttrChoices <- FewAttrs
INVARIANT TextSame
INVARIANT PlainClean
INVARIANT CodesRight
INVARIANT ResetAtEnd
INVARIANT NoError
INVARIANT AllKnown
INVARIANT EmitHist
