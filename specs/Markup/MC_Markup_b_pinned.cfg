SPECIFICATION SpecB
CONSTANTS
  Repaired = FALSE
  MaxLen = 0
  TextChars <- QuickChars
  Colours <- FewColours
  AttrSets <- FewAttrSets
INVARIANT TextSame
INVARIANT CodesRight
INVARIANT ResetAtEnd
INVARIANT FirstCharCodes
INVARIANT NoError
INVARIANT AllKnown
INVARIANT StackRestored
INVARIANT EmitB
