----------------------------- MODULE MC_Markup -----------------------------
(* (a) every balanced message up to MaxLen segments over an alphabet of text characters, the escape, three styles
       (two registered, one inline), their closing tags, </> and an unknown tag pair - built segment by segment
       (phase "build"), then rendered by the tag machine with and without colours (phase "run"); every finished
       rendering is emitted for replay on the real formatters.
   (b) every style of a family (colours x colours x attribute sets) supplied in three ways.                         *)
EXTENDS Markup, Json

CONSTANTS MaxLen, TextChars, Colours, AttrSets

VARIABLES phase,   \* "build" | "run"
          open,    \* build: styles still open
          way      \* (b): 1 registered in the style set, 2 add_style later, 3 passed for the call;  (a): 0
mvars == <<vars, phase, open, way>>

T(named, name, sup, fg, bg, at) == [named |-> named, name |-> name, sup |-> sup, fg |-> fg, bg |-> bg, at |-> at]
\* ta is in the style set the formatter is built with, tb is supplied by add_style() afterwards, the third is inline
TagA == T(TRUE, "ta", "set", "green", NoColour, <<>>)
TagB == T(TRUE, "tb", "added", NoColour, "blue", <<"bold", "underline">>)
TagI == T(FALSE, "", "", "red", NoColour, <<"underline", "bold">>)
Tags == {TagA, TagB, TagI}
UnkOpen == [k |-> "unk", lit |-> <<"<", "f", "o", "o", ">">>]
UnkClose == [k |-> "unk", lit |-> <<"<", "/", "f", "o", "o", ">">>]
QuickChars == {"1", "<", "\n"}
FullChars == {"1", " ", "U", "<", ">", "\n"}

Idle == /\ msg = <<>> /\ base = <<>> /\ amsg = <<>> /\ col = FALSE /\ j = 1 /\ stack = <<>> /\ run = <<>> /\ ntags = 0
        /\ reg = {} /\ pend = {}
        /\ out = <<>> /\ err = FALSE /\ done = FALSE

\* ---------------------------------------------------------------- (a)
InitA == Idle /\ phase = "build" /\ open = <<>> /\ way = 0
Segs == {[k |-> "t", c |-> c] : c \in TextChars} \cup {[k |-> "esc"], UnkOpen, UnkClose}
        \cup {[k |-> "open", tag |-> t] : t \in Tags}
Extend(g, open2) == /\ phase = "build" /\ Len(msg) < MaxLen
                    /\ msg' = Append(msg, g) /\ amsg' = Append(amsg, g) /\ open' = open2
                    /\ UNCHANGED <<base, col, j, stack, run, ntags, reg, pend, out, err, done, phase, way>>
Build == \/ \E g \in Segs : Extend(g, IF g.k = "open" THEN Append(open, g.tag) ELSE open)
         \/ /\ open # <<>>
            /\ \/ Extend([k |-> "close", tag |-> open[Len(open)]], SubSeq(open, 1, Len(open) - 1))
               \/ Extend([k |-> "closeany"], SubSeq(open, 1, Len(open) - 1))
Launch == /\ phase = "build" /\ open = <<>>
          /\ \E c \in BOOLEAN : col' = c
          /\ phase' = "run" /\ reg' = SetNames(msg) /\ pend' = LaterTags(msg)
          /\ UNCHANGED <<msg, base, amsg, j, stack, run, ntags, out, err, done, open, way>>
NextA == Build \/ Launch \/ (phase = "run" /\ Step /\ UNCHANGED <<phase, open, way>>)
SpecA == InitA /\ [][NextA]_mvars

EmitA == (phase = "run" /\ (done \/ err)) => PrintT(ToJson([msg |-> msg, col |-> col, out |-> out, err |-> err]))

\* ---------------------------------------------------------------- (b)
AllColours == {NoColour, "black", "red", "green", "yellow", "blue", "magenta", "cyan", "white", "default"}
FewColours == {NoColour, "red", "white", "default"}
OrderedAttrs == <<"bold", "dark", "italic", "underline", "blink", "reverse", "conceal">>
AllAttrSets == SUBSET Attrs
FewAttrSets == {{}, Attrs} \cup {{a} : a \in Attrs} \cup {{"bold", "underline"}, {"dark", "italic", "blink"}}
SeqOfSet(S) == SelectSeq(OrderedAttrs, LAMBDA a : a \in S)
StyleOf(fg, bg, S, w) == T(TRUE, "ts", IF w = 1 THEN "set" ELSE IF w = 2 THEN "added" ELSE "", fg, bg, SeqOfSet(S))
One == [k |-> "t", c |-> "1"]
Two == [k |-> "t", c |-> "2"]
\* ways 1, 2: <ts>1</ts>2 ;  way 3: format(m, style=S) on m = "1" (template 1) and m = "1<tb>2</tb>1" (template 2)
MsgOf(w, s, tmpl) == IF w \in {1, 2} THEN <<[k |-> "open", tag |-> s], One, [k |-> "close", tag |-> s], Two>>
                     ELSE IF tmpl = 1 THEN <<One>>
                     ELSE <<One, [k |-> "open", tag |-> TagB], Two, [k |-> "close", tag |-> TagB], One>>
InitB == /\ phase = "run" /\ open = <<>>
         /\ \E fg \in Colours, bg \in Colours, S \in AttrSets, w \in 1..3, tmpl \in 1..2 :
               /\ (w \in {1, 2} => tmpl = 1)
               /\ way = w
               /\ Start(MsgOf(w, StyleOf(fg, bg, S, w), tmpl), IF w = 3 THEN <<StyleOf(fg, bg, S, w)>> ELSE <<>>, TRUE)
NextB == Step /\ UNCHANGED <<phase, open, way>>
SpecB == InitB /\ [][NextB]_mvars
\* the style under test is the first open tag (ways 1, 2) or the base style (way 3)
StyleUnderTest == IF way = 3 THEN base[1] ELSE msg[1].tag
EmitB == done => PrintT(ToJson([way |-> way, style |-> StyleUnderTest, msg |-> msg, out |-> out]))
\* (b) as such: the character written under the style carries exactly the codes of the SGR table
FirstCharCodes == done => Fold(out, {})[1].codes = Sgr(StyleUnderTest)
=============================================================================
