SPECIFICATION SpecA
CONSTANTS
  Repaired = TRUE
  MaxLen = 5
  TextChars <- FullChars
  Colours <- FewColours
  AttrSets <- FewAttrSets
INVARIANT TextSame
INVARIANT PlainClean
INVARIANT CodesRight
INVARIANT ResetAtEnd
INVARIANT NoError
INVARIANT AllKnown
INVARIANT StackRestored
INVARIANT EmitA
