SPECIFICATION PSpec
CONSTANTS
  Repaired = TRUE
  Depth = 5
INVARIANT PairText
INVARIANT PairCodes
INVARIANT PairPlain
INVARIANT EmitPair
