--------------------------- MODULE MC_MarkupPair ---------------------------
(* C11 (a), formatter objects are independent: a style is registered ON A FORMATTER (its style set, or add_style on that
   object).  Two formatters built without a style set (each "plain" or "ansi"); operations
       Build(f)    the formatter comes into being (default style set)
       Add(f)      f.add_style(K)   - K: a style under the tag k9, which no default style set holds
       Render(f)   f renders  <k9>1</k9>2
   P-layer: for f the tag k9 is a registered style iff Add(f) happened (preg) - otherwise <k9> and </k9> are unknown
            tags, i.e. text; TextSame / CodesRight / PlainClean are evaluated for that reading of the message.
   A-layer: every formatter owns its tag engine (areg[f]); Build starts it from the default style set, Add(f)
            registers on f's engine only.  Render runs the tag machine of Markup on the message as f's engine sees it.
   Every operation sequence of length Depth is emitted and replayed on real default formatters / I/Os.            *)
EXTENDS Markup, Json

CONSTANT Depth
VARIABLES kinds,    \* [1..2 -> {"plain", "ansi"}]
          built,    \* set of formatters that exist
          preg,     \* P: [f -> BOOLEAN]  add_style(K) was called on f
          areg,     \* A: [f -> BOOLEAN]  f's engine knows k9
          hist, phase, cf
pvars == <<vars, kinds, built, preg, areg, hist, phase, cf>>

K == [named |-> TRUE, name |-> "k9", sup |-> "added", fg |-> "magenta", bg |-> NoColour, at |-> <<"underline">>]
One == [k |-> "t", c |-> "1"]
Two == [k |-> "t", c |-> "2"]
MsgReg == <<[k |-> "open", tag |-> K], One, [k |-> "close", tag |-> K], Two>>
MsgLit == <<[k |-> "unk", lit |-> <<"<", "k", "9", ">">>], One, [k |-> "unk", lit |-> <<"<", "/", "k", "9", ">">>], Two>>
MsgFor(known) == IF known THEN MsgReg ELSE MsgLit

PInit == /\ Start(<<>>, <<>>, FALSE)
         /\ kinds \in [1..2 -> {"plain", "ansi"}]
         /\ built = {} /\ preg = [f \in 1..2 |-> FALSE] /\ areg = [f \in 1..2 |-> FALSE]
         /\ hist = <<>> /\ phase = "idle" /\ cf = 1

Build(f) == /\ phase = "idle" /\ Len(hist) < Depth /\ f \notin built
            /\ built' = built \cup {f}
            /\ hist' = Append(hist, [op |-> "build", f |-> f])
            /\ UNCHANGED <<vars, kinds, preg, areg, phase, cf>>
\* add_style on f: f's own engine (and no other) learns the tag
Add(f) == /\ phase = "idle" /\ Len(hist) < Depth /\ f \in built /\ ~preg[f]
          /\ preg' = [preg EXCEPT ![f] = TRUE]
          /\ areg' = [areg EXCEPT ![f] = TRUE]
          /\ hist' = Append(hist, [op |-> "add", f |-> f])
          /\ UNCHANGED <<vars, kinds, built, phase, cf>>
Render(f) == /\ phase = "idle" /\ Len(hist) < Depth /\ f \in built
             /\ Reset(MsgFor(areg[f]), <<>>, kinds[f] = "ansi")
             /\ phase' = "run" /\ cf' = f
             /\ UNCHANGED <<kinds, built, preg, areg, hist>>
Run == phase = "run" /\ ~done /\ Step /\ UNCHANGED <<kinds, built, preg, areg, hist, phase, cf>>
Rendered == /\ phase = "run" /\ done
            /\ hist' = Append(hist, [op |-> "render", f |-> cf, known |-> preg[cf], out |-> out])
            /\ phase' = "idle"
            /\ UNCHANGED <<vars, kinds, built, preg, areg, cf>>
PNext == (\E f \in 1..2 : Build(f) \/ Add(f) \/ Render(f)) \/ Run \/ Rendered
PSpec == PInit /\ [][PNext]_pvars

\* the property, for the reading of the message that the P-layer's registry of the rendering formatter gives
PairText == (phase = "run" /\ done) => Strip(out) = TextOf(MsgFor(preg[cf]))
PairCodes == (phase = "run" /\ done /\ col) => Fold(out, {}) = PRender(MsgFor(preg[cf]), <<>>)
PairPlain == (phase = "run" /\ done /\ ~col) => Plainly(out)
Renders == Len(SelectSeq(hist, LAMBDA h : h.op = "render"))
EmitPair == (phase = "idle" /\ Len(hist) = Depth /\ Renders >= 1) => PrintT(ToJson([kinds |-> kinds, ops |-> hist]))
=============================================================================
