---------------------------- MODULE MarkupTrace ----------------------------
(* Recorded renderings of the real formatters / outputs checked against Markup.
   event: [claim ("all" | "text": only the text clauses, see below), msg (segments), base (<<>> or <<style>>: format(.., style=)), col (a decorated rendering is expected),
           how (which call produced it - used as key), res ("ok" | exception class), toks (the tokenised result:
           [k |-> "c", c, codes |-> <<>>] | [k |-> "sgr", c |-> "", codes] | [k |-> "esc", ...] for any other escape)]
   P-clauses hold for balanced messages (an undecorated rendering must be free of escapes for every message):
     P.markup.text         the rendering with its SGR sequences stripped is the tag-stripped text
     P.markup.plain_clean  an undecorated rendering contains no escape byte
     P.markup.codes        every character is shown under exactly the SGR codes of the innermost open style
     P.markup.reset        nothing stays switched on at the end
   A.tokens: the token stream is the one the tag machine produces.                                             *)
EXTENDS Markup, TraceKit

VARIABLES tid, l
tvars == <<vars, tid, l>>
T == Traces[tid]
Ev == T[l]

TInit == /\ tid \in 1..NTraces /\ l = 1
         /\ IF Len(Traces[tid]) >= 1 THEN Start(Traces[tid][1].msg, Traces[tid][1].base, Traces[tid][1].col)
            ELSE Start(<<>>, <<>>, FALSE)

TStep == l <= Len(T) /\ Step /\ UNCHANGED <<tid, l>>

NoEscape(toks) == \A k \in 1..Len(toks) : toks[k].k = "c"
OnlySgr(toks) == \A k \in 1..Len(toks) : toks[k].k \in {"c", "sgr"}

\* claim = "rewire": the output was reconfigured (set_stream / set_formatter) before this rendering; the event carries
\* the formatter kind fk and the stream's ANSI support sa now in place, and whether a decorated rendering is expected is
\* decided here from that pair (the driver's col only starts the A-layer machine)
Full(e) == e.claim \in {"all", "rewire"}
ColOf(e) == IF e.claim = "rewire" THEN PDecorated(e.fk, e.sa) ELSE e.col
Clauses(e) ==
  LET bal == Balanced(e.msg)
      ok == e.res = "ok"
  IN /\ Check(tid, l, "P.markup.plain_clean", e.how, (ok /\ ~ColOf(e)) => NoEscape(e.toks))
     /\ Check(tid, l, "P.markup.text", e.how, bal => (ok /\ Strip(e.toks) = TextOf(e.msg)))
     \* claim = "text": an earlier message through the same formatter was not balanced (styles may still be open on
     \* it) - what carries over is not this property's subject, the text of a balanced message must be right all the same
     /\ Check(tid, l, "P.markup.codes", e.how,
              (bal /\ ColOf(e) /\ Full(e)) => (OnlySgr(e.toks) /\ Fold(e.toks, {}) = PRender(e.msg, e.base)))
     /\ Check(tid, l, "P.markup.reset", e.how, (bal /\ ColOf(e) /\ Full(e)) => FinalCodes(e.toks, {}) = {})
     /\ Note(tid, l, "A.tokens", (ok /\ ~err /\ Full(e)) => e.toks = out)
     /\ Note(tid, l, "A.error", Full(e) => (ok = ~err))

TCompare ==
  /\ l <= Len(T) /\ (done \/ err)
  /\ Clauses(Ev)
  /\ l' = l + 1 /\ tid' = tid
  /\ IF l + 1 <= Len(T) THEN Reset(T[l + 1].msg, T[l + 1].base, T[l + 1].col) ELSE UNCHANGED vars

TDone == /\ l = Len(T) + 1 /\ l' = l + 1 /\ tid' = tid /\ UNCHANGED vars /\ Accept(tid)

TNext == TStep \/ TCompare \/ TDone
TSpec == TInit /\ [][TNext]_tvars
=============================================================================
