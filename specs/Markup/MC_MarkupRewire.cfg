SPECIFICATION RSpec
CONSTANTS
  Repaired = TRUE
  Depth = 4
INVARIANT RewireRight
INVARIANT TextSame
INVARIANT PlainClean
INVARIANT CodesRight
INVARIANT ResetAtEnd
INVARIANT EmitRewire
