--------------------------- MODULE MC_MarkupHist ---------------------------
(* C11 (b), histories on ONE style object: the object is supplied (in one of the three ways, to an ANSI or to a plain
   formatter), then changed through its setters, then supplied again, ...   The SGR codes of a use depend only on the
   attributes the object has at that moment (P: CodesRight is evaluated on every use with the attributes of that
   moment); the A-layer's converter reads the attributes anew on every conversion.
   A history is  Use (Set{1,2} Use)*  of at most Depth operations; every use is rendered by the tag machine
   (template <ts>1</ts>2 for "in the style set" / "added later", 1 for "passed for the call"); every history with at
   least two uses is emitted for replay on one real Style object.                                               *)
EXTENDS Markup, Json

CONSTANTS Depth, FgChoices, BgChoices, AttrChoices

VARIABLES obj,     \* the style object's attributes now: [fg, bg, at (set)]
          hist,    \* operations so far: [op |-> "use", way, col, style, msg, out] | [op |-> "set", f, c, b]
          phase,   \* "idle" | "run"
          cway, csame
hvars == <<vars, obj, hist, phase, cway, csame>>

FewFg == {NoColour, "red", "white"}
FewBg == {NoColour, "blue"}
FewAttrs == {"bold", "conceal"}
MoreFg == {NoColour, "red", "white", "default"}
MoreBg == {NoColour, "blue", "default"}
MoreAttrs == {"bold", "underline", "conceal"}
OrderedAttrs == <<"bold", "dark", "italic", "underline", "blink", "reverse", "conceal">>
SeqOfSet(S) == SelectSeq(OrderedAttrs, LAMBDA a : a \in S)
StyleNow(w) == [named |-> TRUE, name |-> "ts", sup |-> IF w = 1 THEN "set" ELSE IF w = 2 THEN "added" ELSE "",
                fg |-> obj.fg, bg |-> obj.bg, at |-> SeqOfSet(obj.at)]
One == [k |-> "t", c |-> "1"]
Two == [k |-> "t", c |-> "2"]
MsgOf(w) == IF w \in {1, 2} THEN <<[k |-> "open", tag |-> StyleNow(w)], One, [k |-> "close", tag |-> StyleNow(w)], Two>>
            ELSE <<One>>

HInit == /\ Start(<<>>, <<>>, FALSE)
         /\ obj \in [fg : {NoColour, "red"}, bg : {NoColour}, at : {{}, {"bold"}}]
         /\ hist = <<>> /\ phase = "idle" /\ cway = 0 /\ csame = FALSE

TrailingSets == IF hist = <<>> THEN 0
                ELSE IF hist[Len(hist)].op # "set" THEN 0
                ELSE IF Len(hist) >= 2 /\ hist[Len(hist) - 1].op = "set" THEN 2 ELSE 1

\* the fluent setters: fg(c), bg(c), bold(b) ...  (only calls that change the object)
SetColour(f, c) == /\ phase = "idle" /\ hist # <<>> /\ Len(hist) < Depth - 1 /\ TrailingSets < 2
                   /\ obj[f] # c
                   /\ obj' = [obj EXCEPT ![f] = c]
                   /\ hist' = Append(hist, [op |-> "set", f |-> f, c |-> c, b |-> FALSE])
                   /\ UNCHANGED <<vars, phase, cway, csame>>
SetAttr(a, b) == /\ phase = "idle" /\ hist # <<>> /\ Len(hist) < Depth - 1 /\ TrailingSets < 2
                 /\ (a \in obj.at) # b
                 /\ obj' = [obj EXCEPT !.at = IF b THEN @ \cup {a} ELSE @ \ {a}]
                 /\ hist' = Append(hist, [op |-> "set", f |-> a, c |-> "", b |-> b])
                 /\ UNCHANGED <<vars, phase, cway, csame>>

\* same = TRUE: the use goes to the formatter object of the earlier uses (add_style again / format again) or, for
\* way 1, a new formatter is built from the style set object of the earlier uses - the codes are those of the
\* attributes now in every case (P and A do not depend on `same`)
Use(w, c, same) == /\ phase = "idle" /\ Len(hist) < Depth /\ (IF hist = <<>> THEN TRUE ELSE hist[Len(hist)].op = "set")
             /\ Reset(MsgOf(w), IF w = 3 THEN <<StyleNow(w)>> ELSE <<>>, c)
             /\ (same => hist # <<>>)
             /\ phase' = "run" /\ cway' = w /\ csame' = same
             /\ UNCHANGED <<obj, hist>>
Run == phase = "run" /\ ~done /\ Step /\ UNCHANGED <<obj, hist, phase, cway, csame>>
Used == /\ phase = "run" /\ done
        /\ hist' = Append(hist, [op |-> "use", way |-> cway, same |-> csame, col |-> col, style |-> StyleNow(cway), msg |-> msg, out |-> out])
        /\ phase' = "idle"
        /\ UNCHANGED <<vars, obj, cway, csame>>

HNext == \/ \E c \in FgChoices : SetColour("fg", c)
         \/ \E c \in BgChoices : SetColour("bg", c)
         \/ \E a \in AttrChoices, b \in BOOLEAN : SetAttr(a, b)
         \/ \E w \in 1..3, c \in BOOLEAN, same \in BOOLEAN : Use(w, c, same)
         \/ Run \/ Used
HSpec == HInit /\ [][HNext]_hvars

Uses == Len(SelectSeq(hist, LAMBDA h : h.op = "use"))
EmitHist == (phase = "idle" /\ Uses >= 2 /\ hist[Len(hist)].op = "use") => PrintT(ToJson([ops |-> hist]))
=============================================================================
