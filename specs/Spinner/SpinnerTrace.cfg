SPECIFICATION TSpec
CONSTANTS
  Locked = TRUE
