SPECIFICATION HSpec
CONSTANTS
  Locked = TRUE
  Bodies <- BodiesH
  Modes <- AllModes
  ValueChoices <- DefaultValues
  Ends <- OneEnd
  Seconds <- NoSecond
  TickMs <- Ticks1
  MaxTicks = 2
  MaxPre = 3
INVARIANT NoMix
INVARIANT Joined
INVARIANT EndFrame
INVARIANT Emit
