SPECIFICATION HSpec
CONSTANTS
  Locked = TRUE
  Bodies <- BodiesH
  Modes <- AllModes
  TickMs <- Ticks1
  MaxTicks = 2
  MaxPre = 4
INVARIANT NoMix
INVARIANT Joined
INVARIANT EndFrame
INVARIANT Emit
